"""C02, family 'sched': creation and start of a unification generator are different moments.

A case: {'kind': 'sched', 'nvars': n, 'events': [...]} with events
    ['create', i, t1, t2]   g_i = unify(t1, t2) is CALLED (dereference + dispatch happen now)
    ['next', i]             next(g_i): the first one runs the body, a later one exhausts it
    ['close', i]            g_i.close()
    ['drop', i]             the only reference to g_i is dropped (CPython finalises it at once)
The case generator keeps the STARTED generators in a stack (only the top one is exhausted / closed / dropped), as
nested generators are; creation, and closing of generators that were never started, happen at any time.  It uses
the reference unifier below to know which starts yield.

Reference unifier (_ref_*): the textbook algorithm with occurs check on JSON terms and a triangular substitution,
independent of the engine and of the Coq model.  The intrinsic oracle replays the events with it:
  * a started generator yields iff the equations of the active generators plus its own (the two terms as they
    dereferenced when unify() was called) have a finite unifier; every generator yields at most once;
  * after every event the implementation's bindings are acyclic, are a most general unifier of the equations of
    the ACTIVE generators (the tuple of dereferenced variables is a variant of the reference's), and exactly as
    many variables are bound as the mgu binds (nothing is bound that need not be);
  * once all generators are closed every variable is unbound.
Cases in which the reference meets an occurs-check failure are unspecified from that event on.
"""
from lib import terms, pyconsts
from lib.terms import g_term, g_list, g_nat
from lib.pyconsts import to_model

# ------------------------------------------------------------------ reference unifier

def _walk(t, sub):
    while t[0] == 'v' and t[1] in sub:
        t = sub[t[1]]
    return t

def _resolve(t, sub):
    t = _walk(t, sub)
    if t[0] == 'f':
        return ['f', t[1], [_resolve(a, sub) for a in t[2]]]
    return t

def _occurs(i, t, sub):
    t = _walk(t, sub)
    if t[0] == 'v':
        return t[1] == i
    if t[0] == 'f':
        return any(_occurs(i, a, sub) for a in t[2])
    return False

def _ref_unify(a, b, sub):
    """'ok' | 'clash' | 'cyc'; extends sub in place (left to right, depth first)"""
    a = _walk(a, sub); b = _walk(b, sub)
    if a[0] == 'v' and b[0] == 'v' and a[1] == b[1]:
        return 'ok'
    if a[0] == 'v':
        if _occurs(a[1], b, sub):
            return 'cyc'
        sub[a[1]] = b
        return 'ok'
    if b[0] == 'v':
        if _occurs(b[1], a, sub):
            return 'cyc'
        sub[b[1]] = a
        return 'ok'
    if a[0] != b[0]:
        return 'clash'
    if a[0] != 'f':
        return 'ok' if a[1] == b[1] else 'clash'
    if a[1] != b[1] or len(a[2]) != len(b[2]):
        return 'clash'
    for x, y in zip(a[2], b[2]):
        r = _ref_unify(x, y, sub)
        if r != 'ok':
            return r
    return 'ok'

def _ref_mgu(eqs):
    sub = {}
    for a, b in eqs:
        r = _ref_unify(a, b, sub)
        if r != 'ok':
            return r, None
    return 'ok', sub

class RefRun:
    """the events replayed with the reference unifier"""
    def __init__(self):
        self.sub = {}
        self.stack = []          # [(i, (a, b))] active = yielded and not closed, in start order
        self.state = {}          # i -> ('fresh', eq) | ('active',) | ('done',)
        self.late = 0            # number of generators started under other bindings than those of their creation, yielding
        self.lifo = True
        self.cyc = False
    def _remgu(self):
        r, sub = _ref_mgu([e for _, e in self.stack])
        assert r == 'ok'
        self.sub = sub
    def step(self, ev):
        """returns the expected yield (0/1; 'any' for a next on an object that was closed before it was started: a
        real generator is finished then, the engine's YPSuccess object of two equal constants ignores close() and
        still yields once - the property says nothing about it), or None when the case is unspecified from here on"""
        op, i = ev[0], ev[1]
        st = self.state.get(i)
        y = 0
        if op == 'create':
            # Python constants ["c", k] (lib/pyconsts.py) are compared by the class of == they belong to
            self.state[i] = ('fresh', (_resolve(to_model(ev[2]), self.sub), _resolve(to_model(ev[3]), self.sub)), dict(self.sub))
        elif op == 'next':
            if st and st[0] == 'fresh':
                r, sub = _ref_mgu([e for _, e in self.stack] + [st[1]])
                if r == 'cyc':
                    self.cyc = True
                    return None
                if r == 'ok':
                    y = 1
                    if st[2] != self.sub:
                        self.late += 1
                    self.stack.append((i, st[1]))
                    self.state[i] = ('active',)
                    self.sub = sub
                else:
                    self.state[i] = ('done',)
            elif st and st[0] == 'active':
                self._pop(i)
            elif st and st[0] == 'closed':
                y = 'any'
        else:
            if st and st[0] == 'active':
                self._pop(i)
            elif st and st[0] == 'fresh':
                self.state[i] = ('closed',)
        return y
    def _pop(self, i):
        if self.stack[-1][0] != i:
            self.lifo = False
        self.stack = [(j, e) for j, e in self.stack if j != i]
        self.state[i] = ('done',)
        self._remgu()

# ------------------------------------------------------------------ case generators

CONSTS = [['a', 'a'], ['a', 'b'], ['a', '[]'], ['i', 1], ['s', 'a']]

def _pair(rng, nv):
    v = lambda: ['v', rng.randrange(nv)]
    q = rng.random()
    if q < 0.30:
        a, b = v(), v()
    elif q < 0.42:
        a, b = v(), list(rng.choice(CONSTS))
    elif q < 0.58:
        a = v()
        b = rng.choice([['f', 'f', [v()]], ['f', 'g', [v(), v()]], ['f', 'g', [v(), list(rng.choice(CONSTS))]],
                        terms.mklist([v()], v()), terms.mklist([v(), list(rng.choice(CONSTS))])])
    elif q < 0.85:
        a = terms.rand_term(rng, nv, 2, pvar=0.6)
        b = terms.mutate_term(rng, a, nv) if rng.random() < 0.7 else terms.rand_term(rng, nv, 2, pvar=0.6)
    else:
        a = terms.rand_term(rng, nv, 3, pvar=0.45)
        b = terms.mutate_term(rng, a, nv) if rng.random() < 0.7 else terms.rand_term(rng, nv, 3, pvar=0.45)
    return (a, b) if rng.random() < 0.5 else (b, a)

def gen_case(rng):
    """most cases stay inside the specified domain: a schedule that meets an occurs-check failure is redrawn (3 times)"""
    for _ in range(4):
        c, cyc = _gen_case(rng)
        if not cyc:
            break
    return c

def _gen_case(rng):
    nv = rng.choice([2, 2, 3, 3, 4, 5])
    ng = rng.choice([2, 2, 3, 3, 4, 5])
    pairs = [_pair(rng, nv) for _ in range(ng)]
    if rng.random() < 0.3:
        # constants that only the Python API can produce (None, bools, floats, bytes, tuples ...; no NaN here: it is not
        # equal to itself, so no most general unifier describes the engine's bindings - kind 'pair' covers it)
        pal = [c for c in pyconsts.palette(rng) if not pyconsts.has_nan(c)] or [['c', 0]]
        pairs = [(pyconsts.sprinkle(rng, a, pal, 0.6), pyconsts.sprinkle(rng, b, pal, 0.6)) for a, b in pairs]
        if rng.random() < 0.5:
            k = rng.randrange(ng)
            pairs[k] = (['v', rng.randrange(nv)], list(rng.choice(pal)))
    style = rng.choice(['early', 'early', 'random', 'random', 'random', 'nested'])
    ref = RefRun()
    evs = []
    todo = list(range(ng))
    fresh = []
    def emit(e):
        evs.append(e)
        return ref.step(e)
    def create():
        i = todo.pop(0)
        emit(['create', i, pairs[i][0], pairs[i][1]])
        fresh.append(i)
        return i
    def start(i):
        fresh.remove(i)
        return emit(['next', i])
    def pop():
        i = ref.stack[-1][0]
        emit([rng.choice(['close', 'close', 'drop', 'next']), i])
    alive = True
    if style == 'nested':
        while todo and alive:
            alive = start(create()) is not None
            if alive and ref.stack and rng.random() < 0.2:
                pop()
    elif style == 'early':
        while todo:
            create()
        order = list(fresh)
        if rng.random() < 0.75:
            rng.shuffle(order)
        for i in order:
            if start(i) is None:
                alive = False
                break
            if ref.stack and rng.random() < 0.2:
                pop()
    else:
        for _ in range(rng.choice([5, 7, 9, 12])):
            r = rng.random()
            if todo and (r < 0.35 or not (fresh or ref.stack)):
                create()
            elif fresh and r < 0.72:
                if start(rng.choice(fresh)) is None:
                    alive = False
                    break
            elif ref.stack and r < 0.88:
                pop()
            elif fresh and r < 0.93:
                i = rng.choice(fresh)
                fresh.remove(i)
                emit([rng.choice(['close', 'drop']), i])
            else:
                done = [i for i, st in ref.state.items() if st[0] in ('done', 'closed')]
                if done:
                    emit(['next', rng.choice(done)])
    if alive:
        # something more on top of the stack, then everything is taken down again
        if ref.stack and rng.random() < 0.5:
            v = rng.randrange(nv)
            emit(['create', ng, ['v', v], list(rng.choice(CONSTS)) if rng.random() < 0.7 else pyconsts.rand_const(rng, rng.choice([0, 1, 2, 3, 5, 6, 7]))])
            if emit(['next', ng]) is None:
                alive = False
    if alive:
        while ref.stack:
            pop()
        for i in list(fresh):
            if rng.random() < 0.5:
                emit([rng.choice(['close', 'drop', 'next']), i])
    # nothing can be done with a dropped object
    dropped = set()
    out = []
    for e in evs:
        if e[1] in dropped:
            continue
        out.append(e)
        if e[0] == 'drop':
            dropped.add(e[1])
    return {'kind': 'sched', 'nvars': nv, 'events': out, 'style': style}, ref.cyc

# ------------------------------------------------------------------ round 5: term OBJECTS that the caller holds while bindings come and go
#
# A caller may build a term once and hand the same object to unify() again and again while the variables inside it are bound,
# unbound again and bound to something else (a compiled clause does so with every term it builds before a choice point).  With
# 'reuse' set the implementation side builds every compound (sub)term of the case only once (lib/terms.py: ImplTerms.reuse) - what
# a term "is" may then never depend on what it dereferenced to at an earlier moment.  The model is unchanged: it has no object
# identity, so the schedule means what it meant before.

def _held_pool(rng, nv):
    v = lambda: ['v', rng.randrange(nv)]
    c = lambda: list(rng.choice(CONSTS))
    inner = [['f', 'f', [v()]], ['f', 'g', [v(), c()]], ['f', 'g', [v(), v()]], terms.mklist([v(), c()]), terms.mklist([v()], v())]
    rng.shuffle(inner)
    inner = inner[:rng.choice([2, 3])]
    outer = [['f', 'h', [rng.choice(inner), v()]], ['f', 'h', [rng.choice(inner), rng.choice(inner)]], ['f', 'f', [rng.choice(inner)]],
             terms.mklist([rng.choice(inner), v()])]
    rng.shuffle(outer)
    return inner + outer[:rng.choice([1, 2])]

def _ground_like(rng, t, nv, keep=0.3):
    """t with (most of) its variables replaced by constants: something t unifies with once its variables are free or fit"""
    if t[0] == 'v':
        return t if rng.random() < keep else list(rng.choice(CONSTS))
    if t[0] == 'f':
        return ['f', t[1], [_ground_like(rng, a, nv, keep) for a in t[2]]]
    return t

def gen_held_case(rng):
    for _ in range(4):
        c, cyc = _gen_held_case(rng)
        if not cyc:
            break
    return c

def _gen_held_case(rng):
    nv = rng.choice([2, 3, 3, 4])
    pool = _held_pool(rng, nv)
    ref = RefRun()
    evs = []
    n = [0]
    def emit(e):
        evs.append(e)
        return ref.step(e)
    def run(a, b):
        """create + start; returns (index, yielded) or None when the case leaves the specified domain"""
        i = n[0]; n[0] += 1
        emit(['create', i, a, b])
        y = emit(['next', i])
        return None if y is None else (i, y)
    alive = True
    for _round in range(rng.choice([2, 3, 3, 4])):
        opened = []
        # bindings of this round: some variables get constants / small terms / aliases
        for _ in range(rng.choice([0, 1, 1, 2])):
            x = ['v', rng.randrange(nv)]
            r = run(x, rng.choice([list(rng.choice(CONSTS)), list(rng.choice(CONSTS)), ['v', rng.randrange(nv)], ['f', 'f', [list(rng.choice(CONSTS))]]]))
            if r is None:
                alive = False; break
            if r[1]:
                opened.append(r[0])
        if not alive:
            break
        # the held terms are used under these bindings
        for _ in range(rng.choice([1, 2, 2, 3])):
            t = rng.choice(pool)
            q = rng.random()
            other = rng.choice(pool) if q < 0.3 else _ground_like(rng, t, nv) if q < 0.85 else ['v', rng.randrange(nv)]
            a, b = (t, other) if rng.random() < 0.6 else (other, t)
            r = run(a, b)
            if r is None:
                alive = False; break
            if r[1]:
                if rng.random() < 0.7:
                    emit([rng.choice(['close', 'close', 'drop', 'next']), r[0]])
                else:
                    opened.append(r[0])
        if not alive:
            break
        # the round is taken down again (LIFO), wholly or in part
        keep = rng.choice([0, 0, 0, 1]) if opened else 0
        while len(opened) > keep:
            emit([rng.choice(['close', 'close', 'drop', 'next']), opened.pop()])
        if keep:
            # what stays open is below everything the next rounds open; it is closed at the very end
            pass
    if alive:
        while ref.stack:
            emit([rng.choice(['close', 'drop', 'next']), ref.stack[-1][0]])
    dropped = set()
    out = []
    for e in evs:
        if e[1] in dropped:
            continue
        out.append(e)
        if e[0] == 'drop':
            dropped.add(e[1])
    return {'kind': 'sched', 'nvars': nv, 'events': out, 'style': 'held', 'reuse': True}, ref.cyc

def _small_pairs():
    X, Y, a = ['v', 0], ['v', 1], ['a', 'a']
    f = lambda *xs: ['f', 'f', list(xs)]
    return [(X, Y), (Y, X), (X, a), (a, Y), (X, f(Y)), (f(X), Y), (f(X), f(Y)), (f(Y, a), f(X, a)), (f(X, Y), f(Y, X)), (X, X)]

def exhaustive(tier):
    """ALL schedules 'create every generator, then start them in some order, then take them down' over the small pairs:
    quick tier 2 generators (10 x 10 pairs x 2 orders), thorough tier also 3 generators (1000 x 6 orders)"""
    import itertools
    P = _small_pairs()
    out = []
    for ng in ([2] if tier == 'quick' else [2, 3]):
        for combo in itertools.product(range(len(P)), repeat=ng):
            for order in itertools.permutations(range(ng)):
                evs = [['create', i, P[c][0], P[c][1]] for i, c in enumerate(combo)]
                evs += [['next', i] for i in order]
                evs += [['close', i] for i in reversed(order)]
                ref = RefRun()
                keep = []
                for e in evs:                 # cut where the reference meets an occurs-check failure
                    keep.append(e)
                    if ref.step(e) is None:
                        break
                if not ref.lifo:
                    continue
                out.append({'kind': 'sched', 'nvars': 2, 'events': keep, 'style': 'exhaustive', 'origin': 'exhaustive-sched'})
    return out

def corpus():
    X, Y, Z, a, b = ['v', 0], ['v', 1], ['v', 2], ['a', 'a'], ['a', 'b']
    f = lambda *xs: ['f', 'f', list(xs)]
    def c(nv, *evs):
        return {'kind': 'sched', 'nvars': nv, 'events': [list(e) for e in evs], 'style': 'corpus'}
    return [
        # created under no binding, started after the other side got a value
        c(2, ['create', 0, X, Y], ['create', 1, Y, a], ['next', 1], ['next', 0], ['close', 0], ['close', 1]),
        # created early, started after the receiver itself was bound
        c(2, ['create', 0, X, Y], ['create', 1, X, f(a)], ['next', 1], ['next', 0], ['next', 0], ['close', 1]),
        # created under a binding that is gone when it is started
        c(2, ['create', 1, X, a], ['next', 1], ['create', 0, X, Y], ['close', 1], ['next', 0], ['drop', 0]),
        # compound terms created early: unify_arrays dereferences its elements when it starts
        c(3, ['create', 0, f(X, Y), f(Z, Z)], ['create', 1, Z, f(a)], ['next', 1], ['next', 0], ['close', 0], ['close', 1]),
        # never started
        c(2, ['create', 0, X, Y], ['close', 0], ['next', 0], ['create', 1, X, b], ['next', 1], ['next', 1]),
    ]

# ------------------------------------------------------------------ model side

def model_expr(case):
    evs = []
    for e in case['events']:
        if e[0] == 'create':
            evs.append('(SCreate %s %s %s)' % (g_nat(e[1]), g_term(to_model(e[2])), g_term(to_model(e[3]))))
        elif e[0] == 'next':
            evs.append('(SNext %s)' % g_nat(e[1]))
        else:
            evs.append('(SClose %s)' % g_nat(e[1]))
    return '(OL [run_events_x 300 %s %s; spec_events 300 %s %s])' % (g_list(evs), g_nat(case['nvars']), g_list(evs), g_nat(case['nvars']))

# ------------------------------------------------------------------ implementation side

class _Cycle(Exception):
    pass

def _read(T, obj, onpath):
    """JSON term of an engine object, following _is_bound/_value by hand; raises _Cycle on cyclic bindings"""
    E = T.E
    seen = []
    while isinstance(obj, E.Variable) and obj._is_bound:
        if id(obj) in onpath or any(obj is s for s in seen):
            raise _Cycle()
        seen.append(obj)
        obj = obj._value
    if isinstance(obj, E.Functor):
        path = onpath | {id(s) for s in seen}
        return ['f', obj._name, [_read(T, a, path) for a in obj._args]]
    return T.read(obj, resolve=False)

def _snap(T, nv):
    try:
        return [[1 if T.vars[i]._is_bound else 0, terms.term_obs(_read(T, T.vars[i], frozenset()))] for i in range(nv)]
    except _Cycle:
        return 'cycle'

def impl(case):
    from yldprolog import engine as E
    yp = E.YP()
    nv = case['nvars']
    T = pyconsts.make_impl_terms([yp], nv)
    T.reuse = bool(case.get('reuse'))        # round 5: every compound (sub)term of the case is ONE engine object, used again and again
    slots = {}
    obs = []
    try:
        for e in case['events']:
            op, i = e[0], e[1]
            y = 0
            if op == 'create':
                try:
                    slots[i] = iter(E.unify(T.build(e[2]), T.build(e[3])))
                except Exception as x:          # noqa
                    obs.append({'raised': type(x).__name__})
                    break
            elif op == 'next':
                if slots.get(i) is not None:
                    try:
                        next(slots[i])
                        y = 1
                    except StopIteration:
                        pass
                    except Exception as x:      # noqa
                        obs.append({'raised': type(x).__name__})
                        break
            elif op == 'close':
                if slots.get(i) is not None:
                    slots[i].close()
            else:
                slots[i] = None
            obs.append({'y': y, 'snap': _snap(T, nv)})
    finally:
        for i in sorted(slots, reverse=True):
            try:
                if slots[i] is not None:
                    slots[i].close()
            except Exception:               # noqa
                pass
        slots.clear()
    return {'obs': obs, 'final_unbound': not any(v._is_bound for v in T.vars)}

# ------------------------------------------------------------------ judging

def _ev_text(e):
    if e[0] == 'create':
        return 'g%d = unify(%s, %s)' % (e[1], pyconsts.show_term(e[2]), pyconsts.show_term(e[3]))
    return {'next': 'next(g%d)', 'close': 'g%d.close()', 'drop': 'del g%d'}[e[0]] % e[1]

def _spec_vs_model(case, mo, spec):
    """inside Coq: the specification's trace (Unify/SchedSpec.v: srun) against the generator model's, and the
    reference unifier of the oracle against the specification (same domain, same number of active equations)"""
    ref = RefRun()
    defined = True
    counts = []
    for e in case['events']:
        w = ref.step(e)
        if w is None or w == 'any' or not ref.lifo:
            defined = False
            break
        counts.append(len(ref.stack))
    if defined != (spec[0] == 'ok'):
        return 'harness problem: the reference unifier of the oracle and the Coq specification disagree about the domain (reference: %s, specification: %s)' % (
            'inside' if defined else 'outside', spec[0])
    if not defined:
        return None
    exp = mo[1]
    if len(spec[1]) != len(exp):
        return 'model problem: specification and generator model have traces of different length'
    for k, (sp, x) in enumerate(zip(spec[1], exp)):
        if sp[:2] != x[:2]:
            return 'model problem: after event %d the specification (srun) and the generator model differ (%r / %r)' % (k, sp, x)
        if sp[2] != counts[k]:
            return 'harness problem: after event %d the specification has %d active equations, the reference %d' % (k, sp[2], counts[k])
    return None

def compare(case, io, mo):
    mo, spec = mo
    if mo[0] == 'oof':
        return 'model ran out of fuel (harness problem)'
    r = _spec_vs_model(case, mo, spec)
    if r:
        return r
    exp = mo[1]
    got = io['obs']
    for k, x in enumerate(exp):
        if x and x[0] == 'cyc':
            return None                 # a binding that needs a cyclic term: unspecified from here on
        if k >= len(got):
            return 'the implementation stopped before event %d' % k
        g = got[k]
        e = case['events'][k]
        if 'raised' in g:
            return 'event %d (%s): the implementation raised %s, the model does not meet a cycle' % (k, _ev_text(e), g['raised'])
        if g['snap'] == 'cycle':
            return 'after event %d (%s): the bindings are cyclic, the model has %r' % (k, _ev_text(e), x[1])
        if g['y'] != x[0]:
            return 'event %d (%s): yielded %d, generator model %d' % (k, _ev_text(e), g['y'], x[0])
        if g['snap'] != x[1]:
            return 'after event %d (%s): bindings differ from the generator model (model %r, observed %r)' % (k, _ev_text(e), x[1], g['snap'])
    return None

def oracle(case, io):
    ref = RefRun()
    nv = case['nvars']
    yields = {}
    for k, e in enumerate(case['events']):
        want = ref.step(e)
        if want is None or not ref.lifo:
            break                       # occurs-check failure / not a stack: unspecified from here on
        if k >= len(io['obs']):
            return 'the implementation stopped before event %d' % k
        g = io['obs'][k]
        what = 'event %d (%s)' % (k, _ev_text(e))
        if 'raised' in g:
            return '%s raised %s although the active equations have a finite most general unifier or a plain clash' % (what, g['raised'])
        if g['y']:
            yields[e[1]] = yields.get(e[1], 0) + 1
            if yields[e[1]] > 1:
                return '%s: the generator yielded a second time' % what
        if want != 'any' and g['y'] != want:
            return ('%s yielded although the terms are not unifiable under the active bindings' if g['y'] else
                    '%s did not yield although the terms are unifiable under the active bindings') % what
        if g['snap'] == 'cycle':
            return 'after %s the bindings are cyclic although the active equations have a finite most general unifier' % what
        nb = sum(b for b, _ in g['snap'])
        if nb != len(ref.sub):
            return 'after %s %d variables are bound, a most general unifier of the active equations binds %d' % (what, nb, len(ref.sub))
        mine = terms.rename_canonical([_resolve(['v', i], ref.sub) for i in range(nv)])
        theirs = terms.rename_canonical([terms.obs_term(t) for _, t in g['snap']])
        if mine != theirs:
            return 'after %s the bindings are not a most general unifier of the active equations (expected a variant of %s, observed %s)' % (
                what, [terms.show_term(t) for t in mine], [terms.show_term(t) for t in theirs])
    if not ref.cyc and not io['final_unbound']:
        return 'a variable is still bound after all generators were closed'
    return None

def nontrivial(case, io):
    ref = RefRun()
    for e in case['events']:
        if ref.step(e) is None:
            break
    return ref.late >= 1

def describe(case):
    return {'events': [_ev_text(e) for e in case['events']]}

def _in_domain(case):
    ref = RefRun()
    for e in case['events']:
        if ref.step(e) is None:
            break
    return ref.lifo

def shrink(case):
    """smaller schedules in which the started generators still form a stack"""
    for c in _shrink(case):
        if _in_domain(c):
            yield c

def _shrink(case):
    evs = case['events']
    ids = sorted({e[1] for e in evs})
    for i in ids:
        c = dict(case); c['events'] = [e for e in evs if e[1] != i]
        if c['events']:
            yield c
    for k, e in enumerate(evs):
        if e[0] != 'create':
            c = dict(case); c['events'] = evs[:k] + evs[k + 1:]
            yield c
    for k, e in enumerate(evs):
        if e[0] == 'create':
            for j in (2, 3):
                if e[j][0] == 'f':
                    for sub in e[j][2] + [['a', 'a']]:
                        ne = list(e); ne[j] = sub
                        c = dict(case); c['events'] = evs[:k] + [ne] + evs[k + 1:]
                        yield c

def distribution(cases, obs):
    d = {'cases': 0, 'style': {}, 'events': {}, 'late_started_yields': 0, 'late_started_yields_binding_nothing': 0,
         'cut_at_occurs_check': 0, 'generators': {}}
    for c, o in zip(cases, obs):
        if c.get('kind') != 'sched':
            continue
        d['cases'] += 1
        d['style'][c.get('style')] = d['style'].get(c.get('style'), 0) + 1
        n = str(len(c['events']))
        d['events'][n] = d['events'].get(n, 0) + 1
        ng = str(len({e[1] for e in c['events']}))
        d['generators'][ng] = d['generators'].get(ng, 0) + 1
        ref = RefRun()
        for e in c['events']:
            before, nb = ref.late, len(ref.sub)
            if ref.step(e) is None:
                d['cut_at_occurs_check'] += 1
                break
            if ref.late > before:
                d['late_started_yields'] += 1
                if len(ref.sub) == nb:
                    d['late_started_yields_binding_nothing'] += 1
    return d
