"""C03 - backtracking leaves no trace, however a query ends.

Two families of cases:
 kind 'gen'  : a bare engine.unify / unify_arrays / Variable.unify generator object under a stack of
               earlier, still suspended unifications, driven by a sequence of next / close / del
               operations; after EVERY operation the heap (which cells are bound, what every cell
               dereferences to) is compared with the UnifyGen model evaluated inside Coq.
 kind 'sched': SCHEDULES over several unification generator objects with shared / aliased variables: creation
               (unify / unify_arrays / v.unify is CALLED), next, close and drop are separate events in any
               interleaving (created early - started late, non-LIFO closing); after EVERY event the heap is
               compared with UnifyGen (whose `fresh` state is exactly "created, not started").
 kind 'prog' : a random Prolog program (facts, rules, conjunction, disjunction, =, \\=, if-then-else,
               \\+, cut, once, findall, call/N, recursion over lists, dynamic facts, a registered Python
               predicate) is compiled and loaded; a query is run and abandoned after k answers in one of
               the modes exhaust / close() / del / consumer raises / throw() / the Python predicate raises
               at its j-th call.  Intrinsic oracle (YLDPROLOG_VERIF weak set of every Variable ever
               created): afterwards every Variable is in the binding state it had before, the passed-in
               variables have their pre-run values, re-running gives the same answers, the answers do
               not depend on how earlier runs were abandoned, and they are the answers of an
               independent reference interpreter (harness/props/c03_ref.py).
 kind 'sweep': queries ended by RecursionError at EVERY depth (harness/props/c03_sweep.py): a recursive structure builder
               under a top-level goal (findall with several templates, nested findall, once, call/N, negation, ...) is run
               under every recursion limit of a window, through evaluate_bounded and through a plain loop; after every run,
               without gc.collect, every Variable must be in its pre-run state (looked at while the caller still holds the
               generator object and after it dropped it), the answers seen must be a prefix of the unrestricted ones, and a
               probe query on the same engine and variables must answer as on a fresh engine.  Oracle only.
"""
import gc, random
from lib import terms
from props import c03_sweep
from lib.terms import g_term, g_list, g_pair, g_nat

ID = 'C03'
IMPORTS = ['Unify.Unify', 'Unify.UnifyGen', 'Lang.Ast', 'Engine.RunGen', 'Engine.RunMachine']
MODEL_NEEDS_IMPL = True
THEOREMS = ['C03_unify_gen_restores', 'C03_unify_gen_close_restores', 'C03_unify_gen_exhaust_restores',
            'C03_unify_gen_yields_at_most_once', 'C03_unify_gen_matches_unify', 'C03_frame_next_restores',
            'C03_throw_restores', 'C03_query_restores', 'C03_rerun_same', 'C03_consumer_throw_restores', 'C03_any_consumer_restores',
            'C03_compiled_query_restores', 'C03_bounded_consumer_restores', 'C03_machine_refines_irsem', 'C03_machine_refines_irsem_fuel', 'C03_machine_refines_facts', 'C03_queryF_nofacts',
            'C03_machine_refines_nquery', 'C03_machine_refines_nquery_fuel', 'C03_world_query_restores', 'C03_pyrows_realizes', 'C03_raising_predicate_realized',
            'C03_machine_exception_passthrough', 'C03_machine_refines_nqueryE',
            'C03_findall_copy_raise_restores', 'C03_findall_copy_raise_bounded_restores', 'C03_findall_copy_raise_step',
            'C03_delayed_close_commutes', 'C03_close_order_irrelevant', 'C03_close_must_be_forwarded', 'C03_forwarded_close_releases']
RULE = ("kind 'gen': non-trivial if the generator bound >= 2 cells or ran under >= 1 stacked unification, and the "
        "operation sequence abandons it at a yield (close/del after a yielding next) or resumes it. "
        "kind 'sched': non-trivial if some generator is started later than directly after its creation and >= 2 cells get bound. "
        "kind 'prog': non-trivial if the query made >= 2 bindings (>= 2 Variables bound at some answer) and "
        "(k < #answers or the run ended by an exception). "
        "kind 'sweep': non-trivial if >= 10 runs of the sweep were cut short by the recursion limit and the unrestricted query "
        "binds >= 2 Variables at an answer. Distinct by hash of the case.")
TRUSTED_BASE = [
    'Coq 8.16.1 kernel (coqc); vm_compute for the in-Coq evaluation of the UnifyGen model on every gen case',
    'no axioms: all C03 theorems are closed under the global context',
    'hand-written models Unify/UnifyGen.v (generator objects of engine.py unify/unify_arrays/Variable.unify/YPSuccess/YPFail) '
    'and Engine/GenMachine.v (frames of emitted generator functions); UnifyGen is tied to /repo by the differential run, '
    'GenMachine by the intrinsic oracle on compiled programs (its step rules are the trusted reading of CPython for/break/return/yield/close)',
    'trusted: CPython finalises an unreferenced generator immediately (drop = close) and yield from forwards close/throw; exercised by the del / consumer-raise modes',
    'trusted: a generator object held in a LOCAL of a frame that an exception leaves (findall: q; unify_arrays: iterators) is finalised when the '
    'exception object and its traceback die, i.e. at the end of the except clause that handles it (evaluate_bounded: `except RuntimeError: pass`); the frame '
    'machine closes it while the exception travels.  Tied by the recursion-limit sweeps (kind sweep), which look at the Variables directly after the handler, without gc',
    'harness: generators, drivers (harness/props/c03.py), reference interpreter (harness/props/c03_ref.py), parser of printed observations',
]
ASSUMPTIONS = ['user-supplied Python predicates follow the generator discipline (bind only through unify generators they iterate) or raise',
               'cases whose unification needs a cyclic term are unspecified (only required not to hang)',
               'the consumer uses generators in LIFO fashion (what it binds at an answer it unbinds before resuming)']
CASE_TIMEOUT = 20
COQ_CHUNK = 150

# ------------------------------------------------------------------ kind 'gen'

def _gen_gen_case(rng):
    nv = rng.choice([2, 3, 4, 5, 6])
    depth = rng.choice([1, 2, 3, 3, 4])
    stack = []
    for _ in range(rng.choice([0, 0, 1, 1, 2, 3])):
        a = terms.rand_term(rng, nv, 2, pvar=0.45)
        b = terms.mutate_term(rng, a, nv) if rng.random() < 0.6 else terms.rand_term(rng, nv, 2, pvar=0.45)
        if rng.random() < 0.5:
            a = ['v', rng.randrange(nv)]
        stack.append([a, b])
    q = rng.random()
    if q < 0.6:
        t1 = terms.rand_term(rng, nv, depth, pvar=0.4)
        t2 = terms.mutate_term(rng, t1, nv) if rng.random() < 0.65 else terms.rand_term(rng, nv, depth, pvar=0.4)
        if rng.random() < 0.5:
            t1, t2 = t2, t1
        target = ['unify', t1, t2]
    elif q < 0.85:
        n = rng.choice([0, 1, 2, 3, 4])
        xs = [terms.rand_term(rng, nv, depth - 1, pvar=0.5) for _ in range(n)]
        ys = [terms.mutate_term(rng, x, nv) if rng.random() < 0.75 else terms.rand_term(rng, nv, depth - 1, pvar=0.5) for x in xs]
        if rng.random() < 0.08:
            ys = ys[:-1] if ys and rng.random() < 0.5 else ys + [['a', 'a']]
        target = ['arrays', xs, ys]
    else:
        target = ['var', rng.randrange(nv), terms.rand_term(rng, nv, depth, pvar=0.4)]
    ops = []
    for _ in range(rng.choice([1, 2, 2, 3, 3, 4])):
        ops.append(rng.choice(['next', 'next', 'next', 'close']))
    if rng.random() < 0.4:
        ops.append('del')
    return {'kind': 'gen', 'stack': stack, 'target': target, 'ops': ops, 'nvars': nv}

def _g_target(t):
    if t[0] == 'unify':
        return '(TgUnify %s %s)' % (g_term(t[1]), g_term(t[2]))
    if t[0] == 'arrays':
        return '(TgArrays %s %s)' % (g_list([g_term(x) for x in t[1]]), g_list([g_term(x) for x in t[2]]))
    return '(TgVar %s %s)' % (g_nat(t[1]), g_term(t[2]))

MODEL_STEPS = 1500      # programs whose reference run needs more predicate calls are left to the oracle
MODEL_FUEL = 60000
MODEL_DEPTH = 400     # above what CPython reaches before RecursionError (about 330 nested queries)

def _s_term(t):
    """term of the program AST -> Lang.Ast.sterm (Gallina); lists as './2 and '[]' (the same terms at run time)"""
    k = t[0]
    if k == 'a':
        return '(SAtom %s)' % terms.g_str(t[1])
    if k == 'i':
        return '(SNum %s)' % terms.g_str(str(t[1]))
    if k == 'V':
        return '(SVar %s)' % terms.g_str(t[1])
    return '(SFun %s %s)' % (terms.g_str(t[1]), g_list([_s_term(a) for a in t[2]]))

def _goal_term(g):
    assert g[0] == 'call', g
    return ['a', g[1]] if not g[2] else ['f', g[1], g[2]]

def _s_body(g):
    k = g[0]
    call = lambda name, args: '(BCall %s %s)' % (terms.g_str(name), g_list([_s_term(a) for a in args]))
    if k == 'call':
        return call(g[1], g[2])
    if k in ('=', '\\='):
        return call(k, [g[1], g[2]])
    if k == 'ite':
        return '(BOr (BIf %s %s) %s)' % (_s_body(g[1]), _s_body(g[2]), _s_body(g[3]))
    if k == 'or':
        return '(BOr %s %s)' % (_s_body(g[1]), _s_body(g[2]))
    if k == 'and':
        r = _s_body(g[1][-1])
        for x in reversed(g[1][:-1]):
            r = '(BAnd %s %s)' % (_s_body(x), r)
        return r
    if k == 'not':
        return '(BNot %s)' % _s_body(g[1])
    if k == 'cut':
        return 'BCut'
    if k == 'once':
        return call('once', [_goal_term(g[1])])
    if k == 'findall':
        return call('findall', [g[1], _goal_term(g[2]), g[3]])
    if k == 'calln':
        return call('call', [g[1]] + g[2])
    if k in ('pyp', 'pyt'):
        return call(k, [g[1]])
    raise ValueError(g)

def _s_program(clauses):
    return g_list(['{| c_name := %s; c_args := %s; c_body := %s |}' % (
        terms.g_str(c[0]), g_list([_s_term(a) for a in c[1]]), 'BTrue' if c[2] is None else _s_body(c[2])) for c in clauses])

def _fact_nvars(args):
    m = 0
    for a in args:
        for v in terms.term_vars(a):
            m = max(m, v + 1)
    return m

def _model_prog(case, io):
    if not isinstance(io, dict) or case.get('reclimit') or io.get('steps', 10 ** 9) > MODEL_STEPS:
        return None
    if io['spec'] is None:
        return None
    if _has_goal(case, 'pyt'):
        return None             # the second user predicate is not in the machine program: oracle and reference interpreter only
    if io['refend'].startswith('raised') and not (case.get('pyend') and io['refend'] == 'raised:Boom'):
        return None
    db = {}
    for name, args in case['dyn']:
        db.setdefault((name, len(args)), []).append(g_pair(g_nat(_fact_nvars(args)), g_list([g_term(a) for a in args])))
    gdb = g_list(['(%s, %s, %s)' % (terms.g_str(n), g_nat(ar), g_list(fs)) for (n, ar), fs in db.items()])
    stk = g_list([g_pair(g_term(a), g_term(b)) for a, b in case['stack']])
    name, qargs = case['query']
    return '(run_machine %s %s %s %s %s %s %s %s %s %s %s)' % (
        g_nat(MODEL_FUEL), g_nat(MODEL_DEPTH), _s_program(LIBAST + case['clauses']), gdb, stk, terms.g_str(name),
        g_list([g_term(a) for a in qargs]), g_nat(case['nvars']), g_nat(MAXANS), g_nat(io['k']),
        'true' if case.get('pyend') else 'false')

def model_expr(case, io=None):
    if case['kind'] == 'sweep':
        return None                 # oracle-only family (the exact point of RecursionError is outside the model)
    if case['kind'] == 'sched':
        return _model_sched(case)
    if case['kind'] != 'gen':
        return _model_prog(case, io)
    stk = g_list([g_pair(g_term(a), g_term(b)) for a, b in case['stack']])
    ops = g_list(['ONext' if o == 'next' else 'OClose' for o in case['ops']])
    return '(run_gen 200 %s %s %s %s)' % (stk, _g_target(case['target']), ops, g_nat(case['nvars']))

def _snapshot(T, nvars):
    return [[1 if T.vars[i]._is_bound else 0, terms.term_obs(T.read(T.vars[i]))] for i in range(nvars)]

def _impl_gen(case):
    from yldprolog import engine as E
    yp = E.YP()
    nv = case['nvars']
    T = terms.ImplTerms([yp], nv)
    held = []
    for a, b in case['stack']:
        g = iter(E.unify(T.build(a), T.build(b)))
        try:
            next(g)
        except StopIteration:
            return ['stack']
        held.append(g)
    snap0 = _snapshot(T, nv)
    t = case['target']
    if t[0] == 'unify':
        g = E.unify(T.build(t[1]), T.build(t[2]))
    elif t[0] == 'arrays':
        g = E.unify_arrays([T.build(x) for x in t[1]], [T.build(x) for x in t[2]])
    else:
        g = T.var(t[1]).unify(T.build(t[2]))
    g = iter(g)
    obs = []
    yields = 0
    for op in case['ops']:
        y = 0
        if op == 'next':
            try:
                next(g)
                y = 1
                yields += 1
            except StopIteration:
                pass
        elif op == 'close':
            g.close()
        else:
            g = None          # the only reference is dropped
            del g
        obs.append([y, _snapshot(T, nv)])
        if op == 'del':
            break
    g = None
    after = _snapshot(T, nv)
    for h in reversed(held):
        h.close()
    leaked = sum(1 for v in E._VERIF_VARIABLES if v._is_bound)
    return {'res': ['ok', snap0, obs], 'yields': yields, 'restored_after_drop': after == snap0, 'leaked': leaked,
            'nvars_created': len(T.vars)}

# ------------------------------------------------------------------ kind 'sched'

def _sched_target(rng, nv):
    v = lambda: ['v', rng.randrange(nv)]
    q = rng.random()
    if q < 0.30:
        return ['unify', v(), rng.choice([['a', 'a'], ['a', 'b'], ['i', 1]])]
    if q < 0.50:
        return ['unify', v(), v()]
    if q < 0.62:
        i = rng.randrange(nv)
        return ['var', i, rng.choice([['a', 'a'], ['a', 'b'], v(), ['f', 'f', [['v', (i + 1) % nv]]]])]
    if q < 0.80:
        a = terms.rand_term(rng, nv, 2, pvar=0.55)
        b = terms.mutate_term(rng, a, nv) if rng.random() < 0.7 else terms.rand_term(rng, nv, 2, pvar=0.55)
        return ['unify', a, b] if rng.random() < 0.5 else ['unify', b, a]
    n = rng.choice([1, 2, 2, 3])
    xs = [terms.rand_term(rng, nv, 1, pvar=0.7) for _ in range(n)]
    ys = [terms.mutate_term(rng, x, nv) if rng.random() < 0.6 else terms.rand_term(rng, nv, 1, pvar=0.7) for x in xs]
    return ['arrays', xs, ys]

def _gen_sched_case(rng):
    nv = rng.choice([2, 2, 3, 3, 4])
    ng = rng.choice([2, 2, 3, 3, 4])
    targets = [_sched_target(rng, nv) for _ in range(ng)]
    style = rng.choice(['early', 'early', 'early-rev', 'nested', 'random', 'random'])
    evs = []
    if style in ('early', 'early-rev'):
        # all iterators are created first and started afterwards
        evs += [['create', i, targets[i]] for i in range(ng)]
        order = list(range(ng))
        if style == 'early-rev':
            order.reverse()
        elif rng.random() < 0.4:
            rng.shuffle(order)
        evs += [['next', i] for i in order]
        for i in order:
            if rng.random() < 0.3:
                evs.append(['next', i])
        closing = list(reversed(order)) if rng.random() < 0.6 else rng.sample(order, len(order))
        evs += [[rng.choice(['close', 'close', 'drop', 'next']), i] for i in closing]
    elif style == 'nested':
        for i in range(ng):
            evs.append(['create', i, targets[i]])
            evs.append(['next', i])
        for i in reversed(range(ng)):
            evs.append([rng.choice(['close', 'drop', 'next']), i])
    else:
        created, live = [], []
        todo = list(range(ng))
        for _ in range(rng.choice([4, 6, 8, 10])):
            r = rng.random()
            if todo and (r < 0.35 or not live):
                i = todo.pop(0)
                evs.append(['create', i, targets[i]])
                live.append(i)
            elif live:
                i = rng.choice(live)
                op = rng.choice(['next', 'next', 'next', 'close', 'drop'])
                evs.append([op, i])
                if op == 'drop':
                    live.remove(i)
    dropped = set()
    out = []
    for e in evs:                       # nothing can be done with a dropped object
        if e[1] in dropped:
            continue
        out.append(e)
        if e[0] == 'drop':
            dropped.add(e[1])
    return {'kind': 'sched', 'events': out, 'nvars': nv, 'style': style}

def _g_event(e):
    if e[0] == 'create':
        return '(EvCreate %s %s)' % (g_nat(e[1]), _g_target(e[2]))
    if e[0] == 'next':
        return '(EvNext %s)' % g_nat(e[1])
    return '(EvClose %s)' % g_nat(e[1])

def _model_sched(case):
    return '(run_schedule 200 %s %s)' % (g_list([_g_event(e) for e in case['events']]), g_nat(case['nvars']))

def _impl_sched(case):
    from yldprolog import engine as E
    yp = E.YP()
    nv = case['nvars']
    T = terms.ImplTerms([yp], nv)
    snap0 = _snapshot(T, nv)
    slots = {}
    yields = {}
    obs = []
    for e in case['events']:
        y = 0
        op, i = e[0], e[1]
        if op == 'create':
            t = e[2]
            if t[0] == 'unify':
                g = E.unify(T.build(t[1]), T.build(t[2]))
            elif t[0] == 'arrays':
                g = E.unify_arrays([T.build(x) for x in t[1]], [T.build(x) for x in t[2]])
            else:
                g = T.var(t[1]).unify(T.build(t[2]))
            slots[i] = iter(g)
            g = None
        elif op == 'next':
            if slots.get(i) is not None:
                try:
                    next(slots[i])
                    y = 1
                    yields[i] = yields.get(i, 0) + 1
                except StopIteration:
                    pass
        elif op == 'close':
            if slots.get(i) is not None:
                slots[i].close()
        else:
            slots[i] = None         # the only reference is dropped
        obs.append([y, _snapshot(T, nv)])
    mid = _snapshot(T, nv)
    for i in sorted(slots, reverse=True):
        if slots[i] is not None:
            slots[i].close()
    slots.clear()
    after = _snapshot(T, nv)
    leaked = sum(1 for v in E._VERIF_VARIABLES if v._is_bound)
    return {'obs': obs, 'snap0': snap0, 'maxyields': max(list(yields.values()) or [0]), 'restored': after == snap0, 'leaked': leaked,
            'maxbound': max([sum(b for b, _ in sn) for _, sn in obs] or [0])}

# ------------------------------------------------------------------ kind 'prog'

def _L(items, tail=None):
    r = tail if tail is not None else ['a', '[]']
    for x in reversed(items):
        r = ['f', '.', [x, r]]
    return r

_V = lambda n: ['V', n]
LIBAST = [
    ['mem', [_V('X'), _L([_V('X')], _V('A'))], None],
    ['mem', [_V('X'), _L([_V('B')], _V('T'))], ['call', 'mem', [_V('X'), _V('T')]]],
    ['app', [['a', '[]'], _V('L'), _V('L')], None],
    ['app', [_L([_V('H')], _V('T')), _V('L'), _L([_V('H')], _V('R'))], ['call', 'app', [_V('T'), _V('L'), _V('R')]]],
]

VARS = ['X', 'Y', 'Z', 'W', 'U']
_CONSTS = [['a', 'a'], ['a', 'b'], ['a', 'c'], ['a', 'a'], ['a', 'b'], ['i', 1], ['i', 2], ['a', '[]']]

def _tt(rng, vs, depth=2, pvar=0.45):
    """term AST over the variable names vs"""
    r = rng.random()
    if vs and r < pvar:
        return ['V', rng.choice(vs)]
    if depth <= 0 or r < pvar + 0.25:
        return list(rng.choice(_CONSTS))
    q = rng.random()
    if q < 0.35:
        return ['f', 'f', [_tt(rng, vs, depth - 1, pvar)]]
    if q < 0.6:
        return ['f', 'g', [_tt(rng, vs, depth - 1, pvar), _tt(rng, vs, depth - 1, pvar)]]
    if q < 0.85:
        return _L([_tt(rng, vs, depth - 1, pvar) for _ in range(rng.choice([1, 2, 3]))])
    if vs:
        return _L([_tt(rng, vs, depth - 1, pvar)], ['V', rng.choice(vs)])
    return ['f', 'f', [['a', 'a']]]

def _call_goal(rng, preds, vs):
    name, ar = rng.choice(preds)
    return ['call', name, [_tt(rng, vs, 1, 0.7) for _ in range(ar)]]

PPY = [0.05]

def _goal(rng, preds, vs, depth, allow_cut=True):
    if rng.random() < PPY[0]:
        return ['pyp', ['V', rng.choice(vs)]]
    r = rng.random()
    if r < 0.30 or depth <= 0:
        return _call_goal(rng, preds, vs)
    if r < 0.40:
        return ['=', ['V', rng.choice(vs)], _tt(rng, vs, 2)]
    if r < 0.45:
        return ['\\=', ['V', rng.choice(vs)], _tt(rng, vs, 1)]
    if r < 0.53:
        return ['ite', _goal(rng, preds, vs, depth - 1, False), _conj(rng, preds, vs, depth - 1, 2, allow_cut), _conj(rng, preds, vs, depth - 1, 2, allow_cut)]
    if r < 0.60:
        return ['or', _conj(rng, preds, vs, depth - 1, 2, allow_cut), _conj(rng, preds, vs, depth - 1, 2, allow_cut)]
    if r < 0.65:
        return ['not', _goal(rng, preds, vs, 0, False)]
    if r < 0.70 and allow_cut:
        return ['cut']
    if r < 0.76:
        return ['once', _call_goal(rng, preds, vs)]
    if r < 0.83:
        return ['findall', _tt(rng, vs, 1, 0.8), _call_goal(rng, preds, vs), ['V', rng.choice(vs)]]
    if r < 0.88:
        name, ar = rng.choice(preds)
        args = [_tt(rng, vs, 1, 0.7) for _ in range(ar)]
        cut = rng.randrange(ar + 1)
        g = ['a', name] if cut == 0 else ['f', name, args[:cut]]
        return ['calln', g, args[cut:]]
    if r < 0.95:
        return ['call', 'mem', [['V', rng.choice(vs)], _L([_tt(rng, vs, 1, 0.3) for _ in range(rng.choice([1, 2, 3]))])]]
    return ['call', 'app', [['V', rng.choice(vs)], ['V', rng.choice(vs)], _L([list(rng.choice(_CONSTS[:3])) for _ in range(rng.choice([1, 2, 3]))])]]

def _conj(rng, preds, vs, depth, maxn, allow_cut=True):
    n = rng.randrange(1, maxn + 1)
    gs = [_goal(rng, preds, vs, depth, allow_cut) for _ in range(n)]
    return gs[0] if n == 1 else ['and', gs]

MODES = ['exhaust', 'close', 'close', 'del', 'del', 'consumer_raise', 'throw', 'pyraise', 'pyraise',
         'bounded_ok', 'bounded_raise', 'bounded_raise', 'bounded_stop']

PYKINDS = ['genfunc', 'genexpr', 'chain', 'cursor', 'cursor', 'cursor_throw', 'cursor_del']
PYREGS = ['plain', 'plain', 'lambda', 'partial', 'method', 'object', 'wrapped']

def _map_goals(g, f, safe=True):
    """the body AST with f applied to every user-predicate goal ['pyp', t]; safe: a conjunction may stand at this place of the
    program text (not as the argument of \\+, once/1, findall/3, which are printed without parentheses)"""
    if g is None:
        return None
    k = g[0]
    if k == 'pyp':
        return f(g, safe)
    if k == 'and':
        return ['and', [_map_goals(x, f, safe) for x in g[1]]]
    if k in ('or',):
        return [k, _map_goals(g[1], f, True), _map_goals(g[2], f, True)]
    if k == 'ite':
        return [k, _map_goals(g[1], f, True), _map_goals(g[2], f, True), _map_goals(g[3], f, True)]
    if k in ('not', 'once'):
        return [k, _map_goals(g[1], f, False)]
    if k == 'findall':
        return [k, g[1], _map_goals(g[2], f, False), g[3]]
    return g

def _has_goal(case, kind):
    found = []
    def look(g):
        if g is None:
            return
        if g[0] == kind:
            found.append(1)
        elif g[0] == 'and':
            for x in g[1]: look(x)
        elif g[0] in ('or',):
            look(g[1]); look(g[2])
        elif g[0] == 'ite':
            look(g[1]); look(g[2]); look(g[3])
        elif g[0] in ('not', 'once'):
            look(g[1])
        elif g[0] == 'findall':
            look(g[2])
    for c in case['clauses']:
        look(c[2])
    return bool(found)

PYTKINDS = ['list', 'tuple', 'iter', 'ypobj', 'gen']

def _py_variation(case, pgen=0.5):
    """round 4: kind of iterable the user predicate returns and kind of callable that is registered; drawn from a generator of
    its own (seeded by the case), so that the cases of earlier rounds stay what they were"""
    import json
    r = random.Random(json.dumps(case, sort_keys=True))
    kind = 'genfunc' if r.random() < pgen else r.choice(PYKINDS)
    if kind == 'cursor' and case['mode'] == 'throw':
        # an iterator object WITHOUT throw() that the application keeps: `yield from` has nothing to forward a thrown-in exception to and
        # does not call close() either (PEP 380), so the object cannot know; such a predicate must offer throw() (see notes)
        kind = 'cursor_throw'
    case['pykind'] = kind
    case['pyopt'] = {'reg': r.choice(PYREGS), 'closeraise': kind.startswith('cursor') and kind != 'cursor_del' and r.random() < 0.3,
                     'pyt': r.choice(PYTKINDS)}
    if r.random() < 0.35 and case['mode'] != 'pyraise' and not case.get('pyend'):
        # some of the calls of the user predicate become calls of a second one that binds nothing and returns a list / a tuple / an
        # iterator over a list / the engine's YPSuccess or YPFail object / a generator (pyt(X): true iff X is the atom a); preferably
        # directly after a pyp goal (pyp(X), pyt(X): the first answer of pyp passes, the second does not)
        def conv(g, safe):
            return ['pyt', g[1]] if r.random() < 0.4 else (['and', [g, ['pyt', g[1]]]] if safe and r.random() < 0.5 else g)
        case['clauses'] = [[c[0], c[1], _map_goals(c[2], conv)] for c in case['clauses']]
    return case

def _gen_prog_case(rng, focus=False):
    return _py_variation(_gen_prog_case0(rng, focus), 0.15 if focus else 0.5)

def _gen_prog_case0(rng, focus=False):
    mode = rng.choice(MODES)
    # pyend: the Python predicate pyp raises after its last row, in EVERY run (also the reference run): the exhaustive run then
    # ends by that exception after the answers produced so far - compared with the frame machine (machine_refines_nquery)
    pyend = rng.random() < 0.15
    PPY[0] = 0.3 if (mode == 'pyraise' or pyend or focus) else 0.04
    clauses = []
    preds = []
    dyn = []
    for i in range(rng.choice([1, 2, 2, 3])):
        ar = rng.choice([1, 1, 2])
        name = 'b%d' % i
        for _ in range(rng.choice([1, 2, 2, 3, 3])):
            vs = rng.sample(VARS, 2)
            clauses.append([name, [_tt(rng, vs, rng.choice([0, 1, 1, 2]), 0.15) for _ in range(ar)], None])
        preds.append((name, ar))
    if rng.random() < 0.4:
        ar = rng.choice([1, 2])
        for _ in range(rng.choice([1, 2, 3])):
            dyn.append(['d0', [terms.rand_term(rng, 2, 1, pvar=0.2, consts=False) for _ in range(ar)]])
        preds.append(('d0', ar))
    for i in range(rng.choice([1, 2, 3, 4])):
        ar = rng.choice([0, 1, 1, 2, 2])
        name = 'p%d' % i
        callees = list(preds)
        for _ in range(rng.choice([1, 2, 2, 3])):
            vs = rng.sample(VARS, rng.choice([2, 3, 4]))
            head = [_tt(rng, vs, 1, 0.75) for _ in range(ar)]
            if rng.random() < 0.15:
                clauses.append([name, head, None])
            else:
                clauses.append([name, head, _conj(rng, callees, vs, 2, 3)])
        preds.append((name, ar))
    nv = rng.choice([2, 3, 4])
    name, ar = rng.choice([p for p in preds if p[0].startswith('p')] * 3 + preds)
    qargs = []
    for _ in range(ar):
        q = rng.random()
        if q < 0.7:
            qargs.append(['v', rng.randrange(nv)])
        else:
            qargs.append(terms.rand_term(rng, nv, 2, pvar=0.5, consts=False))
    stack = []
    if rng.random() < 0.35:
        for i in rng.sample(range(nv), rng.choice([1, 2])):
            # acyclic by construction: distinct variables, each bound to a term over higher-numbered variables only
            t = terms.rand_term(rng, nv, 1, pvar=0.4, consts=False)
            def up(t):
                if t[0] == 'v':
                    return ['v', t[1]] if t[1] > i else ['a', 'c']
                if t[0] == 'f':
                    return ['f', t[1], [up(x) for x in t[2]]]
                return t
            stack.append([['v', i], up(t)])
    return {'kind': 'prog', 'clauses': clauses, 'dyn': dyn, 'query': [name, qargs], 'nvars': nv, 'stack': stack,
            'mode': mode, 'k': rng.choice([0, 1, 1, 2, 2, 3, 5]), 'j': rng.choice([1, 1, 2, 3, 4]),
            'reclimit': rng.choice([0, 0, 0, 0, 60, 90, 130]) if not mode.startswith('bounded') else 0, 'pyend': pyend}

def _src(case):
    from props import c03_ref
    return c03_ref.program_text(LIBAST + case['clauses'])

class _Boom(Exception):
    pass

class _CloseErr(_Boom):
    """close() of a user predicate's iterator object complains (rows unread) after it has released what it holds"""

class _Budget(Exception):
    pass

BUDGET = 40000      # predicate calls per case: a program whose search explodes is skipped, not timed out

MAXANS = 40

def _impl_prog(case):
    import sys
    from yldprolog import engine as E
    from yldprolog.compiler import compile_prolog_from_string
    yp = E.YP()
    try:
        code = compile_prolog_from_string(_src(case))
    except Exception as e:
        return ['uncompilable', type(e).__name__]
    yp.load_script_from_string(code, overwrite=False)
    state = {'calls': 0, 'j': None}
    # round 4: the user predicate pyp (X = a ; X = c, Boom at its j-th call / after its last row) as every KIND of iterable a
    # Python predicate may hand to the engine - a generator function, a generator expression, an itertools chain (no close(),
    # no throw()), an iterator OBJECT with the engine's own protocol (__iter__/__next__/close, like YPSuccess; with or without
    # throw(); kept in a registry of the application, so that only a forwarded close() ever reaches it; its close() may raise
    # when rows are unread), an iterator object without close() that releases in __del__ - registered as a plain function, a
    # lambda, a functools.partial, a bound method, a callable object or a functools.wraps decorator.
    import itertools, functools
    pykind = case.get('pykind') or 'genfunc'
    pyopt = case.get('pyopt') or {}
    vals = (yp.atom('a'), yp.atom('c'))
    cstat = {'live': 0, 'made': 0, 'closecalls': 0, 'calls': 0}
    registry = []           # the application's own references to its cursors
    def rows():
        state['calls'] += 1
        cstat['calls'] += 1
        if state['j'] is not None and state['calls'] == state['j']:
            raise _Boom('pyp')
        yield from vals
        if case.get('pyend'):
            raise _Boom('pyp-end')       # the predicate raises after its last row (RefineNative.pyrows rows true)
    def one(x, v):
        for _ in E.unify(x, v):
            yield False
    class Cursor(object):
        def __init__(self, x):
            self.x, self.src, self.binding, self.finished = x, None, None, False
            cstat['made'] += 1
        def __iter__(self):
            return self
        def _undo(self):
            if self.binding is not None:
                b, self.binding = self.binding, None
                cstat['live'] -= 1
                b.close()
        def __next__(self):
            try:
                self._undo()
                if self.finished:
                    raise StopIteration
                if self.src is None:
                    self.src = rows()
                for v in self.src:
                    u = iter(E.unify(self.x, v))
                    try:
                        next(u)
                    except StopIteration:
                        continue
                    self.binding = u
                    cstat['live'] += 1
                    return False
                raise StopIteration
            except BaseException:
                if self.binding is None:
                    self.finished = True
                raise
    class ClosingCursor(Cursor):
        def close(self):
            cstat['closecalls'] += 1
            unread = not self.finished
            self._undo()
            self.finished = True
            if unread and pyopt.get('closeraise'):
                raise _CloseErr('cursor closed with unread rows')
    class ThrowingCursor(ClosingCursor):
        def throw(self, typ, val=None, tb=None):
            self._undo()
            self.finished = True
            if isinstance(typ, BaseException):
                raise typ
            raise typ(val) if val is not None and not isinstance(val, BaseException) else (val or typ())
    class DelCursor(Cursor):
        def __del__(self):
            self._undo()
            self.finished = True
    def pyp(x):
        if pykind == 'genexpr':
            return (False for v in rows() for _ in E.unify(x, v))
        if pykind == 'chain':
            return itertools.chain.from_iterable(one(x, v) for v in rows())
        if pykind == 'cursor_del':
            return DelCursor(x)
        c = (ThrowingCursor if pykind == 'cursor_throw' else ClosingCursor)(x)
        registry.append(c)
        return c
    if pykind == 'genfunc':
        def pyp(x):
            state['calls'] += 1
            cstat['calls'] += 1
            if state['j'] is not None and state['calls'] == state['j']:
                raise _Boom('pyp')
            for v in vals:
                for _ in E.unify(x, v):
                    yield False
            if case.get('pyend'):
                raise _Boom('pyp-end')
    def pyt(x):
        v = E.get_value(x)
        ok = isinstance(v, E.Atom) and v.name() == 'a'
        kind = pyopt.get('pyt') or 'list'
        if kind == 'list':
            return [False] if ok else []
        if kind == 'tuple':
            return (False,) if ok else ()
        if kind == 'iter':
            return iter([False] if ok else [])
        if kind == 'ypobj':
            return E.YPSuccess() if ok else E.YPFail()
        return (False for _ in range(1 if ok else 0))
    yp.register_function('pyt', pyt)
    reg = pyopt.get('reg') or 'plain'
    if reg == 'lambda':
        yp.register_function('pyp', lambda x: pyp(x))
    elif reg == 'partial':
        yp.register_function('pyp', functools.partial(lambda tag, x: pyp(x), 'tag'))
    elif reg == 'method':
        class App(object):
            def pred(self, x):
                return pyp(x)
        yp.register_function('pyp', App().pred)
    elif reg == 'object':
        class Pred(object):
            def __call__(self, x):
                return pyp(x)
        yp.register_function('pyp', Pred())
    elif reg == 'wrapped':
        def deco(f):
            @functools.wraps(f)
            def w(*a):
                return f(*a)
            return w
        yp.register_function('pyp', deco(pyp))
    else:
        yp.register_function('pyp', pyp)
    steps = [0]
    orig_query = yp.query
    def counted_query(name, args):
        steps[0] += 1
        if steps[0] > BUDGET:
            raise _Budget()
        return orig_query(name, args)
    yp.query = counted_query
    yp.eval_context['query'] = counted_query
    nv = case['nvars']
    T = terms.ImplTerms([yp], nv)
    for name, args in case['dyn']:
        yp.assert_fact(yp.atom(name), [T.build(a) for a in args])
    held = []
    for a, b in case['stack']:
        g = iter(E.unify(T.build(a), T.build(b)))
        try:
            next(g)
        except StopIteration:
            continue
        held.append(g)
    name, qargs = case['query']
    args = [T.build(a) for a in qargs]
    W = E._VERIF_VARIABLES
    def vstate(v):
        # binding state of a Variable as the public API shows it: bound or not, and the value it dereferences to
        return (True, terms.show_term(T.read(v))) if v._is_bound else (False, None)
    def state_of_world():
        return {id(v): vstate(v) for v in list(W)}
    def check_world(before):
        """number of Variables whose binding state differs from `before` (new ones must be unbound)"""
        bad = 0
        for v in list(W):
            if vstate(v) != before.get(id(v), (False, None)):
                bad += 1
        return bad
    def answer():
        # canonical: variables not among the passed-in ones are renamed by first occurrence
        ts = [T.read(a) for a in args] + [T.read(v) for v in T.vars[:nv]]
        return _canon(ts, nv)
    def nbound():
        return sum(1 for v in W if v._is_bound)

    heldbad = [0]
    nbs = []
    bvals = []
    def drive(mode, k, j):
        """returns (answers, end, maxbound)"""
        state['calls'] = 0
        state['j'] = j
        answers = []
        mb = [0]
        base = nbound()
        nbs[:] = []
        bvals[:] = []
        base_ids = set(id(v) for v in W if v._is_bound)
        def body():
            answers.append(answer())
            nbs.append(nbound() - base)
            if len(bvals) < 12:
                try:
                    bvals.append(sorted(_canon([T.read(v)], 0)[0] for v in list(W) if v._is_bound and id(v) not in base_ids))
                except RecursionError:
                    bvals.append(None)       # a cyclic binding somewhere (unspecified): not compared
            mb[0] = max(mb[0], nbound() - base)
        end = 'abandoned'
        if mode in ('exhaust', 'pyraise'):
            q = yp.query(name, args)
            try:
                for _ in q:
                    body()
                    if len(answers) >= MAXANS:
                        break
                else:
                    end = 'done'
            except _Boom:
                end = 'raised:Boom'
            except RecursionError:
                end = 'raised:RecursionError'
            q = None
        elif mode in ('close', 'del', 'throw'):
            q = yp.query(name, args)
            try:
                while len(answers) < k:
                    try:
                        next(q)
                    except StopIteration:
                        end = 'done'
                        break
                    body()
            except _Boom:
                end = 'raised:Boom'
            except RecursionError:
                end = 'raised:RecursionError'
            if end == 'abandoned':
                if mode == 'close':
                    try:
                        q.close()
                    except _CloseErr:
                        end = 'close-raised'        # the iterator object of the user predicate complains after releasing its bindings
                elif mode == 'throw':
                    try:
                        q.throw(_Boom('consumer'))
                        end = 'throw-swallowed'
                    except _Boom:
                        pass
                    except StopIteration:
                        end = 'throw-swallowed'
                q = None
            del q
        elif mode.startswith('bounded'):
            q = yp.query(name, args)
            def proj(x):
                body()
                if len(answers) >= k + 1:
                    if mode == 'bounded_raise':
                        raise _Boom('projection')
                    if mode == 'bounded_stop':
                        raise StopIteration
                return None
            try:
                yp.evaluate_bounded(q, proj)
                end = 'bounded-returned'
            except _Boom:
                end = 'abandoned'
            # the caller still holds the query object here
            heldbad[0] += check_world(before)
            q = None
        elif mode == 'consumer_raise':
            def consume():
                for _ in yp.query(name, args):
                    body()
                    if len(answers) >= k + 1:
                        raise _Boom('consumer')
                return 'done'
            try:
                end = consume()
            except _Boom:
                pass
            except RecursionError:
                end = 'raised:RecursionError'
            gc.collect()
        return answers, end, mb[0]

    curbad = []
    def cursors_left(what):
        """iterator objects of the user predicate that the application still references and that were neither exhausted nor
        closed when the query ended, and bindings that iterator objects still hold"""
        n = sum(1 for c in registry if not c.finished)
        registry[:] = []
        if n or cstat['live']:
            curbad.append([what, n, cstat['live']])
    before = state_of_world()
    snap0 = _snapshot(T, nv)
    # reference run on the same engine and variables: exhaustive, nothing raises
    ref, refend, refmb = drive('exhaust', 0, None)
    cursors_left('the exhaustive reference run')
    refnb = list(nbs)
    refvals = list(bvals)
    refsteps = steps[0]
    bad0 = check_world(before)
    k = min(case['k'], len(ref))
    lim = sys.getrecursionlimit()
    if case.get('reclimit'):
        # the recursion limit is hit somewhere inside the query (counted from the current depth)
        import inspect
        sys.setrecursionlimit(len(inspect.stack()) + case['reclimit'] // 10 + 6)
    try:
        a1, e1, mb1 = drive(case['mode'], k, case['j'] if case['mode'] == 'pyraise' else None)
    finally:
        sys.setrecursionlimit(lim)
    bad1 = check_world(before)
    if not case.get('reclimit'):
        cursors_left('the run under test')
    registry[:] = []
    snap1 = _snapshot(T, nv)
    # the same again: must behave identically
    if case.get('reclimit'):
        a2, e2 = a1, e1
    else:
        a2, e2, _ = drive(case['mode'], k, case['j'] if case['mode'] == 'pyraise' else None)
    bad2 = check_world(before)
    if not case.get('reclimit'):
        cursors_left('its repetition')
    # and a final exhaustive run: still the reference answers
    a3, e3, _ = drive('exhaust', 0, None)
    bad3 = check_world(before)
    cursors_left('the final exhaustive run')
    for h in reversed(held):
        h.close()
    leaked = sum(1 for v in W if v._is_bound)
    # independent reference interpreter (no destructive bindings at all)
    from props import c03_ref
    show = lambda ts: _canon(ts, nv)
    try:
        spec = list(c03_ref.answers(LIBAST + case['clauses'], case['dyn'], case['stack'], case['query'], nv, None, MAXANS, show, bool(case.get('pyend'))))
        spec1 = None
        if case['mode'] == 'pyraise':
            spec1 = list(c03_ref.answers(LIBAST + case['clauses'], case['dyn'], case['stack'], case['query'], nv, case['j'], MAXANS, show, bool(case.get('pyend'))))
    except c03_ref.Cyclic:
        spec, spec1 = None, None
    return {'ref': ref, 'refend': refend, 'refnb': refnb, 'refvals': refvals, 'steps': refsteps, 'bad0': bad0, 'k': k, 'spec': spec, 'spec1': spec1, 'heldbad': heldbad[0],
            'run1': [a1, e1], 'bad1': bad1, 'snap_restored': snap1 == snap0,
            'run2': [a2, e2], 'bad2': bad2, 'run3': [a3, e3], 'bad3': bad3,
            'leaked': leaked, 'maxbound': max(refmb, mb1), 'nworld': len(W), 'curbad': curbad, 'curmade': cstat['made'], 'closecalls': cstat['closecalls'], 'pycalls': cstat['calls']}

def _canon(ts, nv):
    m = {}
    def go(t):
        if t[0] == 'v':
            # all variables by first occurrence (the direction of a variable-variable binding is not
            # observable; aliasing among the passed-in variables still is, they are all in the tuple)
            if t[1] not in m:
                m[t[1]] = len(m)
            return ['v', m[t[1]]]
        if t[0] == 'f':
            return ['f', t[1], [go(a) for a in t[2]]]
        return t
    return [terms.show_term(go(t)) for t in ts]

# ------------------------------------------------------------------ plumbing

def gen(rng, tier):
    ngen = 700 if tier == 'quick' else 12000
    nprog = 700 if tier == 'quick' else 12000
    cases = [_gen_gen_case(rng) for _ in range(ngen)]
    cases += [_gen_sched_case(rng) for _ in range(500 if tier == 'quick' else 8000)]
    cases += [_gen_prog_case(rng) for _ in range(nprog)]
    # queries ended by RecursionError at EVERY depth (c03_sweep.py); drawn last, so the cases above are those of earlier rounds
    cases += [{'kind': 'sweep', 'spec': c03_sweep.gen_spec(rng, tier)} for _ in range(90 if tier == 'quick' else 1500)]
    # round 4: programs that call the user predicate often, with the predicate of every iterable kind (drawn last)
    cases += [_gen_prog_case(rng, focus=True) for _ in range(240 if tier == 'quick' else 3000)]
    return cases

def builtin_corpus():
    a, b = ['a', 'a'], ['a', 'b']
    v = lambda i: ['v', i]
    f = lambda n, *xs: ['f', n, list(xs)]
    L = []
    def c(target, nv, ops, stack=()):
        L.append({'kind': 'gen', 'stack': [list(p) for p in stack], 'target': target, 'ops': ops, 'nvars': nv})
    allops = [['next', 'next'], ['next', 'close'], ['next', 'del'], ['close', 'next'], ['next', 'close', 'next'], ['del']]
    for ops in allops:
        c(['unify', f('p', v(0), f('g', v(1)), v(0)), f('p', a, f('g', v(2)), v(3))], 4, ops, [(v(2), b)])
        c(['arrays', [v(0), v(1), v(2)], [a, b, v(0)]], 3, ops)
        c(['arrays', [v(0), v(1), a], [a, b, b]], 3, ops)          # fails after two bindings
        c(['var', 0, f('f', v(1))], 3, ops, [(v(0), f('f', v(2)))])  # delegation: v0 is bound
        c(['unify', v(0), v(0)], 1, ops)
        c(['unify', a, a], 1, ops)
    c(['arrays', [a], [a, b]], 1, ['next', 'next'])
    P = []
    V = lambda n: ['V', n]
    A = lambda n: ['a', n]
    C = lambda n, *xs: ['call', n, list(xs)]
    def p(clauses, q, nv, mode, k, j=1, stack=(), dyn=()):
        P.append({'kind': 'prog', 'clauses': clauses, 'dyn': [list(x) for x in dyn], 'query': q, 'nvars': nv,
                  'stack': [list(s) for s in stack], 'mode': mode, 'k': k, 'j': j, 'reclimit': 0})
    # q(a). q(b). q(c).  r(Y) :- q(X), pyp(Z), Y = g(X,Z).
    src1 = [['q', [A('a')], None], ['q', [A('b')], None], ['q', [A('c')], None],
            ['r', [V('Y')], ['and', [C('q', V('X')), ['pyp', V('Z')], ['=', V('Y'), ['f', 'g', [V('X'), V('Z')]]]]]]]
    for mode in ('exhaust', 'close', 'del', 'consumer_raise', 'throw', 'pyraise', 'bounded_ok', 'bounded_raise', 'bounded_stop'):
        for k in (0, 1, 2):
            p(src1, ['r', [v(0)]], 2, mode, k, j=2)
    # s(X,L) :- findall(Y, mem(Y,[a,b]), L), once(mem(X,L)), \+ X = b, ( mem(X,[c]) -> fail_ ; X = X ).
    src2 = [['s', [V('X'), V('L')], ['and', [['findall', V('Y'), C('mem', V('Y'), _L([A('a'), A('b')])), V('L')],
                                               ['once', C('mem', V('X'), V('L'))], ['not', ['=', V('X'), A('b')]],
                                               ['ite', C('mem', V('X'), _L([A('c')])), C('nope'), ['=', V('X'), V('X')]]]]]]
    for mode in ('exhaust', 'close', 'del'):
        p(src2, ['s', [v(0), v(1)]], 2, mode, 1)
    # t(X,Y) :- app(X,Y,[a,b,c]), !.   t(X,Y) :- X = Y.   u(X) :- t(X,Z) ; call(t, X, [c]).
    src3 = [['t', [V('X'), V('Y')], ['and', [C('app', V('X'), V('Y'), _L([A('a'), A('b'), A('c')])), ['cut']]]],
            ['t', [V('X'), V('Y')], ['=', V('X'), V('Y')]],
            ['u', [V('X')], ['or', C('t', V('X'), V('Z')), ['calln', A('t'), [V('X'), _L([A('c')])]]]]]
    for mode in ('exhaust', 'close', 'del', 'throw'):
        p(src3, ['u', [v(0)]], 1, mode, 1)
    # aliasing that outlives an enumeration: same(X,X). pick(P) :- same(P,C), q(C).
    src4 = [['q', [A('a')], None], ['q', [A('b')], None], ['q', [A('c')], None], ['same', [V('X'), V('X')], None],
            ['pick', [V('P')], ['and', [C('same', V('P'), V('C')), C('q', V('C'))]]],
            ['wrap', [['f', 'f', [V('P')]]], ['and', [['=', V('P'), V('C')], C('q', V('C'))]]]]
    for mode in ('exhaust', 'close', 'del'):
        p(src4, ['pick', [v(0)]], 1, mode, 1)
        p(src4, ['wrap', [v(0)]], 1, mode, 2)
    p([['w', [V('X')], ['and', [C('d0', V('X'), V('Y')), C('d0', V('Y'), V('Z'))]]]], ['w', [v(0)]], 1, 'del', 1,
      dyn=[('d0', [a, b]), ('d0', [b, v(0)]), ('d0', [v(0), v(0)])])
    # recursion-limit sweeps: every top-level goal shape over the plainest builder, every wrapper of the recursive call under findall
    S = []
    base = {'n': 12, 'counter': 'peano', 'cons': 'cons', 'place': 'head', 'wrap': 'plain', 'base': 'first', 'top': 'plain',
            'direct': False, 'via': 'both', 'lo': 3, 'step': 1, 'hi': 420, 'probe_n': 1}
    for top in sorted(set(c03_sweep.TOPS)):
        S.append({'kind': 'sweep', 'spec': dict(base, top=top)})
    for wrap in sorted(set(c03_sweep.WRAPS)):
        S.append({'kind': 'sweep', 'spec': dict(base, wrap=wrap, top='findall', direct=True, n=8, counter='list')})
    return L + P + S

def impl(case):
    # an iterator object whose close() raises, reached by the FINALISER of a dropped generator: CPython prints "Exception ignored in"
    import sys
    old_hook = sys.unraisablehook
    if (case.get('pyopt') or {}).get('closeraise'):
        sys.unraisablehook = lambda a: None
    try:
        return _impl(case)
    finally:
        sys.unraisablehook = old_hook

def _impl(case):
    try:
        if case['kind'] == 'sweep':
            return c03_sweep.impl(case)
        if case['kind'] == 'gen':
            return _impl_gen(case)
        if case['kind'] == 'sched':
            return _impl_sched(case)
        return _impl_prog(case)
    except RecursionError:
        return ['cyc-or-deep']
    except _Budget:
        return ['budget']

def _compare_prog_strict(case, io, mo, canon):
    if mo is None or not isinstance(io, dict):
        return None
    if mo[0] in ('oof', 'stack', 'cyc'):
        return None              # counted in the distribution; the oracle still applies
    if mo[0] == 'stuck':
        return 'the model compiler rejects a program that the implementation compiles'
    nv = case['nvars']
    fin0, answers, end, fin, nk, endk, finclose, finthrow = mo[1:]
    m_answers = [canon([terms.obs_term(t) for t in a[0]], nv) for a in answers]
    m_sizes = [a[1] for a in answers]
    m_end = {'more': 'abandoned', 'done': 'done', 'raised': 'raised'}[end[0]]
    i_end = io['refend'].split(':')[0]
    ref = io['ref'] if canon is _canon else [_anon_shown(a) for a in io['ref']]
    refvals = io['refvals'] if canon is _canon else [None if v is None else sorted(_anon_shown(v)) for v in io['refvals']]
    if m_answers != ref:
        n = min(len(m_answers), len(ref))
        i = next((i for i in range(n) if m_answers[i] != ref[i]), n)
        return 'answer %d of the exhaustive run differs from the frame machine (model: %r, observed: %r)' % (
            i, m_answers[i] if i < len(m_answers) else 'no more answers', ref[i] if i < len(ref) else 'no more answers')
    if m_end != i_end:
        return 'the exhaustive run ends differently (model: %s, observed: %s)' % (m_end, io['refend'])
    m_vals = [sorted(canon([terms.obs_term(t)], 0)[0] for t in a[2]) for a in answers][:len(io['refvals'])]
    m_vals = [m if o is not None else None for m, o in zip(m_vals, refvals)]
    if m_sizes == io['refnb'] and m_vals != refvals:
        i = next(i for i in range(len(m_vals)) if m_vals[i] != refvals[i])
        return 'the values of the Variables bound at answer %d differ from the frame machine (model: %r, observed: %r)' % (i, m_vals[i], refvals[i])
    if m_sizes != io['refnb']:
        return 'number of bound Variables at the answers differs from the frame machine (model: %r, observed: %r)' % (m_sizes, io['refnb'])
    if m_end != 'abandoned' and fin != fin0:
        return 'model: heap not restored at the end (cannot happen: theorem)'
    if finclose != fin0 or finthrow != fin0:
        return 'model: heap not restored after close/throw (cannot happen: theorem)'
    if nk != io['k']:
        return 'model and implementation disagree on the number of answers available'
    return None

import re as _re
def _anon_shown(strs):
    """shown terms with every variable name replaced by _ (variable identity ignored)"""
    return [_re.sub(r'_G[0-9]+', '_', x) for x in strs]

def _canon_anon(ts, nv):
    return _anon_shown(_canon(ts, nv))

def _compare_prog(case, io, mo):
    # findall/3 collects copies with new variables (engine since the repair D27, Sem/Machine.collect with lo = 0), so the
    # identity of every variable in an answer is determined by the model: no tolerance for programs with findall
    return _compare_prog_strict(case, io, mo, _canon)

def _compare_sched(case, io, mo):
    if mo is None or not isinstance(io, dict):
        return None
    if mo[0] == 'oof':
        return 'model ran out of fuel (harness problem)'
    exp = mo[1]
    if any(o and o[0] == 'cyc' for o in exp):
        return None                 # a binding that needs a cyclic term: unspecified
    got = io['obs']
    for k, (g, x) in enumerate(zip(got, exp)):
        if g != x:
            e = case['events'][k]
            what = 'yielded' if g[0] != x[0] else 'heap'
            return 'after event %d (%s %d): %s differs from the UnifyGen model (model: %r, observed: %r)' % (k, e[0], e[1], what, x, g)
    if len(got) != len(exp):
        return 'number of observations differs'
    return None

def compare(case, io, mo):
    if case['kind'] == 'sweep':
        return None
    if case['kind'] == 'sched':
        return _compare_sched(case, io, mo)
    if case['kind'] != 'gen':
        return _compare_prog(case, io, mo)
    if mo[0] == 'oof':
        return 'model ran out of fuel (harness problem)'
    if mo[0] == 'stackmismatch':
        return 'UnifyGen and Unify disagree on the stack (model problem)'
    if mo[0] == 'cyc':
        return None
    if mo[0] == 'stack':
        return None if io == ['stack'] else 'model: a stacked unification fails, implementation: it succeeds'
    if io == ['stack']:
        return 'implementation: a stacked unification fails, model: it succeeds'
    if io == ['cyc-or-deep']:
        return 'implementation raised RecursionError on a case without a cycle'
    exp = mo
    got = io['res']
    # a 'del' ends the implementation's sequence; the model has the same number of entries
    if got != exp:
        n = min(len(got[2]), len(exp[2]))
        if got[1] != exp[1]:
            return 'heap before the generator differs from the model'
        for i in range(n):
            if got[2][i] != exp[2][i]:
                return 'after operation %d (%s): yielded/heap differ from the model' % (i, case['ops'][i])
        return 'number of observations differs'
    return None

def oracle(case, io):
    if not isinstance(io, dict):
        return None
    if case['kind'] == 'sweep':
        return c03_sweep.oracle(case, io)
    if case['kind'] == 'sched':
        if io['maxyields'] > 1:
            return 'a unification generator yielded more than once'
        if not io['restored'] or io['leaked']:
            return 'variables still bound after every generator of the schedule was closed'
        return None
    if case['kind'] == 'gen':
        if io['yields'] > 1:
            return 'a unification generator yielded more than once'
        if not io['restored_after_drop']:
            return 'bindings not restored after the generator was dropped'
        if io['leaked']:
            return '%d variables still bound after all generators were closed' % io['leaked']
        snap0, obs = io['res'][1], io['res'][2]
        for (y, snap), op in zip(obs, case['ops']):
            if (op in ('close', 'del') or (op == 'next' and not y)) and snap != snap0:
                return 'heap not restored after %s' % op
        return None
    for key, what in (('bad0', 'the exhaustive reference run'), ('bad1', 'the run under test'), ('bad2', 'its repetition'), ('bad3', 'the final exhaustive run')):
        if io[key]:
            return '%d Variables are not in their pre-run binding state after %s (mode %s, k=%d)' % (io[key], what, case['mode'], io['k'])
    if io.get('curbad'):
        what, n, live = io['curbad'][0]
        return ('after %s (mode %s, k=%d, user predicate of kind %s): %d iterator objects of the user predicate that the application still references were '
                'neither exhausted nor closed (close() was not forwarded to them), %d bindings held by such objects are still in place'
                % (what, case['mode'], io['k'], case.get('pykind'), n, live))
    if io['heldbad']:
        return '%d Variables are still bound after evaluate_bounded was left (mode %s) while the caller holds the query' % (io['heldbad'], case['mode'])
    if not io['snap_restored']:
        return 'passed-in variables do not have their pre-run values'
    if io['leaked']:
        return '%d variables still bound at the end' % io['leaked']
    ref = io['ref']
    a1, e1 = io['run1']
    # the reference run stops after MAXANS answers (refend 'abandoned'); evaluate_bounded has no such stop
    ncommon = min(len(a1), len(ref))
    if a1[:ncommon] != ref[:ncommon] or (len(a1) > len(ref) and io['refend'] != 'abandoned'):
        return 'answers of the run under test are not a prefix of the reference answers'
    if not case.get('reclimit'):
        if io['run2'] != io['run1']:
            return 'repeating the run gives a different outcome'
    if io['run3'] != [ref, io['refend']]:
        return 'the exhaustive run after the abandoned runs differs from the one before'
    if e1 == 'throw-swallowed':
        return 'an exception thrown into the query generator did not come back'
    if case['mode'] == 'exhaust' and not case.get('reclimit') and io['run1'] != [ref, io['refend']]:
        return 'second exhaustive run differs from the first'
    if io['spec'] is not None and (not io['refend'].startswith('raised') or (case.get('pyend') and io['refend'] == 'raised:Boom')):
        sa, se = io['spec']
        if [ref, io['refend']] != [sa, se]:
            n = min(len(ref), len(sa))
            i = next((i for i in range(n) if ref[i] != sa[i]), n)
            return 'the bindings visible at answer %d are not that answer\'s (reference interpreter: %r, observed: %r)' % (
                i, sa[i] if i < len(sa) else 'no more answers', ref[i] if i < len(ref) else 'no more answers')
        if io['spec1'] is not None and not case.get('reclimit') and io['run1'] != io['spec1']:
            return 'run with the raising Python predicate differs from the reference interpreter'
    return None

def nontrivial(case, io):
    if not isinstance(io, dict):
        return False
    if case['kind'] == 'sweep':
        return c03_sweep.nontrivial(case, io)
    if case['kind'] == 'sched':
        # some generator is started after a later-created one, or not directly after its creation, and >= 2 cells get bound
        evs = case['events']
        late = any(e[0] == 'next' and not (k > 0 and evs[k - 1][0] == 'create' and evs[k - 1][1] == e[1]) and
                   all(x[0] != 'next' or x[1] != e[1] for x in evs[:k]) for k, e in enumerate(evs))
        return late and io['maxbound'] >= 2
    if case['kind'] == 'gen':
        obs = io['res'][2]
        snap0 = io['res'][1]
        nb0 = sum(b for b, _ in snap0)
        maxb = max([sum(b for b, _ in s) for _, s in obs] or [0]) - nb0
        ys = [y for y, _ in obs]
        abandoned = any(ys[i] and i + 1 < len(case['ops']) for i in range(len(ys)))
        return (maxb >= 2 or (len(case['stack']) >= 1 and maxb >= 1)) and abandoned
    a1, e1 = io['run1']
    return io['maxbound'] >= 2 and (io['k'] < len(io['ref']) or e1.startswith('raised'))

def describe(case):
    if case['kind'] == 'sweep':
        return c03_sweep.describe(case)
    if case['kind'] == 'sched':
        def ev(e):
            if e[0] != 'create':
                return '%s g%d' % (e[0], e[1])
            t = e[2]
            if t[0] == 'unify':
                goal = 'unify(%s, %s)' % (terms.show_term(t[1]), terms.show_term(t[2]))
            elif t[0] == 'arrays':
                goal = 'unify_arrays([%s], [%s])' % (', '.join(map(terms.show_term, t[1])), ', '.join(map(terms.show_term, t[2])))
            else:
                goal = '_G%d.unify(%s)' % (t[1], terms.show_term(t[2]))
            return 'g%d = %s' % (e[1], goal)
        return {'events': [ev(e) for e in case['events']], 'style': case.get('style')}
    if case['kind'] == 'gen':
        t = case['target']
        if t[0] == 'unify':
            goal = 'unify(%s, %s)' % (terms.show_term(t[1]), terms.show_term(t[2]))
        elif t[0] == 'arrays':
            goal = 'unify_arrays([%s], [%s])' % (', '.join(map(terms.show_term, t[1])), ', '.join(map(terms.show_term, t[2])))
        else:
            goal = '_G%d.unify(%s)' % (t[1], terms.show_term(t[2]))
        return {'stack': ['%s = %s' % (terms.show_term(a), terms.show_term(b)) for a, b in case['stack']],
                'generator': goal, 'operations': case['ops']}
    return {'program': _src(case).split('\n'), 'dynamic_facts': case['dyn'],
            'active_bindings': ['%s = %s' % (terms.show_term(a), terms.show_term(b)) for a, b in case['stack']],
            'query': '%s(%s)' % (case['query'][0], ', '.join(terms.show_term(a) for a in case['query'][1])),
            'mode': case['mode'], 'k': case['k'], 'pyp_raises_at_call': case['j'] if case['mode'] == 'pyraise' else None,
            'pyp_is': case.get('pykind') or 'genfunc', 'pyp_options': case.get('pyopt') or {}}

def shrink(case):
    if case['kind'] == 'sweep':
        yield from c03_sweep.shrink(case)
        return
    if case['kind'] == 'sched':
        evs = case['events']
        for i in range(len(evs)):
            if evs[i][0] == 'create':
                c = dict(case); c['events'] = [e for e in evs if e[1] != evs[i][1]]
            else:
                c = dict(case); c['events'] = evs[:i] + evs[i + 1:]
            if c['events']:
                yield c
        return
    for i in range(len(case['stack'])):
        c = dict(case); c['stack'] = case['stack'][:i] + case['stack'][i + 1:]
        yield c
    if case['kind'] == 'gen':
        for i in range(len(case['ops'])):
            c = dict(case); c['ops'] = case['ops'][:i] + case['ops'][i + 1:]
            if c['ops']:
                yield c
        t = case['target']
        if t[0] == 'arrays' and t[1] and len(t[1]) == len(t[2]):
            for i in range(len(t[1])):
                c = dict(case); c['target'] = ['arrays', t[1][:i] + t[1][i + 1:], t[2][:i] + t[2][i + 1:]]
                yield c
        if t[0] == 'unify':
            for key in (1, 2):
                if t[key][0] == 'f':
                    for a in t[key][2]:
                        c = dict(case); tt = list(t); tt[key] = a; c['target'] = tt
                        yield c
        return
    cl = case['clauses']
    for i in range(len(cl)):
        c = dict(case); c['clauses'] = cl[:i] + cl[i + 1:]
        yield c
    for i in range(len(cl)):
        b = cl[i][2]
        if b and b[0] == 'and':
            for j in range(len(b[1])):
                rest = b[1][:j] + b[1][j + 1:]
                c = dict(case); c['clauses'] = cl[:i] + [[cl[i][0], cl[i][1], rest[0] if len(rest) == 1 else ['and', rest]]] + cl[i + 1:]
                yield c
    for i in range(len(case['dyn'])):
        c = dict(case); c['dyn'] = case['dyn'][:i] + case['dyn'][i + 1:]
        yield c
    if case.get('reclimit'):
        c = dict(case); c['reclimit'] = 0
        yield c
    if case['k'] > 0:
        c = dict(case); c['k'] = case['k'] - 1
        yield c

def distribution(cases, obs):
    d = {'gen': 0, 'prog': 0, 'gen_target': {}, 'gen_ops': {}, 'prog_mode': {}, 'prog_end': {}, 'prog_answers': {},
         'prog_maxbound': {}, 'cyc-or-deep': 0, 'stack-fails': 0}
    def inc(m, k):
        m[str(k)] = m.get(str(k), 0) + 1
    d.update(c03_sweep.distribution(cases, obs))
    for c, o in zip(cases, obs):
        if c['kind'] == 'sweep':
            continue
        if c['kind'] == 'sched':
            d['sched'] = d.get('sched', 0) + 1
            inc(d.setdefault('sched_style', {}), c.get('style'))
            continue
        d[c['kind']] += 1
        if c['kind'] == 'prog' and isinstance(o, dict) and o.get('curmade') is not None:
            inc(d.setdefault('prog_user_predicate_kind (programs that called it)', {}), (c.get('pykind') or 'genfunc') if (o['curmade'] or o.get('pycalls')) else 'not called')
            if _has_goal(c, 'pyt'):
                inc(d.setdefault('prog_second_user_predicate_returns', {}), (c.get('pyopt') or {}).get('pyt'))
            if o['curmade']:
                inc(d.setdefault('prog_iterator_objects_made', {}), min(o['curmade'], 20))
                inc(d.setdefault('prog_close_calls_that_reached_an_iterator_object', {}), min(o['closecalls'], 20))
        if o == ['cyc-or-deep']:
            d['cyc-or-deep'] += 1
            continue
        if o == ['stack']:
            d['stack-fails'] += 1
            continue
        if not isinstance(o, dict):
            continue
        if c['kind'] == 'gen':
            inc(d['gen_target'], c['target'][0])
            inc(d['gen_ops'], ','.join(c['ops']))
        else:
            inc(d['prog_mode'], c['mode'])
            inc(d['prog_end'], o['run1'][1])
            inc(d['prog_answers'], min(len(o['ref']), 10))
            inc(d['prog_maxbound'], min(o['maxbound'], 10))
            if c.get('pyend'):
                # the Python predicate raises after its last row: how the exhaustive (reference) run ended
                inc(d.setdefault('prog_pyend_refend', {}), o['refend'])
    return d
