"""C03 - backtracking leaves no trace, however a query ends.

Two families of cases:
 kind 'gen'  : a bare engine.unify / unify_arrays / Variable.unify generator object under a stack of
               earlier, still suspended unifications, driven by a sequence of next / close / del
               operations; after EVERY operation the heap (which cells are bound, what every cell
               dereferences to) is compared with the UnifyGen model evaluated inside Coq.
 kind 'prog' : a random Prolog program (facts, rules, conjunction, disjunction, =, \\=, if-then-else,
               \\+, cut, once, findall, call/N, recursion over lists, dynamic facts, a registered Python
               predicate) is compiled and loaded; a query is run and abandoned after k answers in one of
               the modes exhaust / close() / del / consumer raises / throw() / the Python predicate raises
               at its j-th call.  Intrinsic oracle (YLDPROLOG_VERIF weak set of every Variable ever
               created): afterwards every Variable is in the binding state it had before, the passed-in
               variables have their pre-run values, re-running gives the same answers, the answers do
               not depend on how earlier runs were abandoned, and they are the answers of an
               independent reference interpreter (harness/props/c03_ref.py).
"""
import gc, random
from lib import terms
from lib.terms import g_term, g_list, g_pair, g_nat

ID = 'C03'
IMPORTS = ['Unify.Unify', 'Unify.UnifyGen', 'Engine.RunGen']
THEOREMS = ['C03_unify_gen_restores', 'C03_unify_gen_close_restores', 'C03_unify_gen_exhaust_restores',
            'C03_unify_gen_yields_at_most_once', 'C03_unify_gen_matches_unify', 'C03_frame_next_restores',
            'C03_throw_restores', 'C03_query_restores', 'C03_rerun_same']
RULE = ("kind 'gen': non-trivial if the generator bound >= 2 cells or ran under >= 1 stacked unification, and the "
        "operation sequence abandons it at a yield (close/del after a yielding next) or resumes it. "
        "kind 'prog': non-trivial if the query made >= 2 bindings (>= 2 Variables bound at some answer) and "
        "(k < #answers or the run ended by an exception). Distinct by hash of the case.")
TRUSTED_BASE = [
    'Coq 8.16.1 kernel (coqc); vm_compute for the in-Coq evaluation of the UnifyGen model on every gen case',
    'no axioms: all C03 theorems are closed under the global context',
    'hand-written models Unify/UnifyGen.v (generator objects of engine.py unify/unify_arrays/Variable.unify/YPSuccess/YPFail) '
    'and Engine/GenMachine.v (frames of emitted generator functions); UnifyGen is tied to /repo by the differential run, '
    'GenMachine by the intrinsic oracle on compiled programs (its step rules are the trusted reading of CPython for/break/return/yield/close)',
    'trusted: CPython finalises an unreferenced generator immediately (drop = close) and yield from forwards close/throw; exercised by the del / consumer-raise modes',
    'harness: generators, drivers (harness/props/c03.py), reference interpreter (harness/props/c03_ref.py), parser of printed observations',
]
ASSUMPTIONS = ['user-supplied Python predicates follow the generator discipline (bind only through unify generators they iterate) or raise',
               'cases whose unification needs a cyclic term are unspecified (only required not to hang)',
               'the consumer uses generators in LIFO fashion (what it binds at an answer it unbinds before resuming)']
CASE_TIMEOUT = 20
COQ_CHUNK = 150

# ------------------------------------------------------------------ kind 'gen'

def _gen_gen_case(rng):
    nv = rng.choice([2, 3, 4, 5, 6])
    depth = rng.choice([1, 2, 3, 3, 4])
    stack = []
    for _ in range(rng.choice([0, 0, 1, 1, 2, 3])):
        a = terms.rand_term(rng, nv, 2, pvar=0.45)
        b = terms.mutate_term(rng, a, nv) if rng.random() < 0.6 else terms.rand_term(rng, nv, 2, pvar=0.45)
        if rng.random() < 0.5:
            a = ['v', rng.randrange(nv)]
        stack.append([a, b])
    q = rng.random()
    if q < 0.6:
        t1 = terms.rand_term(rng, nv, depth, pvar=0.4)
        t2 = terms.mutate_term(rng, t1, nv) if rng.random() < 0.65 else terms.rand_term(rng, nv, depth, pvar=0.4)
        if rng.random() < 0.5:
            t1, t2 = t2, t1
        target = ['unify', t1, t2]
    elif q < 0.85:
        n = rng.choice([0, 1, 2, 3, 4])
        xs = [terms.rand_term(rng, nv, depth - 1, pvar=0.5) for _ in range(n)]
        ys = [terms.mutate_term(rng, x, nv) if rng.random() < 0.75 else terms.rand_term(rng, nv, depth - 1, pvar=0.5) for x in xs]
        if rng.random() < 0.08:
            ys = ys[:-1] if ys and rng.random() < 0.5 else ys + [['a', 'a']]
        target = ['arrays', xs, ys]
    else:
        target = ['var', rng.randrange(nv), terms.rand_term(rng, nv, depth, pvar=0.4)]
    ops = []
    for _ in range(rng.choice([1, 2, 2, 3, 3, 4])):
        ops.append(rng.choice(['next', 'next', 'next', 'close']))
    if rng.random() < 0.4:
        ops.append('del')
    return {'kind': 'gen', 'stack': stack, 'target': target, 'ops': ops, 'nvars': nv}

def _g_target(t):
    if t[0] == 'unify':
        return '(TgUnify %s %s)' % (g_term(t[1]), g_term(t[2]))
    if t[0] == 'arrays':
        return '(TgArrays %s %s)' % (g_list([g_term(x) for x in t[1]]), g_list([g_term(x) for x in t[2]]))
    return '(TgVar %s %s)' % (g_nat(t[1]), g_term(t[2]))

def model_expr(case):
    if case['kind'] != 'gen':
        return None
    stk = g_list([g_pair(g_term(a), g_term(b)) for a, b in case['stack']])
    ops = g_list(['ONext' if o == 'next' else 'OClose' for o in case['ops']])
    return '(run_gen 200 %s %s %s %s)' % (stk, _g_target(case['target']), ops, g_nat(case['nvars']))

def _snapshot(T, nvars):
    return [[1 if T.vars[i]._is_bound else 0, terms.term_obs(T.read(T.vars[i]))] for i in range(nvars)]

def _impl_gen(case):
    from yldprolog import engine as E
    yp = E.YP()
    nv = case['nvars']
    T = terms.ImplTerms([yp], nv)
    held = []
    for a, b in case['stack']:
        g = iter(E.unify(T.build(a), T.build(b)))
        try:
            next(g)
        except StopIteration:
            return ['stack']
        held.append(g)
    snap0 = _snapshot(T, nv)
    t = case['target']
    if t[0] == 'unify':
        g = E.unify(T.build(t[1]), T.build(t[2]))
    elif t[0] == 'arrays':
        g = E.unify_arrays([T.build(x) for x in t[1]], [T.build(x) for x in t[2]])
    else:
        g = T.var(t[1]).unify(T.build(t[2]))
    g = iter(g)
    obs = []
    yields = 0
    for op in case['ops']:
        y = 0
        if op == 'next':
            try:
                next(g)
                y = 1
                yields += 1
            except StopIteration:
                pass
        elif op == 'close':
            g.close()
        else:
            g = None          # the only reference is dropped
            del g
        obs.append([y, _snapshot(T, nv)])
        if op == 'del':
            break
    g = None
    after = _snapshot(T, nv)
    for h in reversed(held):
        h.close()
    leaked = sum(1 for v in E._VERIF_VARIABLES if v._is_bound)
    return {'res': ['ok', snap0, obs], 'yields': yields, 'restored_after_drop': after == snap0, 'leaked': leaked,
            'nvars_created': len(T.vars)}

# ------------------------------------------------------------------ kind 'prog'

LIB = '''mem(X,[X|_]).
mem(X,[_|T]) :- mem(X,T).
app([],L,L).
app([H|T],L,[H|R]) :- app(T,L,R).
'''

VARS = ['X', 'Y', 'Z', 'W', 'U']

def _tt(rng, vs, depth=2, pvar=0.45):
    """term text over the variable names vs"""
    r = rng.random()
    if vs and r < pvar:
        return rng.choice(vs)
    if depth <= 0 or r < pvar + 0.25:
        return rng.choice(['a', 'b', 'c', 'a', 'b', '1', '2', '[]'])
    q = rng.random()
    if q < 0.35:
        return 'f(%s)' % _tt(rng, vs, depth - 1, pvar)
    if q < 0.6:
        return 'g(%s,%s)' % (_tt(rng, vs, depth - 1, pvar), _tt(rng, vs, depth - 1, pvar))
    if q < 0.85:
        return '[%s]' % ','.join(_tt(rng, vs, depth - 1, pvar) for _ in range(rng.choice([1, 2, 3])))
    if vs:
        return '[%s|%s]' % (_tt(rng, vs, depth - 1, pvar), rng.choice(vs))
    return 'f(a)'

def _call_text(rng, preds, vs):
    name, ar = rng.choice(preds)
    if ar == 0:
        return name
    return '%s(%s)' % (name, ','.join(_tt(rng, vs, 1, 0.7) for _ in range(ar)))

PPY = [0.05]

def _goal(rng, preds, vs, depth, allow_cut=True):
    if rng.random() < PPY[0]:
        return 'pyp(%s)' % rng.choice(vs)
    r = rng.random()
    if r < 0.30 or depth <= 0:
        return _call_text(rng, preds, vs)
    if r < 0.40:
        return '%s = %s' % (rng.choice(vs), _tt(rng, vs, 2))
    if r < 0.45:
        return '%s \\= %s' % (rng.choice(vs), _tt(rng, vs, 1))
    if r < 0.53:
        return '( %s -> %s ; %s )' % (_goal(rng, preds, vs, depth - 1, False), _conj(rng, preds, vs, depth - 1, 2, allow_cut), _conj(rng, preds, vs, depth - 1, 2, allow_cut))
    if r < 0.60:
        return '( %s ; %s )' % (_conj(rng, preds, vs, depth - 1, 2, allow_cut), _conj(rng, preds, vs, depth - 1, 2, allow_cut))
    if r < 0.65:
        return '\\+ %s' % _goal(rng, preds, vs, 0, False)
    if r < 0.70 and allow_cut:
        return '!'
    if r < 0.76:
        return 'once(%s)' % _call_text(rng, preds, vs)
    if r < 0.83:
        return 'findall(%s, %s, %s)' % (_tt(rng, vs, 1, 0.8), _call_text(rng, preds, vs), rng.choice(vs))
    if r < 0.87:
        name, ar = rng.choice(preds)
        if ar == 0:
            return 'call(%s)' % name
        args = [_tt(rng, vs, 1, 0.7) for _ in range(ar)]
        cut = rng.randrange(ar + 1)
        g = name if cut == 0 else '%s(%s)' % (name, ','.join(args[:cut]))
        return 'call(%s)' % ','.join([g] + args[cut:])
    if r < 0.92:
        return 'pyp(%s)' % rng.choice(vs)
    if r < 0.96:
        return 'mem(%s, [%s])' % (rng.choice(vs), ','.join(_tt(rng, vs, 1, 0.3) for _ in range(rng.choice([1, 2, 3]))))
    return 'app(%s, %s, [%s])' % (rng.choice(vs), rng.choice(vs), ','.join(rng.choice(['a', 'b', 'c']) for _ in range(rng.choice([1, 2, 3]))))

def _conj(rng, preds, vs, depth, maxn, allow_cut=True):
    n = rng.randrange(1, maxn + 1)
    return ', '.join(_goal(rng, preds, vs, depth, allow_cut) for _ in range(n))

def _gen_prog_case(rng):
    mode = rng.choice(['exhaust', 'close', 'close', 'del', 'del', 'consumer_raise', 'throw', 'pyraise', 'pyraise'])
    PPY[0] = 0.3 if mode == 'pyraise' else 0.04
    lines = []
    preds = []
    dyn = []
    for i in range(rng.choice([1, 2, 2, 3])):
        ar = rng.choice([1, 1, 2])
        name = 'b%d' % i
        for _ in range(rng.choice([1, 2, 2, 3, 3])):
            vs = rng.sample(VARS, 2)
            lines.append('%s(%s).' % (name, ','.join(_tt(rng, vs, rng.choice([0, 1, 1, 2]), 0.15) for _ in range(ar))))
        preds.append((name, ar))
    if rng.random() < 0.4:
        ar = rng.choice([1, 2])
        for _ in range(rng.choice([1, 2, 3])):
            dyn.append(['d0', [terms.rand_term(rng, 2, 1, pvar=0.2, consts=False) for _ in range(ar)]])
        preds.append(('d0', ar))
    for i in range(rng.choice([1, 2, 3, 4])):
        ar = rng.choice([0, 1, 1, 2, 2])
        name = 'p%d' % i
        callees = list(preds)
        for _ in range(rng.choice([1, 2, 2, 3])):
            vs = rng.sample(VARS, rng.choice([2, 3, 4]))
            head = name if ar == 0 else '%s(%s)' % (name, ','.join(_tt(rng, vs, 1, 0.75) for _ in range(ar)))
            if rng.random() < 0.15:
                lines.append(head + '.')
            else:
                lines.append('%s :- %s.' % (head, _conj(rng, callees, vs, 2, 3)))
        preds.append((name, ar))
    src = LIB + '\n'.join(lines) + '\n'
    nv = rng.choice([2, 3, 4])
    name, ar = rng.choice([p for p in preds if p[0].startswith('p')] * 3 + preds)
    qargs = []
    for _ in range(ar):
        q = rng.random()
        if q < 0.7:
            qargs.append(['v', rng.randrange(nv)])
        else:
            qargs.append(terms.rand_term(rng, nv, 2, pvar=0.5, consts=False))
    stack = []
    if rng.random() < 0.35:
        for _ in range(rng.choice([1, 2])):
            # acyclic by construction: a variable is bound to a term over higher-numbered variables only
            i = rng.randrange(nv)
            t = terms.rand_term(rng, nv, 1, pvar=0.4, consts=False)
            def up(t):
                if t[0] == 'v':
                    return ['v', t[1]] if t[1] > i else ['a', 'c']
                if t[0] == 'f':
                    return ['f', t[1], [up(x) for x in t[2]]]
                return t
            stack.append([['v', i], up(t)])
    return {'kind': 'prog', 'src': src, 'dyn': dyn, 'query': [name, qargs], 'nvars': nv, 'stack': stack,
            'mode': mode, 'k': rng.choice([0, 1, 1, 2, 2, 3, 5]), 'j': rng.choice([1, 1, 2, 3, 4]),
            'reclimit': rng.choice([0, 0, 0, 0, 60, 90, 130])}

class _Boom(Exception):
    pass

MAXANS = 40

def _impl_prog(case):
    import sys
    from yldprolog import engine as E
    from yldprolog.compiler import compile_prolog_from_string
    yp = E.YP()
    try:
        code = compile_prolog_from_string(case['src'])
    except Exception as e:
        return ['uncompilable', type(e).__name__]
    yp.load_script_from_string(code, overwrite=False)
    state = {'calls': 0, 'j': None}
    def pyp(x):
        state['calls'] += 1
        if state['j'] is not None and state['calls'] == state['j']:
            raise _Boom('pyp')
        for v in (yp.atom('a'), yp.atom('c')):
            for _ in E.unify(x, v):
                yield False
    yp.register_function('pyp', pyp)
    nv = case['nvars']
    T = terms.ImplTerms([yp], nv)
    for name, args in case['dyn']:
        yp.assert_fact(yp.atom(name), [T.build(a) for a in args])
    held = []
    for a, b in case['stack']:
        g = iter(E.unify(T.build(a), T.build(b)))
        try:
            next(g)
        except StopIteration:
            continue
        held.append(g)
    name, qargs = case['query']
    args = [T.build(a) for a in qargs]
    W = E._VERIF_VARIABLES
    def state_of_world():
        return {id(v): (v._is_bound, id(v._value) if v._is_bound else None) for v in W}
    def check_world(before):
        """number of Variables whose binding state differs from `before` (new ones must be unbound)"""
        bad = 0
        for v in list(W):
            exp = before.get(id(v), (False, None))
            cur = (v._is_bound, id(v._value) if v._is_bound else None)
            if cur != exp:
                bad += 1
        return bad
    def answer():
        # canonical: variables not among the passed-in ones are renamed by first occurrence
        ts = [T.read(a) for a in args] + [T.read(v) for v in T.vars[:nv]]
        return _canon(ts, nv)
    def nbound():
        return sum(1 for v in W if v._is_bound)

    def drive(mode, k, j):
        """returns (answers, end, maxbound)"""
        state['calls'] = 0
        state['j'] = j
        answers = []
        mb = [0]
        base = nbound()
        def body():
            answers.append(answer())
            mb[0] = max(mb[0], nbound() - base)
        end = 'abandoned'
        if mode in ('exhaust', 'pyraise'):
            q = yp.query(name, args)
            try:
                for _ in q:
                    body()
                    if len(answers) >= MAXANS:
                        break
                else:
                    end = 'done'
            except _Boom:
                end = 'raised:Boom'
            except RecursionError:
                end = 'raised:RecursionError'
            q = None
        elif mode in ('close', 'del', 'throw'):
            q = yp.query(name, args)
            try:
                while len(answers) < k:
                    try:
                        next(q)
                    except StopIteration:
                        end = 'done'
                        break
                    body()
            except _Boom:
                end = 'raised:Boom'
            except RecursionError:
                end = 'raised:RecursionError'
            if end == 'abandoned':
                if mode == 'close':
                    q.close()
                elif mode == 'throw':
                    try:
                        q.throw(_Boom('consumer'))
                        end = 'throw-swallowed'
                    except _Boom:
                        pass
                    except StopIteration:
                        end = 'throw-swallowed'
                q = None
            del q
        elif mode == 'consumer_raise':
            def consume():
                for _ in yp.query(name, args):
                    body()
                    if len(answers) >= k + 1:
                        raise _Boom('consumer')
                return 'done'
            try:
                end = consume()
            except _Boom:
                pass
            except RecursionError:
                end = 'raised:RecursionError'
            gc.collect()
        return answers, end, mb[0]

    before = state_of_world()
    snap0 = _snapshot(T, nv)
    # reference run on the same engine and variables: exhaustive, nothing raises
    ref, refend, refmb = drive('exhaust', 0, None)
    bad0 = check_world(before)
    k = min(case['k'], len(ref))
    lim = sys.getrecursionlimit()
    if case.get('reclimit'):
        # the recursion limit is hit somewhere inside the query (counted from the current depth)
        import inspect
        sys.setrecursionlimit(len(inspect.stack()) + case['reclimit'] // 10 + 6)
    try:
        a1, e1, mb1 = drive(case['mode'], k, case['j'] if case['mode'] == 'pyraise' else None)
    finally:
        sys.setrecursionlimit(lim)
    bad1 = check_world(before)
    snap1 = _snapshot(T, nv)
    # the same again: must behave identically
    if case.get('reclimit'):
        a2, e2 = a1, e1
    else:
        a2, e2, _ = drive(case['mode'], k, case['j'] if case['mode'] == 'pyraise' else None)
    bad2 = check_world(before)
    # and a final exhaustive run: still the reference answers
    a3, e3, _ = drive('exhaust', 0, None)
    bad3 = check_world(before)
    for h in reversed(held):
        h.close()
    leaked = sum(1 for v in W if v._is_bound)
    return {'ref': ref, 'refend': refend, 'bad0': bad0, 'k': k,
            'run1': [a1, e1], 'bad1': bad1, 'snap_restored': snap1 == snap0,
            'run2': [a2, e2], 'bad2': bad2, 'run3': [a3, e3], 'bad3': bad3,
            'leaked': leaked, 'maxbound': max(refmb, mb1), 'nworld': len(W)}

def _canon(ts, nv):
    m = {}
    def go(t):
        if t[0] == 'v':
            if t[1] < nv:
                return ['v', t[1]]
            if t[1] not in m:
                m[t[1]] = len(m)
            return ['v', nv + m[t[1]]]
        if t[0] == 'f':
            return ['f', t[1], [go(a) for a in t[2]]]
        return t
    return [terms.show_term(go(t)) for t in ts]

# ------------------------------------------------------------------ plumbing

def gen(rng, tier):
    ngen = 700 if tier == 'quick' else 12000
    nprog = 700 if tier == 'quick' else 12000
    cases = [_gen_gen_case(rng) for _ in range(ngen)]
    cases += [_gen_prog_case(rng) for _ in range(nprog)]
    return cases

def builtin_corpus():
    a, b = ['a', 'a'], ['a', 'b']
    v = lambda i: ['v', i]
    f = lambda n, *xs: ['f', n, list(xs)]
    L = []
    def c(target, nv, ops, stack=()):
        L.append({'kind': 'gen', 'stack': [list(p) for p in stack], 'target': target, 'ops': ops, 'nvars': nv})
    allops = [['next', 'next'], ['next', 'close'], ['next', 'del'], ['close', 'next'], ['next', 'close', 'next'], ['del']]
    for ops in allops:
        c(['unify', f('p', v(0), f('g', v(1)), v(0)), f('p', a, f('g', v(2)), v(3))], 4, ops, [(v(2), b)])
        c(['arrays', [v(0), v(1), v(2)], [a, b, v(0)]], 3, ops)
        c(['arrays', [v(0), v(1), a], [a, b, b]], 3, ops)          # fails after two bindings
        c(['var', 0, f('f', v(1))], 3, ops, [(v(0), f('f', v(2)))])  # delegation: v0 is bound
        c(['unify', v(0), v(0)], 1, ops)
        c(['unify', a, a], 1, ops)
    c(['arrays', [a], [a, b]], 1, ['next', 'next'])
    P = []
    def p(src, q, nv, mode, k, j=1, stack=(), dyn=()):
        P.append({'kind': 'prog', 'src': LIB + src, 'dyn': [list(x) for x in dyn], 'query': q, 'nvars': nv,
                  'stack': [list(s) for s in stack], 'mode': mode, 'k': k, 'j': j, 'reclimit': 0})
    src1 = 'q(a). q(b). q(c).\nr(Y) :- q(X), pyp(Z), Y = f(X,Z).\n'
    for mode in ('exhaust', 'close', 'del', 'consumer_raise', 'throw', 'pyraise'):
        for k in (0, 1, 2):
            p(src1, ['r', [v(0)]], 2, mode, k, j=2)
    src2 = 's(X,L) :- findall(Y, mem(Y,[a,b]), L), once(mem(X,L)), \\+ X = b, ( mem(X,[c]) -> fail ; true ).\n'
    for mode in ('exhaust', 'close', 'del'):
        p(src2, ['s', [v(0), v(1)]], 2, mode, 1)
    src3 = 't(X,Y) :- app(X,Y,[a,b,c]), !.\nt(X,Y) :- X = Y.\nu(X) :- t(X,_) ; call(t, X, [c]).\n'
    for mode in ('exhaust', 'close', 'del', 'throw'):
        p(src3, ['u', [v(0)]], 1, mode, 1)
    p('w(X) :- d0(X, Y), d0(Y, _).\n', ['w', [v(0)]], 1, 'del', 1, dyn=[('d0', [a, b]), ('d0', [b, v(0)]), ('d0', [v(0), v(0)])])
    return L + P

def impl(case):
    try:
        if case['kind'] == 'gen':
            return _impl_gen(case)
        return _impl_prog(case)
    except RecursionError:
        return ['cyc-or-deep']

def compare(case, io, mo):
    if case['kind'] != 'gen':
        return None
    if mo[0] == 'oof':
        return 'model ran out of fuel (harness problem)'
    if mo[0] == 'stackmismatch':
        return 'UnifyGen and Unify disagree on the stack (model problem)'
    if mo[0] == 'cyc':
        return None
    if mo[0] == 'stack':
        return None if io == ['stack'] else 'model: a stacked unification fails, implementation: it succeeds'
    if io == ['stack']:
        return 'implementation: a stacked unification fails, model: it succeeds'
    if io == ['cyc-or-deep']:
        return 'implementation raised RecursionError on a case without a cycle'
    exp = mo
    got = io['res']
    # a 'del' ends the implementation's sequence; the model has the same number of entries
    if got != exp:
        n = min(len(got[2]), len(exp[2]))
        if got[1] != exp[1]:
            return 'heap before the generator differs from the model'
        for i in range(n):
            if got[2][i] != exp[2][i]:
                return 'after operation %d (%s): yielded/heap differ from the model' % (i, case['ops'][i])
        return 'number of observations differs'
    return None

def oracle(case, io):
    if not isinstance(io, dict):
        return None
    if case['kind'] == 'gen':
        if io['yields'] > 1:
            return 'a unification generator yielded more than once'
        if not io['restored_after_drop']:
            return 'bindings not restored after the generator was dropped'
        if io['leaked']:
            return '%d variables still bound after all generators were closed' % io['leaked']
        snap0, obs = io['res'][1], io['res'][2]
        for (y, snap), op in zip(obs, case['ops']):
            if (op in ('close', 'del') or (op == 'next' and not y)) and snap != snap0:
                return 'heap not restored after %s' % op
        return None
    for key, what in (('bad0', 'the exhaustive reference run'), ('bad1', 'the run under test'), ('bad2', 'its repetition'), ('bad3', 'the final exhaustive run')):
        if io[key]:
            return '%d Variables are not in their pre-run binding state after %s (mode %s, k=%d)' % (io[key], what, case['mode'], io['k'])
    if not io['snap_restored']:
        return 'passed-in variables do not have their pre-run values'
    if io['leaked']:
        return '%d variables still bound at the end' % io['leaked']
    ref = io['ref']
    a1, e1 = io['run1']
    if a1 != ref[:len(a1)]:
        return 'answers of the run under test are not a prefix of the reference answers'
    if not case.get('reclimit'):
        if io['run2'] != io['run1']:
            return 'repeating the run gives a different outcome'
    if io['run3'] != [ref, io['refend']]:
        return 'the exhaustive run after the abandoned runs differs from the one before'
    if e1 == 'throw-swallowed':
        return 'an exception thrown into the query generator did not come back'
    if case['mode'] == 'exhaust' and not case.get('reclimit') and io['run1'] != [ref, io['refend']]:
        return 'second exhaustive run differs from the first'
    return None

def nontrivial(case, io):
    if not isinstance(io, dict):
        return False
    if case['kind'] == 'gen':
        obs = io['res'][2]
        snap0 = io['res'][1]
        nb0 = sum(b for b, _ in snap0)
        maxb = max([sum(b for b, _ in s) for _, s in obs] or [0]) - nb0
        ys = [y for y, _ in obs]
        abandoned = any(ys[i] and i + 1 < len(case['ops']) for i in range(len(ys)))
        return (maxb >= 2 or (len(case['stack']) >= 1 and maxb >= 1)) and abandoned
    a1, e1 = io['run1']
    return io['maxbound'] >= 2 and (io['k'] < len(io['ref']) or e1.startswith('raised'))

def describe(case):
    if case['kind'] == 'gen':
        t = case['target']
        if t[0] == 'unify':
            goal = 'unify(%s, %s)' % (terms.show_term(t[1]), terms.show_term(t[2]))
        elif t[0] == 'arrays':
            goal = 'unify_arrays([%s], [%s])' % (', '.join(map(terms.show_term, t[1])), ', '.join(map(terms.show_term, t[2])))
        else:
            goal = '_G%d.unify(%s)' % (t[1], terms.show_term(t[2]))
        return {'stack': ['%s = %s' % (terms.show_term(a), terms.show_term(b)) for a, b in case['stack']],
                'generator': goal, 'operations': case['ops']}
    return {'program': case['src'].split('\n'), 'dynamic_facts': case['dyn'],
            'query': '%s(%s)' % (case['query'][0], ', '.join(terms.show_term(a) for a in case['query'][1])),
            'mode': case['mode'], 'k': case['k'], 'pyp_raises_at_call': case['j'] if case['mode'] == 'pyraise' else None}

def shrink(case):
    for i in range(len(case['stack'])):
        c = dict(case); c['stack'] = case['stack'][:i] + case['stack'][i + 1:]
        yield c
    if case['kind'] == 'gen':
        for i in range(len(case['ops'])):
            c = dict(case); c['ops'] = case['ops'][:i] + case['ops'][i + 1:]
            if c['ops']:
                yield c
        t = case['target']
        if t[0] == 'arrays' and t[1] and len(t[1]) == len(t[2]):
            for i in range(len(t[1])):
                c = dict(case); c['target'] = ['arrays', t[1][:i] + t[1][i + 1:], t[2][:i] + t[2][i + 1:]]
                yield c
        if t[0] == 'unify':
            for key in (1, 2):
                if t[key][0] == 'f':
                    for a in t[key][2]:
                        c = dict(case); tt = list(t); tt[key] = a; c['target'] = tt
                        yield c
        return
    lines = case['src'][len(LIB):].split('\n')
    for i in range(len(lines)):
        if lines[i].strip():
            c = dict(case); c['src'] = LIB + '\n'.join(lines[:i] + lines[i + 1:])
            yield c
    for i in range(len(case['dyn'])):
        c = dict(case); c['dyn'] = case['dyn'][:i] + case['dyn'][i + 1:]
        yield c
    if case.get('reclimit'):
        c = dict(case); c['reclimit'] = 0
        yield c
    if case['k'] > 0:
        c = dict(case); c['k'] = case['k'] - 1
        yield c

def distribution(cases, obs):
    d = {'gen': 0, 'prog': 0, 'gen_target': {}, 'gen_ops': {}, 'prog_mode': {}, 'prog_end': {}, 'prog_answers': {},
         'prog_maxbound': {}, 'cyc-or-deep': 0, 'stack-fails': 0}
    def inc(m, k):
        m[str(k)] = m.get(str(k), 0) + 1
    for c, o in zip(cases, obs):
        d[c['kind']] += 1
        if o == ['cyc-or-deep']:
            d['cyc-or-deep'] += 1
            continue
        if o == ['stack']:
            d['stack-fails'] += 1
            continue
        if not isinstance(o, dict):
            continue
        if c['kind'] == 'gen':
            inc(d['gen_target'], c['target'][0])
            inc(d['gen_ops'], ','.join(c['ops']))
        else:
            inc(d['prog_mode'], c['mode'])
            inc(d['prog_end'], o['run1'][1])
            inc(d['prog_answers'], min(len(o['ref']), 10))
            inc(d['prog_maxbound'], min(o['maxbound'], 10))
    return d
