"""A small independent reference interpreter for the Prolog subset used by the C03 check
(depth-first, left-to-right SLD resolution with cut; substitution-passing, so it has no
destructive bindings at all and cannot leave a trace by construction).

Program AST (JSON-able):
  term   ['a',name] | ['i',int] | ['V',varname] | ['f',name,[terms]]        (lists: '.'/2 and ['a','[]'])
  goal   ['call',name,[terms]] | ['=',t,t] | ['\\=',t,t] | ['ite',c,t,e] | ['or',a,b] | ['and',[goals]]
         | ['not',g] | ['cut'] | ['once',g] | ['findall',t,g,t] | ['calln',t,[terms]] | ['pyp',t]
  clause [name,[head terms],goal-or-None]
Mirrors the engine where it deviates from ISO: head arguments that are plain once-occurring variables are
aliased to the actual arguments, no occurs check (a case that needs a cyclic term raises
Cyclic and is not compared), findall copies its results (new variables per instance, as the engine since D27), dynamic facts
are tried before compiled clauses, pyp(X) is X = a ; X = c and raises Boom at its j-th call.
"""

class Cyclic(Exception):
    pass

class Boom(Exception):
    pass

# ---------------------------------------------------------------- rendering

def t_text(t):
    k = t[0]
    if k == 'a':
        return t[1]
    if k == 'i':
        return str(t[1])
    if k == 'V':
        return t[1]
    if t[1] == '.' and len(t[2]) == 2:
        items = []
        while t[0] == 'f' and t[1] == '.' and len(t[2]) == 2:
            items.append(t_text(t[2][0]))
            t = t[2][1]
        if t == ['a', '[]']:
            return '[%s]' % ','.join(items)
        if t[0] == 'V':
            return '[%s|%s]' % (','.join(items), t[1])
        raise ValueError('improper list tail')
    return '%s(%s)' % (t[1], ','.join(t_text(a) for a in t[2]))

def g_text(g):
    k = g[0]
    if k == 'call':
        return g[1] if not g[2] else '%s(%s)' % (g[1], ','.join(t_text(a) for a in g[2]))
    if k in ('=', '\\='):
        return '%s %s %s' % (t_text(g[1]), k, t_text(g[2]))
    if k == 'ite':
        return '( %s -> %s ; %s )' % (g_text(g[1]), g_text(g[2]), g_text(g[3]))
    if k == 'or':
        return '( %s ; %s )' % (g_text(g[1]), g_text(g[2]))
    if k == 'and':
        return ', '.join(g_text(x) for x in g[1])
    if k == 'not':
        return '\\+ %s' % g_text(g[1])
    if k == 'cut':
        return '!'
    if k == 'once':
        return 'once(%s)' % g_text(g[1])
    if k == 'findall':
        return 'findall(%s, %s, %s)' % (t_text(g[1]), g_text(g[2]), t_text(g[3]))
    if k == 'calln':
        return 'call(%s)' % ','.join([t_text(g[1])] + [t_text(a) for a in g[2]])
    if k == 'pyp':
        return 'pyp(%s)' % t_text(g[1])
    if k == 'pyt':
        return 'pyt(%s)' % t_text(g[1])
    raise ValueError(g)

def clause_text(c):
    name, head, body = c
    h = name if not head else '%s(%s)' % (name, ','.join(t_text(a) for a in head))
    return h + '.' if body is None else '%s :- %s.' % (h, g_text(body))

def program_text(clauses):
    return '\n'.join(clause_text(c) for c in clauses) + '\n'

# ---------------------------------------------------------------- interpreter

def walk(t, s):
    while t[0] == 'v' and t[1] in s:
        t = s[t[1]]
    return t

def resolve(t, s, depth=0):
    if depth > 300:
        raise Cyclic()
    t = walk(t, s)
    if t[0] == 'f':
        return ['f', t[1], [resolve(a, s, depth + 1) for a in t[2]]]
    return t

def occurs(v, t, s, depth=0):
    if depth > 300:
        raise Cyclic()
    t = walk(t, s)
    if t[0] == 'v':
        return t[1] == v
    if t[0] == 'f':
        return any(occurs(v, a, s, depth + 1) for a in t[2])
    return False

def unify(a, b, s):
    """returns an extended substitution (a new dict) or None"""
    a = walk(a, s)
    b = walk(b, s)
    if a[0] == 'v':
        if b[0] == 'v' and b[1] == a[1]:
            return s
        if occurs(a[1], b, s):
            raise Cyclic()
        s2 = dict(s)
        s2[a[1]] = b
        return s2
    if b[0] == 'v':
        if occurs(b[1], a, s):
            raise Cyclic()
        s2 = dict(s)
        s2[b[1]] = a
        return s2
    if a[0] != b[0]:
        return None
    if a[0] in ('a', 'i'):
        return s if a[1] == b[1] else None
    if a[1] != b[1] or len(a[2]) != len(b[2]):
        return None
    for x, y in zip(a[2], b[2]):
        s = unify(x, y, s)
        if s is None:
            return None
    return s

class Interp:
    def __init__(self, clauses, dyn, nv, j=None, maxsteps=200000):
        self.db = {}
        for c in clauses:
            self.db.setdefault((c[0], len(c[1])), []).append(c)
        self.dyn = {}
        for name, args in dyn:
            self.dyn.setdefault((name, len(args)), []).append(args)
        self.fresh = nv + 1000
        self.calls = 0
        self.j = j
        self.steps = 0
        self.maxsteps = maxsteps

    def rename(self, ts, m):
        def go(t):
            if t[0] in ('V', 'v'):
                key = (t[0], t[1])
                if key not in m:
                    self.fresh += 1
                    m[key] = ['v', self.fresh]
                return m[key]
            if t[0] == 'f':
                return ['f', t[1], [go(a) for a in t[2]]]
            return t
        return [go(t) for t in ts]

    def rename_goal(self, g, m):
        k = g[0]
        R = lambda t: self.rename([t], m)[0]
        if k == 'call':
            return ['call', g[1], [R(a) for a in g[2]]]
        if k in ('=', '\\='):
            return [k, R(g[1]), R(g[2])]
        if k == 'ite':
            return ['ite'] + [self.rename_goal(x, m) for x in g[1:]]
        if k == 'or':
            return ['or', self.rename_goal(g[1], m), self.rename_goal(g[2], m)]
        if k == 'and':
            return ['and', [self.rename_goal(x, m) for x in g[1]]]
        if k in ('not', 'once'):
            return [k, self.rename_goal(g[1], m)]
        if k == 'cut':
            return g
        if k == 'findall':
            return ['findall', R(g[1]), self.rename_goal(g[2], m), R(g[3])]
        if k == 'calln':
            return ['calln', R(g[1]), [R(a) for a in g[2]]]
        if k in ('pyp', 'pyt'):
            return [k, R(g[1])]
        raise ValueError(g)

    def call(self, name, args, s):
        self.steps += 1
        if self.steps > self.maxsteps:
            raise Cyclic()
        key = (name, len(args))
        for fact in self.dyn.get(key, []):
            h = self.rename(fact, {})
            s1 = s
            for x, y in zip(args, h):
                s1 = unify(x, y, s1)
                if s1 is None:
                    break
            if s1 is not None:
                yield s1
        for c in self.db.get(key, []):
            m = {}
            # the compiler ALIASES a head argument that is a plain variable occurring once among the
            # top-level head arguments to the actual argument (no new variable, no unification); this is
            # observable when findall returns an unbound variable, so the reference mirrors it
            tops = [t[1] for t in c[1] if t[0] == 'V']
            aliased = set()
            for i, t in enumerate(c[1]):
                if t[0] == 'V' and tops.count(t[1]) == 1:
                    m[('V', t[1])] = args[i]
                    aliased.add(i)
            h = self.rename(c[1], m)
            s1 = s
            for i, (x, y) in enumerate(zip(args, h)):
                if i in aliased:
                    continue
                s1 = unify(x, y, s1)
                if s1 is None:
                    break
            if s1 is None:
                continue
            if c[2] is None:
                yield s1
                continue
            ctx = {'cuts': 0}
            yield from self.solve(self.rename_goal(c[2], m), s1, ctx)
            if ctx['cuts']:
                return

    def solve(self, g, s, ctx):
        k = g[0]
        if k == 'call':
            yield from self.call(g[1], g[2], s)
        elif k == '=':
            s1 = unify(g[1], g[2], s)
            if s1 is not None:
                yield s1
        elif k == '\\=':
            if unify(g[1], g[2], s) is None:
                yield s
        elif k == 'cut':
            ctx['cuts'] += 1
            yield s
        elif k == 'and':
            yield from self.conj(g[1], 0, s, ctx)
        elif k == 'or':
            c0 = ctx['cuts']
            yield from self.solve(g[1], s, ctx)
            if ctx['cuts'] > c0:
                return
            yield from self.solve(g[2], s, ctx)
        elif k == 'ite':
            first = None
            for s1 in self.solve(g[1], s, {'cuts': 0}):
                first = s1
                break
            if first is not None:
                yield from self.solve(g[2], first, ctx)
            else:
                yield from self.solve(g[3], s, ctx)
        elif k == 'not':
            for _ in self.solve(g[1], s, {'cuts': 0}):
                return
            yield s
        elif k == 'once':
            for s1 in self.solve(g[1], s, {'cuts': 0}):
                yield s1
                return
        elif k == 'findall':
            # the engine collects COPIES (copy_term(template, {}) per answer, repair D27): new variables per instance
            res = [self.rename([resolve(g[1], s1)], {})[0] for s1 in self.solve(g[2], s, {'cuts': 0})]
            lst = ['a', '[]']
            for x in reversed(res):
                lst = ['f', '.', [x, lst]]
            s1 = unify(g[3], lst, s)
            if s1 is not None:
                yield s1
        elif k == 'calln':
            t = walk(g[1], s)
            if t[0] == 'a':
                yield from self.call(t[1], list(g[2]), s)
            elif t[0] == 'f':
                yield from self.call(t[1], list(t[2]) + list(g[2]), s)
            else:
                raise Cyclic()      # unspecified: goal not callable
        elif k == 'pyt':
            # a user predicate that binds nothing: succeeds once iff its argument is the atom a (round 4: returns a list / tuple /
            # iterator / YPSuccess / YPFail object)
            if walk(g[1], s) == ['a', 'a']:
                yield s
        elif k == 'pyp':
            self.calls += 1
            if self.j is not None and self.calls == self.j:
                raise Boom()
            for a in ('a', 'c'):
                s1 = unify(g[1], ['a', a], s)
                if s1 is not None:
                    yield s1
            if getattr(self, 'pyend', False):
                raise Boom()             # the predicate raises after its last row
        else:
            raise ValueError(g)

    def conj(self, gs, i, s, ctx):
        if i == len(gs):
            yield s
            return
        for s1 in self.solve(gs[i], s, ctx):
            c0 = ctx['cuts']
            yield from self.conj(gs, i + 1, s1, ctx)
            if ctx['cuts'] > c0:
                return

def answers(clauses, dyn, stack, query, nv, j=None, maxans=40, show=None, pyend=False):
    """(list of canonical answers, end) ; raises Cyclic when the case is unspecified"""
    import sys
    lim = sys.getrecursionlimit()
    sys.setrecursionlimit(20000)
    try:
        it = Interp(clauses, dyn, nv, j)
        it.pyend = pyend
        s = {}
        for a, b in stack:
            s1 = unify(a, b, s)
            if s1 is not None:
                s = s1
        name, args = query
        out = []
        end = 'done'
        try:
            for s1 in it.call(name, args, s):
                out.append(show([resolve(a, s1) for a in args] + [resolve(['v', i], s1) for i in range(nv)]))
                if len(out) >= maxans:
                    end = 'abandoned'
                    break
        except Boom:
            end = 'raised:Boom'
        except RecursionError:
            raise Cyclic()
        return out, end
    finally:
        sys.setrecursionlimit(lim)
