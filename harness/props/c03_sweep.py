"""C03, case family 'sweep': queries ended by RecursionError at EVERY depth.

A small recursive program (a structure builder r(N,S) over a Peano number or a list, its recursive call wrapped
in once / call/N / findall / \\+ \\+ / if-then-else, built in the head, after the call or in an accumulator; optionally
with n+1 answers of growing depth) is queried through a top-level goal (plain, findall with several templates, nested
findall, once, call/N, negation, a conjunction that runs a findall while an answer of the builder is active, a
consumer recursion over the built structure; also, without any program, the builtin =/2 on two terms nested n deep).  The base
case of the builder may be a DYNAMIC fact (assert_fact).  The consumer may abandon the query after 1-3 answers (break and
drop / close; evaluate_bounded: the projection raises StopIteration).  The query is then run under EVERY recursion limit of a window
(counted from the depth of the calling frame, step 1 by default) - through YP.evaluate_bounded and through a plain
loop under sys.setrecursionlimit - so that the RecursionError strikes at every point of the evaluation it can
strike at: in the clause bodies, in unify / unify_arrays, in get_value, while findall copies its template, in the
consumer's own code at an answer.  After EVERY run, without any gc.collect (the property says the bindings are
restored when the query ENDS, not when the collector has run):
  * every Variable that exists (YLDPROLOG_VERIF weak set) is in its pre-run binding state - looked at twice: while the
    caller still holds the query object, and after it dropped it;
  * the caller's variables have their pre-run values;
  * the answers seen are a prefix of the answers of the unrestricted run;
  * a probe query (the same goal with a small counter, on the same engine and the same variables) gives exactly the
    answers it gives on a fresh engine with fresh variables;
and at the end the unrestricted query gives its reference answers again.  The reference answers are also compared with
the independent reference interpreter (c03_ref) when the query is a program predicate.
"""
import sys
from lib import terms

V = lambda n: ['V', n]
A = lambda n: ['a', n]
C = lambda n, *xs: ['call', n, list(xs)]
F = lambda n, *xs: ['f', n, list(xs)]
NIL = ['a', '[]']

def L(items, tail=None):
    r = tail if tail is not None else NIL
    for x in reversed(items):
        r = ['f', '.', [x, r]]
    return r

TRUE = ['=', A('a'), A('a')]

# ------------------------------------------------------------------ the program family

COUNTERS = ['peano', 'list']
CONS = ['cons', 'cons', 'f1', 'g_left', 'g_right', 'wrap', 'pass', 'count']        # what a step adds to the structure
PLACES = ['head', 'head', 'after', 'before', 'acc']                                 # where it is built
WRAPS = ['plain', 'plain', 'once', 'calln', 'calln1', 'findall1', 'notnot', 'ite', 'or']
BASES = ['first', 'last', 'open_first', 'open_last']
TOPS = ['plain', 'findall', 'findall', 'findall_f', 'findall_pair', 'findall_nested', 'findall_once', 'once', 'calln',
        'not', 'notnot_then', 'and_findall', 'findall_then_mem', 'ite_findall', 'consume', 'findall_consume', 'twice',
        # no program at all: the builtin =/2 on two terms nested n deep (variables against constants at every level, both
        # directions): every level of unify_arrays holds the suspended binding generators of its earlier elements
        'unify_nested', 'unify_list']

def gen_spec(rng, tier):
    spec = {'n': rng.choice([3, 5, 8, 10, 12, 15, 20, 25, 30, 40]),
            'counter': rng.choice(COUNTERS), 'cons': rng.choice(CONS), 'place': rng.choice(PLACES),
            'wrap': rng.choice(WRAPS), 'base': rng.choice(BASES), 'top': rng.choice(TOPS),
            'direct': rng.random() < 0.5, 'via': rng.choice(['both', 'both', 'bounded', 'plain']),
            'lo': rng.choice([3, 4, 6, 10]), 'step': 1, 'hi': 420, 'probe_n': rng.choice([1, 1, 2, 3]),
            # the base case is a DYNAMIC fact (assert_fact; matched before the compiled clauses, against a renamed copy)
            'dynbase': rng.random() < 0.2,
            # the consumer abandons the query after that many answers (plain loop: break and drop / close; evaluate_bounded:
            # the projection function raises StopIteration) - if the recursion limit has not ended it before
            'stop_after': rng.choice([None, None, None, 1, 2, 3]), 'stop_how': rng.choice(['drop', 'close'])}
    if spec['base'].startswith('open') and spec['n'] > 15:
        spec['n'] = rng.choice([4, 6, 8, 10, 12])       # n+1 answers of growing depth: keep the total work small
    if spec['cons'] == 'count' and spec['n'] > 15:
        spec['n'] = rng.choice([5, 8, 12])              # the structure contains the counters: quadratic size
    if spec['wrap'] == 'notnot' and spec['n'] > 8:
        spec['n'] = rng.choice([3, 5, 6, 8])            # the recursive call is made twice per level: 2^n calls
    return spec

def counter_term(spec, n, json=False):
    if spec['counter'] == 'peano':
        t = A('z')
        for _ in range(n):
            t = F('s', t)
        return t
    return L([A('k')] * n)

def build_program(spec):
    """clauses (AST of c03_ref) of the recursive predicate r/2 and the top predicate t/3"""
    peano = spec['counter'] == 'peano'
    zero = A('z') if peano else NIL
    succ = (lambda n: F('s', n)) if peano else (lambda n: L([V('K')], n))
    N, T, S, Acc = V('N'), V('T'), V('S'), V('Acc')
    def cons(t):
        c = spec['cons']
        if c == 'cons':
            return L([A('a')], t)
        if c == 'f1':
            return F('f', t)
        if c == 'g_left':
            return F('g', t, A('b'))
        if c == 'g_right':
            return F('g', A('b'), t)
        if c == 'wrap':
            return L([t])
        if c == 'count':
            return L([N], t)
        return t                                        # 'pass': no structure, only a chain of calls
    def wrap(g):
        name, args = g[1], g[2]
        w = spec['wrap']
        if w == 'once':
            return ['once', g]
        if w == 'calln':
            return ['calln', A(name), args]
        if w == 'calln1':
            return ['calln', F(name, *args[:-1]), args[-1:]]
        if w == 'findall1':
            return ['findall', V('T0'), C(name, *(args[:-1] + [V('T0')])), L([args[-1]])]
        if w == 'notnot':
            return ['and', [['not', ['not', g]], g]]
        if w == 'ite':
            return ['ite', g, TRUE, C('nosuch')]
        if w == 'or':
            return ['or', g, C('nosuch')]
        return g
    cl = []
    open_ = spec['base'].startswith('open')
    if spec['place'] == 'acc':
        # r(N,S) :- ra(N,e,S).   ra(z,A,A).   ra(s(N),A,S) :- ra(N,C(A),S).
        cl.append(['r', [N, S], C('ra', N, A('e'), S)])
        base = ['ra', [V('Any') if open_ else zero, Acc, Acc], None]
        step = ['ra', [succ(N), Acc, S], wrap(C('ra', N, cons(Acc), S))]
    else:
        base = ['r', [V('Any') if open_ else zero, A('e')], None]
        if spec['place'] == 'head':
            step = ['r', [succ(N), cons(T)], wrap(C('r', N, T))]
        elif spec['place'] == 'after':
            step = ['r', [succ(N), S], ['and', [wrap(C('r', N, T)), ['=', S, cons(T)]]]]
        else:
            step = ['r', [succ(N), S], ['and', [['=', S, cons(T)], wrap(C('r', N, T))]]]
    if spec.get('dynbase'):
        cl += [step]
    else:
        cl += [base, step] if spec['base'].endswith('first') else [step, base]
    cl.append(['nosuch', [], C('nosuch2')])
    cl.append(['nosuch2', [], ['=', A('a'), A('b')]])
    # a consumer recursion over whatever was built: size(S, Peano)
    cl += [['size', [V('X'), F('s', V('M'))], ['and', [['=', V('X'), F('.', V('H'), V('R'))], C('size', V('R'), V('M'))]]],
           ['size', [F('f', V('R')), F('s', V('M'))], C('size', V('R'), V('M'))],
           ['size', [F('g', V('R'), A('b')), F('s', V('M'))], C('size', V('R'), V('M'))],
           ['size', [F('g', A('b'), V('R')), F('s', V('M'))], C('size', V('R'), V('M'))],
           ['size', [A('e'), A('z')], None],
           ['size', [NIL, A('z')], None],
           ['rs', [N, S, V('M')], ['and', [C('r', N, S), C('size', S, V('M'))]]],
           ['mem', [V('X'), L([V('X')], V('R'))], None],
           ['mem', [V('X'), L([V('H')], V('R'))], C('mem', V('X'), V('R'))]]
    cl.append(['t', [N, V('Lx'), V('Bx')], top_goal(spec, N, V('Lx'), V('Bx'))])
    return cl

def top_goal(spec, N, Lx, Bx):
    G = C('r', N, Lx)
    t = spec['top']
    if t == 'plain':
        return G
    if t == 'findall':
        return ['findall', Lx, G, Bx]
    if t == 'findall_f':
        return ['findall', F('f', Lx), G, Bx]
    if t == 'findall_pair':
        return ['findall', F('p', N, Lx), G, Bx]
    if t == 'findall_nested':
        return ['findall', V('B0'), ['findall', Lx, G, V('B0')], Bx]
    if t == 'findall_once':
        return ['findall', Lx, ['once', G], Bx]
    if t == 'once':
        return ['once', G]
    if t == 'calln':
        return ['calln', F('r', N), [Lx]]
    if t == 'not':
        return ['not', G]
    if t == 'notnot_then':
        return ['and', [['not', ['not', G]], G]]
    if t == 'and_findall':
        return ['and', [G, ['findall', V('X'), C('r', N, V('X')), Bx]]]
    if t == 'findall_then_mem':
        return ['and', [['findall', V('X'), C('r', N, V('X')), Bx], C('mem', Lx, Bx)]]
    if t == 'ite_findall':
        return ['ite', G, ['findall', F('q', V('X'), Lx), C('r', N, V('X')), Bx], ['=', Bx, A('none')]]
    if t == 'consume':
        return C('rs', N, Lx, Bx)
    if t == 'findall_consume':
        return ['findall', F('p', Lx, V('M')), C('rs', N, Lx, V('M')), Bx]
    if t == 'twice':
        return ['and', [G, C('r', N, Bx)]]
    if t in ('unify_nested', 'unify_list'):
        return G                        # (the program is not used by these queries)
    raise ValueError(t)

def _goal_as_term(g, m):
    """goal AST -> JSON term (for a direct query of a builtin), variables through m"""
    k = g[0]
    def tt(t):
        if t[0] == 'V':
            return m(t[1])
        if t[0] == 'f':
            return ['f', t[1], [tt(a) for a in t[2]]]
        return t
    if k == 'call':
        return ['f', g[1], [tt(a) for a in g[2]]] if g[2] else ['a', g[1]]
    if k == 'findall':
        return ['f', 'findall', [tt(g[1]), _goal_as_term(g[2], m), tt(g[3])]]
    if k == 'once':
        return ['f', 'once', [_goal_as_term(g[1], m)]]
    if k == 'calln':
        return ['f', 'call', [tt(g[1])] + [tt(a) for a in g[2]]]
    return None

def build_query(spec, n):
    """(name, JSON args, nvars): the query with counter n; the caller's variables are _G0 (L) and _G1 (Bag)"""
    cnt = counter_term(spec, n)
    if spec['top'] in ('unify_nested', 'unify_list'):
        t1, t2 = A('e'), A('e')
        for i in reversed(range(n)):
            x, c = ['v', 2 + i], A('abc'[i % 3])
            if i % 3 == 2:
                x, c = c, x
            if spec['top'] == 'unify_list':
                t1, t2 = F('.', x, t1), F('.', c, t2)
            elif i % 2:
                t1, t2 = F('g', t1, x), F('g', t2, c)
            else:
                t1, t2 = F('g', x, t1), F('g', c, t2)
        return '=', [t1, t2], 2 + n
    if spec.get('direct'):
        extra = {}
        def m(name):
            if name == 'Lx':
                return ['v', 0]
            if name == 'Bx':
                return ['v', 1]
            if name not in extra:
                extra[name] = ['v', 2 + len(extra)]
            return extra[name]
        # N is replaced by the ground counter
        def sub(t):
            if t == ['V', 'N']:
                return cnt
            if t[0] == 'f':
                return ['f', t[1], [sub(a) for a in t[2]]]
            return t
        def subg(g):
            k = g[0]
            if k == 'call':
                return ['call', g[1], [sub(a) for a in g[2]]]
            if k == 'findall':
                return ['findall', sub(g[1]), subg(g[2]), sub(g[3])]
            if k == 'once':
                return ['once', subg(g[1])]
            if k == 'calln':
                return ['calln', sub(g[1]), [sub(a) for a in g[2]]]
            return g
        t = _goal_as_term(subg(top_goal(spec, V('N'), V('Lx'), V('Bx'))), m)
        if t is not None and t[0] == 'f':
            return t[1], t[2], 2 + len(extra)
    return 't', [cnt, ['v', 0], ['v', 1]], 2

def dyn_facts(spec):
    """[name, JSON args] of the dynamic facts (the base case of the builder when spec['dynbase'])"""
    if not spec.get('dynbase'):
        return []
    zero = ['v', 900] if spec['base'].startswith('open') else (A('z') if spec['counter'] == 'peano' else NIL)
    if spec['place'] == 'acc':
        return [['ra', [zero, ['v', 901], ['v', 901]]]]
    return [['r', [zero, A('e')]]]

def program_text(spec):
    from props import c03_ref
    return c03_ref.program_text(build_program(spec))

# ------------------------------------------------------------------ implementation side

BUDGET = 60000          # predicate calls per run

class _Budget(Exception):
    pass

def _depth():
    f = sys._getframe(1)
    n = 0
    while f is not None:
        n += 1
        f = f.f_back
    return n

def _canon(ts):
    m = {}
    def go(t):
        if t[0] == 'v':
            if t[1] not in m:
                m[t[1]] = len(m)
            return ['v', m[t[1]]]
        if t[0] == 'f':
            return ['f', t[1], [go(a) for a in t[2]]]
        return t
    return [terms.show_term(go(t)) for t in ts]

# A Variable that dies while the interpreter is AT the recursion limit cannot run the Python-level callback of the
# YLDPROLOG_VERIF weak set (WeakSet._remove needs a frame): CPython reports "Exception ignored in ... _remove:
# RecursionError" on stderr and the dead reference stays in the set's storage, where iteration skips it.  That is noise of
# the observation hook, not of the engine.  A Python-level sys.unraisablehook cannot filter it (it needs a frame itself), so
# while - and only while - the limit is lowered, unraisable exceptions go to a C-level sink that drops them at once (nothing
# is kept alive).  A finaliser that really could not run leaves its bindings behind, which the oracle sees directly.
import collections
_DISCARD = collections.deque(maxlen=0).append

def impl(case):
    try:
        return _impl(case)
    except _Budget:
        return ['budget']

def _impl(case):
    from yldprolog import engine as E
    from yldprolog.compiler import compile_prolog_from_string
    spec = case['spec']
    code = compile_prolog_from_string(program_text(spec))
    W = E._VERIF_VARIABLES

    def engine():
        yp = E.YP()
        yp.load_script_from_string(code, overwrite=False)
        steps = [0]
        orig_query = yp.query
        def counted_query(name, args):
            steps[0] += 1
            if steps[0] > BUDGET:
                raise _Budget()
            return orig_query(name, args)
        yp.query = counted_query
        yp.eval_context['query'] = counted_query
        for fname, fargs in dyn_facts(spec):
            FT = terms.ImplTerms([yp], 0)
            fv = {}
            def fb(t):
                if t[0] == 'v':
                    if t[1] not in fv:
                        fv[t[1]] = yp.variable()
                    return fv[t[1]]
                if t[0] == 'f':
                    return yp.functor(t[1], [fb(a) for a in t[2]])
                return FT.build(t)
            yp.assert_fact(yp.atom(fname), [fb(a) for a in fargs])
        return yp, steps

    def unrestricted(yp, T, name, args, nv, maxans=60):
        out = []
        q = yp.query(name, args)
        for _ in q:
            out.append(_canon([T.read(a) for a in args] + [T.read(v) for v in T.vars[:nv]]))
            if len(out) >= maxans:
                break
        q = None
        return out

    # what the probe answers on a fresh engine with fresh variables
    pname, pargs_j, pnv = build_query(spec, spec['probe_n'])
    yp0, _ = engine()
    T0 = terms.ImplTerms([yp0], pnv)
    fresh_probe = unrestricted(yp0, T0, pname, [T0.build(a) for a in pargs_j], pnv)
    del yp0, T0

    yp, steps = engine()
    name, qargs, nv = build_query(spec, spec['n'])
    nv = max(nv, pnv)
    T = terms.ImplTerms([yp], nv)
    args = [T.build(a) for a in qargs]
    pargs = [T.build(a) for a in pargs_j]

    def vstate(v):
        return (True, terms.show_term(T.read(v))) if v._is_bound else (False, None)
    def check_world(before):
        bad = 0
        for v in list(W):
            if vstate(v) != before.get(id(v), (False, None)):
                bad += 1
        return bad
    def snapshot():
        return [[1 if T.vars[i]._is_bound else 0, terms.show_term(T.read(T.vars[i]))] for i in range(nv)]
    def nbound():
        return sum(1 for v in W if v._is_bound)

    before = {id(v): vstate(v) for v in list(W)}
    snap0 = snapshot()
    maxb = [0]
    base_b = nbound()

    ref = []
    q = yp.query(name, args)
    for _ in q:
        ref.append(_canon([T.read(a) for a in args] + [T.read(v) for v in T.vars[:nv]]))
        maxb[0] = max(maxb[0], nbound() - base_b)
        if len(ref) >= 60:
            break
    q = None
    refcut = len(ref) >= 60
    refsteps = steps[0]
    out = {'ref': ref, 'refsteps': refsteps, 'fail': None, 'runs': 0, 'cut': 0, 'complete': 0, 'outcomes': {}, 'maxbound': maxb[0],
           'fresh_probe': fresh_probe, 'spec1': None, 'last_off': None}
    if check_world(before) or snapshot() != snap0:
        out['fail'] = {'off': None, 'via': 'unrestricted', 'what': 'Variables are not in their pre-run binding state after the unrestricted run'}
        return out

    def read_answer():
        try:
            return _canon([T.read(a) for a in args] + [T.read(v) for v in T.vars[:nv]])
        except RecursionError:
            return None              # the consumer itself has no room to look at the answer

    def run(via, off):
        """one run under the limit (depth of this frame + off); returns (answers, end)"""
        answers = []
        steps[0] = 0
        q = yp.query(name, args)
        lim0 = sys.getrecursionlimit()
        hook0 = sys.unraisablehook
        end = 'returned'
        stop = spec.get('stop_after')
        if via == 'bounded':
            def proj(x):
                answers.append(read_answer())
                if stop and len(answers) >= stop:
                    raise StopIteration
                return None
            try:
                sys.unraisablehook = _DISCARD
                yp.evaluate_bounded(q, proj, recursion_limit=_depth() + off)
            finally:
                sys.setrecursionlimit(lim0)
                sys.unraisablehook = hook0
        else:
            try:
                try:
                    sys.unraisablehook = _DISCARD
                    sys.setrecursionlimit(_depth() + off)
                    end = 'done'
                    for _ in q:
                        answers.append(read_answer())
                        if stop and len(answers) >= stop:
                            end = 'abandoned'
                            break
                    if end == 'abandoned':
                        if spec.get('stop_how') == 'close':
                            q.close()
                        else:
                            q = None
                finally:
                    sys.setrecursionlimit(lim0)
                    sys.unraisablehook = hook0
            except RecursionError:
                end = 'cut'
        # the query has ended (exhausted, or unwound by the RecursionError [and closed by evaluate_bounded]);
        # the caller still holds the generator object
        held = check_world(before)
        q = None
        return answers, end, held

    vias = ['bounded', 'plain'] if spec['via'] == 'both' else [spec['via']]
    complete_in_a_row = 0
    off = spec['lo']
    while off <= spec['hi'] and complete_in_a_row < 4:
        all_complete = True
        for via in vias:
            try:
                answers, end, held = run(via, off)
            except _Budget:
                out['budget'] = True
                return out
            out['runs'] += 1
            out['last_off'] = off
            dropped = check_world(before)
            what = None
            if held:
                what = '%d Variables are not in their pre-run binding state after the query ended (the caller still holds the generator object)' % held
            elif dropped:
                what = '%d Variables are not in their pre-run binding state after the query ended and was dropped' % dropped
            elif snapshot() != snap0:
                what = 'the caller\'s variables do not have their pre-run values after the query ended'
            else:
                seen = [a for a in answers]
                if (len(seen) > len(ref) and not refcut) or any(a is not None and a != r for a, r in zip(seen, ref)):
                    what = 'the answers seen under the recursion limit are not a prefix of the answers of the unrestricted run'
            if what is None:
                pq = unrestricted(yp, T, pname, pargs, pnv)
                if pq != fresh_probe:
                    what = 'a following query does not behave as on a fresh engine (%r, fresh engine: %r)' % (pq[:3], fresh_probe[:3])
                elif check_world(before):
                    what = 'Variables are not in their pre-run binding state after the following query'
            if what:
                out['fail'] = {'off': off, 'via': via, 'what': what, 'answers': len(answers), 'end': end}
                return out
            nfull = min(len(ref), spec.get('stop_after') or len(ref))
            complete = (end in ('done', 'abandoned')) if via == 'plain' else (len(answers) >= nfull)
            if complete:
                out['complete'] += 1
            else:
                out['cut'] += 1
                all_complete = False
            key = '%s:%d' % (via, len(answers))
            out['outcomes'][key] = out['outcomes'].get(key, 0) + 1
        complete_in_a_row = complete_in_a_row + 1 if all_complete else 0
        off += spec['step']
    # the unrestricted query again
    steps[0] = 0
    again = unrestricted(yp, T, name, args, nv)
    if again != ref:
        out['fail'] = {'off': None, 'via': 'unrestricted', 'what': 'the unrestricted run after the sweep differs from the one before'}
    elif check_world(before):
        out['fail'] = {'off': None, 'via': 'unrestricted', 'what': 'Variables are not in their pre-run binding state after the final run'}
    # independent reference interpreter
    if name == 't':
        from props import c03_ref
        try:
            sa, se = c03_ref.answers(build_program(spec), dyn_facts(spec), [], [name, qargs], nv, None, 60, _canon, False)
            out['spec1'] = sa
        except c03_ref.Cyclic:
            pass
    return out

def oracle(case, io):
    if not isinstance(io, dict):
        return None
    f = io.get('fail')
    if f:
        if f['off'] is None:
            return 'recursion-limit sweep: %s' % f['what']
        return ('recursion-limit sweep: under recursion limit (depth of the caller + %d), run through %s (%d answers seen): %s'
                % (f['off'], 'evaluate_bounded' if f['via'] == 'bounded' else 'a plain loop', f.get('answers', 0), f['what']))
    if io.get('spec1') is not None and io['spec1'] != io['ref']:
        return 'recursion-limit sweep: the unrestricted answers differ from the reference interpreter'
    return None

def nontrivial(case, io):
    return isinstance(io, dict) and io.get('cut', 0) >= 10 and io.get('maxbound', 0) >= 2

def describe(case):
    spec = case['spec']
    name, qargs, nv = build_query(spec, spec['n'])
    pname, pargs, _ = build_query(spec, spec['probe_n'])
    return {'program': program_text(spec).split('\n'),
            'query': '%s(%s)' % (name, ', '.join(terms.show_term(a) for a in qargs)),
            'probe': '%s(%s)' % (pname, ', '.join(terms.show_term(a) for a in pargs)),
            'dynamic_facts': ['%s(%s)' % (n, ', '.join(terms.show_term(a) for a in xs)) for n, xs in dyn_facts(spec)],
            'limits': 'depth of the caller + %d, +%d, ... (until 4 complete runs in a row, at most +%d)' % (spec['lo'], spec['lo'] + spec['step'], spec['hi']),
            'through': spec['via'], 'consumer_stops_after': spec.get('stop_after'), 'how': spec.get('stop_how') if spec.get('stop_after') else None}

def shrink(case):
    spec = case['spec']
    def w(**kw):
        s = dict(spec); s.update(kw)
        c = dict(case); c['spec'] = s
        return c
    for n in (3, 5, 8, 12, 20):
        if n < spec['n']:
            yield w(n=n)
    if spec['wrap'] != 'plain':
        yield w(wrap='plain')
    if spec['place'] != 'head':
        yield w(place='head')
    if spec['cons'] != 'cons':
        yield w(cons='cons')
    if spec['base'] != 'last':
        yield w(base='last')
    if spec.get('dynbase'):
        yield w(dynbase=False)
    if spec.get('stop_after'):
        yield w(stop_after=None)
    if spec['via'] == 'both':
        yield w(via='bounded')
        yield w(via='plain')
    if spec['probe_n'] != 1:
        yield w(probe_n=1)

def distribution(cases, obs):
    d = {'sweep': 0, 'sweep_runs': 0, 'sweep_cut': 0, 'sweep_complete': 0, 'sweep_top': {}, 'sweep_wrap': {}, 'sweep_budget': 0,
         'sweep_answers': {}, 'sweep_last_off': {}}
    for c, o in zip(cases, obs):
        if c.get('kind') != 'sweep':
            continue
        d['sweep'] += 1
        if not isinstance(o, dict):
            d['sweep_other'] = d.get('sweep_other', 0) + 1
            continue
        d['sweep_runs'] += o['runs']
        d['sweep_cut'] += o['cut']
        d['sweep_complete'] += o['complete']
        d['sweep_budget'] += 1 if o.get('budget') else 0
        for m, k in ((d['sweep_top'], c['spec']['top']), (d['sweep_wrap'], c['spec']['wrap']), (d['sweep_answers'], min(len(o['ref']), 10)),
                     (d['sweep_last_off'], (o['last_off'] or 0) // 50 * 50)):
            m[str(k)] = m.get(str(k), 0) + 1
    return d
