"""C04 - engine instances are isolated; interleaved queries do not interfere.

A case is a set of per-engine operation histories plus one schedule (a merge of them).  The
implementation runs it (a) every engine alone in a fresh interpreter (subprocess), (a') back to back in one
process, (b) interleaved by the schedule at generator-step granularity, (c) on threads (every history on
THREAD_COPIES threads, THREAD_ROUNDS rounds on fresh instances, tiny switch interval), (d) per engine and slot:
the history without the generators of the other slots; the model (Engine/World.v, evaluated inside Coq) runs
the schedule.  Per-engine observation sequences of (a), (a'), (b), every run of (c) and of the model must all be
equal; the slot observations of (d) must equal those of (b).  (c) is a test: the model and the theorems are at
generator-step granularity.
"""
import sys, os, json, threading, subprocess, random
from lib import terms
from lib.terms import g_term, g_str, g_list, g_nat, g_bool, g_option

ID = 'C04'
IMPORTS = ['Unify.Unify', 'Engine.World', 'Engine.RunWorld']
THEOREMS = ['C04_init_world_inv', 'C04_step_local', 'C04_step_noninterference', 'C04_interleave_alone',
            'C04_interleave_alone_init', 'C04_interleaved_eq_alone', 'C04_merges_indistinguishable', 'C04_every_merge', 'C04_back_to_back_is_merge', 'C04_merge_eq_back_to_back',
            'C04_same_engine_slots_K', 'C04_slots_alone_K', 'C04_step_footprint_agree', 'C04_step_footprint_writes',
            'C04_same_engine_slots', 'C04_slots_alone', 'C04_slots_none', 'C04_slots_start', 'C04_reach_invariant', 'C04_reach_sinv',
            'C04_disjoint_queries_alone_K', 'C04_disjoint_queries_alone', 'C04_disjoint_queries_alone_writes_refuted',
            'C04_world_disjoint_queries_alone_K', 'C04_world_disjoint_queries_alone', 'C04_unify_frame',
            'C04_generator_step_frame', 'C04_meta_steps_silent']
RULE = ('2-3 engines, histories of 6-24 operations each over {atom, assert_fact/assertz/asserta (3 API variants), retract/'
        'retractall (4 API variants), register_function (fixed/variadic), load_script_from_string of compiled Prolog '
        '(overwrite and chained; the same text in several engines, and different texts defining the same names; in half of the '
        'cases rule bodies call asserta/assertz/retract/retractall and queries are started on these builtins themselves), clear, '
        'start/next/close/drop/drain of query generators in 3 slots, peek at variables between steps}, merged by a random '
        'schedule with bursts; every '
        'history ends with read-back queries of all predicates. Family NL (45 quick / 400 thorough): dynamic facts WITH variables '
        '(shared inside one fact, partially bound) under one key, optionally reached through a rule; 3-6 generator slots on that '
        'predicate opened / advanced / finished in non-nested order (mostly oldest first: closed, dropped, replaced, exhausted '
        'while a younger one stays suspended, then a new one), query patterns from a small pool of constants (clash / compatible). '
        'Family MB (40 quick / 400 thorough): the mixed histories in which 25-55 % of the body goals are X \\= Y, once(G), call(G, A..), '
        'findall(T, G, L) (G over fact / earlier rule predicates, a database builtin, or nested once/call/findall; through a variable; rarely not '
        'callable) and 22 % of the queries are started on these builtins themselves. '
        'Family SH: the SAME Python objects given to 2-3 engines of one run - function objects (*args / (first, *rest) / fixed '
        'signature; def, bound method, callable instance, functools.wraps, partial) registered under different styles (arity None / -1 / k), '
        'tuples of argument term objects asserted through the three assert APIs, one script string - with clear() at any moment and '
        'queries of the registered names at all arities 0..3. '
        'Family SC: K generators (3-8 with depths 2-14, compared with the Coq model; K in {5,20,40} with depths 100-200 and K = 150 with '
        'depths 200-250 (about 65000 calls alive at once; thorough also 100/250/400 generators), metamorphic '
        'oracle only) suspended inside recursive predicates at the same time, advanced in chunks in random order, then probe '
        'queries (shallow and deep), closes oldest-first / random, more probes. Non-trivial: (mixed) two engines hold different '
        'contents under one predicate name and at least two generators are suspended on an answer simultaneously; (NL) >= 3 '
        'generators on one predicate and a non-LIFO finish followed by a new start while the younger one is live; (SC) >= 3 '
        'suspended at once; (SH) a function object registered on two engines under different styles or an argument tuple asserted into two engines. Distinct by hash of the case.')
TRUSTED_BASE = [
    'Coq 8.16.1 kernel (coqc); vm_compute for the in-Coq evaluation of the model on every case',
    'no axioms: all C04 theorems are closed under the global context',
    'hand-written model Engine/World.v of YP.__init__/clear/atom/assert_fact/asserta/assertz/retract/retractall/'
    'register_function/load_script_from_string/query/match_dynamic/Answer.match, of suspended query generators and of the '
    'builtins asserta/assertz/retract/retractall and \\=, call/N, once, findall (builtin_neq, YP.call, YP.once, YP.findall) called from clause bodies; '
    'tied to /repo by this differential run (not by translation)',
    'compiled clauses are modelled as (head arguments, list of goals): the translation of Prolog text to Python text is '
    'the business of C01/C11; here the compiler is only used to produce the scripts that are loaded',
    'CPython: dropping the last reference to a generator closes it at once; creation of a query generator runs no code',
    'thread schedules finer than a generator step are outside the model: run (c) (12 threaded runs of every history per '
    'case) is a test, not a proof (partial)',
    'the fresh interpreter of run (a) is a subprocess of the same Python with the same PYTHONPATH',
    'harness: generators, drivers, canonicalisation (harness/props/c04.py), parser of printed observations',
]
ASSUMPTIONS = ['engines do not share Variable objects; simultaneously suspended queries of one engine use disjoint variables',
               'within one engine, a query is only promised to be independent of the writes other suspended queries make to keys '
               'of the fact store it does not touch (theorem C04_same_engine_slots_K; refuted otherwise); the same-engine oracle is '
               'applied under the static counterpart of that condition',
               'cases in which a match needs a cyclic term (model error code 2) are unspecified and skipped (a RecursionError in the run '
               'alone switches the oracle off, except in the scale family, whose programs build no cyclic terms)',
               'shared inputs (family SH) contain nothing that belongs to an engine: numbers, strings, Functor objects, pure functions',
               'evaluate_bounded (interpreter-wide recursion limit) is outside the statement']
CASE_TIMEOUT = 120
COQ_CHUNK = 25
FUEL = 4000

# ------------------------------------------------------------------ Gallina rendering

def g_goal(g):
    return '(%s, %s)' % (g_str(g[0]), g_list([g_term(a) for a in g[1]]))

def g_clause(c):
    return '(%s, %s)' % (g_list([g_term(a) for a in c[0]]), g_list([g_goal(g) for g in c[1]]))

def g_script(s):
    return g_list(['(%s, %s, %s)' % (g_str(p[0]), g_nat(p[1]), g_list([g_clause(c) for c in p[2]])) for p in s])

def g_op(case, op):
    k = op[0]
    if k == 'atom':
        return '(OAtom %s)' % g_str(op[1])
    if k == 'assert':
        return '(OAssert %s %s %s)' % (g_bool(op[1]), g_str(op[2]), g_list([g_term(a) for a in op[3]]))
    if k == 'retract':
        return '(ORetract %s %s)' % (g_str(op[1]), g_list([g_term(a) for a in op[2]]))
    if k == 'register':
        return '(ORegister %s %s %s)' % (g_str(op[1]), g_option(None if op[2] is None else g_nat(op[2])),
                                          g_list([g_list([g_term(a) for a in r]) for r in op[3]]))
    if k == 'regshared':
        f = case['shared']['funcs'][op[3]]
        ar = shared_arity(f, op[2])
        return '(ORegister %s %s %s)' % (g_str(op[1]), g_option(None if ar is None else g_nat(ar)),
                                          g_list([g_list([g_term(a) for a in r]) for r in f['rows']]))
    if k == 'assertshared':
        return '(OAssert %s %s %s)' % (g_bool(op[1]), g_str(op[2]), g_list([g_term(a) for a in case['shared']['terms'][op[3]]]))
    if k == 'load':
        return '(OLoad %s %s)' % (g_bool(op[1]), g_script(case['scripts'][op[2]]))
    if k == 'clear':
        return 'OClear'
    if k == 'start':
        return '(OStart %s %s %s)' % (g_nat(op[1]), g_str(op[2]), g_list([g_term(a) for a in op[3]]))
    if k == 'next':
        return '(ONext %s)' % g_nat(op[1])
    if k == 'close':
        return '(OClose %s)' % g_nat(op[1])
    if k == 'drain':
        return '(ODrain %s)' % g_nat(op[1])
    if k == 'peek':
        return '(OPeek %s)' % g_list([g_term(a) for a in op[1]])
    raise ValueError(op)

def schedule_ops(case):
    """[(engine, op)] in schedule order"""
    pos = [0] * case['neng']
    out = []
    for e in case['sched']:
        out.append((e, case['hist'][e][pos[e]]))
        pos[e] += 1
    return out

def model_expr(case):
    if case.get('nomodel'):
        return None            # scale family: the in-Coq evaluation is too slow / runs out of unification fuel at these depths
    items = []
    for e, op in schedule_ops(case):
        if op[0] == 'adv':     # n times next(); the n observations are folded into one by canon_model_trace
            items.extend(['(%s, (ONext %s))' % (g_nat(e), g_nat(op[1]))] * op[2])
        else:
            items.append('(%s, %s)' % (g_nat(e), g_op(case, op)))
    return '(run_world %d %s %s)' % (FUEL, g_nat(case['neng']), g_list(items))

def digest_answers(answers):
    """what an 'adv' operation (n times next on one generator) observes: the number of answers, a digest of all of them
    (canonical form) and the last one (if it is small)"""
    import hashlib
    canon = [canon_answer(a) for a in answers]
    h = hashlib.sha1(json.dumps(canon).encode()).hexdigest()[:16]
    last = canon[-1] if canon else []
    if len(json.dumps(last)) > 240:
        last = ['big']
    return ['adv', len(canon), h, last]

# ------------------------------------------------------------------ Prolog text of a script

def pl_term(t):
    k = t[0]
    if k == 'a':
        return t[1]
    if k == 'i':
        return str(t[1])
    if k == 'v':
        return 'V%d' % t[1]
    if k == 'f':
        if t[1] == '.' and len(t[2]) == 2:
            items = []
            while t[0] == 'f' and t[1] == '.' and len(t[2]) == 2:
                items.append(pl_term(t[2][0]))
                t = t[2][1]
            if t == ['a', '[]']:
                return '[%s]' % ','.join(items)
            assert t[0] == 'v', 'the grammar only has [..|Variable]'
            return '[%s|%s]' % (','.join(items), pl_term(t))
        return '%s(%s)' % (t[1], ','.join(pl_term(a) for a in t[2]))
    raise ValueError(t)

def pl_goal(g):
    if g[0] == '=':
        return '%s = %s' % (pl_term(g[1][0]), pl_term(g[1][1]))
    if g[0] == '\\=' and len(g[1]) == 2:
        return '%s \\= %s' % (pl_term(g[1][0]), pl_term(g[1][1]))
    if not g[1]:
        return g[0]
    return '%s(%s)' % (g[0], ','.join(pl_term(a) for a in g[1]))

def pl_script(script):
    lines = []
    for name, arity, clauses in script:
        for head, body in clauses:
            h = pl_goal([name, head])
            if body:
                lines.append('%s :- %s.' % (h, ', '.join(pl_goal(g) for g in body)))
            else:
                lines.append('%s.' % h)
    return '\n'.join(lines) + '\n'

_COMPILED = {}
def compiled(script):
    from yldprolog.compiler import compile_prolog_from_string
    src = pl_script(script)
    if src not in _COMPILED:
        _COMPILED[src] = compile_prolog_from_string(src)
    return _COMPILED[src]

# ------------------------------------------------------------------ driving the implementation

class _Dead:
    pass
DEAD = _Dead()

# ---- inputs shared between engines (round 4).  The SAME Python objects - a function, a tuple of argument terms, a script
# string - are handed to several engines of one run.  Nothing in them belongs to an engine (no Atom / Variable objects:
# numbers, strings and Functor objects over them), so the engines must behave as if each had been given its own copy.

def shared_arity(f, style):
    """the arity register_function(name, func, arity) has to use (None = variable arity) for a shared function spec"""
    if style == 'variadic':
        return None
    if style == 'infer':
        return {'star': 1, 'first_star': 2}.get(f['sig']) if isinstance(f['sig'], str) else f['sig'][1]
    return style[1]

class SharedPool:
    """the shared objects of ONE run (created on first use, then the same object for every engine and thread of that run)"""
    def __init__(self, case):
        self.case = case
        self.funcs = {}
        self.terms = {}
        self.lock = threading.Lock()
    def plain(self, E, t):
        if t[0] in ('i', 's'):
            return t[1]
        if t[0] == 'f':
            return E.Functor(t[1], [self.plain(E, a) for a in t[2]])
        raise ValueError('shared inputs contain no atoms or variables: %r' % (t,))
    def term(self, E, i):
        with self.lock:
            if i not in self.terms:
                self.terms[i] = [self.plain(E, a) for a in self.case['shared']['terms'][i]]
            return self.terms[i]
    def func(self, E, i):
        with self.lock:
            if i not in self.funcs:
                self.funcs[i] = self.make(E, self.case['shared']['funcs'][i])
            return self.funcs[i]
    def make(self, E, f):
        import functools
        rows = [[self.plain(E, a) for a in r] for r in f['rows']]
        def body(args):
            for row in rows:
                for _ in E.unify_arrays(list(args), row):
                    yield False
        sig, kind = f['sig'], f.get('kind', 'def')
        ns = {'body': body}
        slf = 'self, ' if kind in ('method', 'callable') else ''
        if sig == 'star':
            exec('def fn(%s*args):\n  return body(args)\n' % slf, ns)
        elif sig == 'first_star':
            exec('def fn(%sfirst, *rest):\n  return body((first,) + rest)\n' % slf, ns)
        else:
            ps = ', '.join('a%d' % i for i in range(sig[1]))
            exec('def fn(%s):\n  return body((%s))\n' % ((slf + ps).rstrip(', '), ps + (',' if sig[1] else '')), ns)
        fn = ns['fn']
        if kind == 'method':
            Preds = type('Preds', (object,), {'pred': fn})
            self.keep = getattr(self, 'keep', []) + [Preds]
            return Preds().pred
        if kind == 'callable':
            return type('Pred', (object,), {'__call__': fn})()
        if kind == 'wraps':
            @functools.wraps(fn)
            def wrapper(*args, **kwargs):
                return fn(*args, **kwargs)
            return wrapper
        if kind == 'partial':
            return functools.partial(fn)
        return fn

class EngineDriver:
    """One engine instance, its user variables and the generators its caller holds."""
    def __init__(self, case, eid, pool=None):
        from yldprolog import engine as E
        self.E = E
        self.case = case
        self.eid = eid
        self.pool = pool if pool is not None else SharedPool(case)
        self.yp = E.YP()
        self.vars = {}
        self.gens = {}
        self.qargs = {}
        self.atom_objs = []
        self.obs = []

    def var(self, i):
        if i not in self.vars:
            self.vars[i] = self.yp.variable()
        return self.vars[i]

    def build(self, t):
        k = t[0]
        if k == 'a':
            return self.yp.atom(t[1])
        if k in ('i', 's'):
            return t[1]
        if k == 'v':
            return self.var(t[1])
        return self.yp.functor(t[1], [self.build(a) for a in t[2]])

    def read_answer(self, args):
        E = self.E
        seen = {}
        keep = []
        def rd(o, depth=0):
            if depth > 300:
                raise RecursionError('deep')
            if isinstance(o, E.Variable):
                if id(o) not in seen:
                    seen[id(o)] = len(seen)
                    keep.append(o)
                return [3, seen[id(o)]]
            if isinstance(o, E.Atom):
                return [0, o.name()]
            if isinstance(o, E.Functor):
                return [4, o._name, [rd(a, depth + 1) for a in o._args]]
            if isinstance(o, bool):
                return [9, repr(o)]
            if isinstance(o, int):
                return [1, o]
            if isinstance(o, str):
                return [2, o]
            return [9, repr(type(o))]
        return [rd(E.get_value(a)) for a in args]

    def step(self, op):
        self.obs.append(self._step(op))

    def _next(self, q):
        g = self.gens[q]
        if g is DEAD:
            return ['done']
        try:
            next(g)
        except StopIteration:
            return ['done']
        return ['ans'] + self.read_answer(self.qargs[q])

    def _step(self, op):
        yp, E = self.yp, self.E
        k = op[0]
        try:
            if k == 'atom':
                a = yp.atom(op[1])
                if not isinstance(a, E.Atom) or a.name() != op[1]:
                    return ['atom', 'wrong-object']
                for i, o in enumerate(self.atom_objs):
                    if o is a:
                        return ['atom', i]
                self.atom_objs.append(a)
                return ['atom', len(self.atom_objs) - 1]
            if k == 'assert':
                _, append, name, args, api = op
                vals = [self.build(a) for a in args]
                if api == 0:
                    yp.assert_fact(yp.atom(name), vals, append)
                else:
                    t = yp.functor(name, vals) if vals else yp.atom(name)
                    if api == 1:
                        r = (yp.assertz if append else yp.asserta)(t)
                        n = sum(1 for _ in r)
                    else:
                        n = sum(1 for _ in yp.query('assertz' if append else 'asserta', [t]))
                    if n != 1:
                        return ['assert-answers', n]
                return ['ok']
            if k == 'retract':
                _, name, args, api = op
                vals = [self.build(a) for a in args]
                t = yp.functor(name, vals) if vals else yp.atom(name)
                if api == 0:
                    for _ in yp.retract(t):
                        pass
                elif api == 1:
                    for _ in yp.retractall(t):
                        pass
                elif api == 2:
                    for _ in yp.query('retract', [t]):
                        pass
                else:
                    for _ in yp.query('retractall', [t]):
                        pass
                return ['ok']
            if k == 'register':
                _, name, arity, rows = op
                rws = [[self.build(a) for a in r] for r in rows]
                def fn(*args, _rows=rws, _E=E):
                    for row in _rows:
                        for _ in _E.unify_arrays(list(args), row):
                            yield False
                yp.register_function(name, fn, arity=-1 if arity is None else arity)
                return ['ok']
            if k == 'regshared':
                _, name, style, fidx = op
                fn = self.pool.func(E, fidx)
                if style == 'infer':
                    yp.register_function(name, fn)
                elif style == 'variadic':
                    yp.register_function(name, fn, arity=-1)
                else:
                    yp.register_function(name, fn, arity=style[1])
                return ['ok']
            if k == 'assertshared':
                _, append, name, tidx, api = op
                vals = self.pool.term(E, tidx)
                if api == 0:
                    yp.assert_fact(yp.atom(name), vals, append)
                else:
                    t = yp.functor(name, vals) if vals else yp.atom(name)
                    if api == 1:
                        n = sum(1 for _ in (yp.assertz if append else yp.asserta)(t))
                    else:
                        n = sum(1 for _ in yp.query('assertz' if append else 'asserta', [t]))
                    if n != 1:
                        return ['assert-answers', n]
                return ['ok']
            if k == 'load':
                yp.load_script_from_string(self.case['_compiled'][op[2]], overwrite=op[1])
                return ['ok']
            if k == 'clear':
                yp.clear()
                return ['ok']
            if k == 'start':
                _, q, name, args = op
                vals = [self.build(a) for a in args]
                g = yp.query(name, vals)
                self.gens[q] = g          # a generator that was in the slot is dropped here
                self.qargs[q] = vals
                del g
                return ['started']
            if k == 'next':
                if op[1] not in self.gens:
                    return ['noslot']
                return self._next(op[1])
            if k == 'adv':
                q = op[1]
                if q not in self.gens:
                    return ['noslot']
                out = []
                for _ in range(op[2]):
                    r = self._next(q)
                    if r == ['done']:
                        break
                    out.append(r[1:])
                return digest_answers(out)
            if k == 'close':
                q = op[1]
                if q not in self.gens:
                    return ['noslot']
                if self.gens[q] is not DEAD:
                    if op[2] == 0:
                        self.gens[q].close()
                    else:
                        self.gens[q] = DEAD
                return ['closed']
            if k == 'peek':
                return ['peek'] + self.read_answer([self.build(a) for a in op[1]])
            if k == 'drain':
                q = op[1]
                if q not in self.gens:
                    return ['noslot']
                out = []
                for _ in range(FUEL):
                    r = self._next(q)
                    if r == ['done']:
                        return ['all', out, []]
                    out.append(r[1:])
                return ['all', out, [0]]
        except RecursionError:
            return ['raised', 'RecursionError']
        except Exception as e:           # the class only
            return ['raised', type(e).__name__]
        raise ValueError(op)

    def finish(self):
        """close everything; every user variable must be unbound afterwards"""
        for q in list(self.gens):
            g = self.gens[q]
            if g is not DEAD:
                g.close()
        self.gens.clear()
        return all(not v._is_bound for v in self.vars.values())

def _prepare(case):
    if '_compiled' not in case:
        case['_compiled'] = [compiled(s) for s in case['scripts']]

def run_back_to_back(case):
    """all engines in this process, one whole history after the other"""
    out = []
    pool = SharedPool(case)
    for e in range(case['neng']):
        d = EngineDriver(case, e, pool)
        for op in case['hist'][e]:
            d.step(op)
        d.finish()
        out.append(d.obs)
    return out

_ALONE_SNIPPET = 'from props import c04; c04._alone_main()'

def _alone_main():
    """entry point of the fresh interpreter: one engine, its history, nothing else was ever imported or run"""
    req = json.loads(sys.stdin.read())
    case = req['case']
    d = EngineDriver(case, req['eid'])
    for op in case['hist'][req['eid']]:
        d.step(op)
    ok = d.finish()
    sys.stdout.write(json.dumps({'obs': d.obs, 'unbound': ok}))

def run_alone_fresh(case):
    """every engine alone in a fresh interpreter (no state of any kind can come from another engine)"""
    out = []
    for e in range(case['neng']):
        small = {'neng': case['neng'], 'scripts': [], '_compiled': case['_compiled'], 'shared': case.get('shared'),
                 'hist': [h if k == e else [] for k, h in enumerate(case['hist'])]}
        r = subprocess.run([sys.executable, '-B', '-c', _ALONE_SNIPPET], input=json.dumps({'case': small, 'eid': e}),
                           capture_output=True, text=True, timeout=CASE_TIMEOUT, env=os.environ)
        if r.returncode != 0:
            raise RuntimeError('fresh interpreter failed: ' + r.stderr[-400:])
        out.append(json.loads(r.stdout)['obs'])
    return out

SLOT_OPS = ('start', 'next', 'close', 'drain', 'adv')

def _vars_of(t, acc):
    if t[0] == 'v':
        acc.add(t[1])
    elif t[0] == 'f':
        for a in t[2]:
            _vars_of(a, acc)
    return acc

def slot_footprints(case, hist):
    """per slot: (keys of the fact store its queries can touch, keys they can write), computed statically from the scripts this
    history loads: the closure of the goals reachable from the started goals through the loaded rule definitions; a database
    builtin with a literal argument name(args) writes (and touches) the key (name, arity); '*' stands for a key that is not known
    statically (the argument is a variable).  Over-approximation of the logs of the model (World.ev)."""
    defs = {}
    for op in hist:
        if op[0] == 'load':
            for name, ar, clauses in case['scripts'][op[2]]:
                defs.setdefault((name, ar), []).extend(body for _, body in clauses)
    def goal(name, args, T, W, seen):
        key = (name, len(args))
        T.add(key)
        if name in DB_BUILTINS and len(args) == 1:
            t = args[0]
            k = (t[1], len(t[2])) if t[0] == 'f' else (t[1], 0) if t[0] == 'a' else '*' if t[0] == 'v' else None
            if k is not None:
                T.add(k)
                W.add(k)
        # the meta-call builtins run a goal that is given as a term (World.metastep): its footprint is that of the goal;
        # a goal that is a variable at compile time is not known statically
        meta = None
        if name == '\\=' and len(args) == 2:
            goal('=', args, T, W, seen)
        elif name == 'once' and len(args) == 1:
            meta = (args[0], [])
        elif name == 'findall' and len(args) == 3:
            meta = (args[1], [])
        elif name == 'call' and args:
            meta = (args[0], list(args[1:]))
        if meta:
            t, extra = meta
            if t[0] == 'f':
                goal(t[1], list(t[2]) + extra, T, W, seen)
            elif t[0] == 'a':
                goal(t[1], extra, T, W, seen)
            elif t[0] == 'v':
                T.add('*')
                W.add('*')
        if key in seen:
            return
        seen.add(key)
        for body in defs.get(key, []):
            for g in body:
                goal(g[0], g[1], T, W, seen)
    per = {}
    for op in hist:
        if op[0] == 'start':
            T, W = per.setdefault(op[1], (set(), set()))
            goal(op[2], op[3], T, W, set())
    return per

def _meets(touched, written):
    if not written or not touched:
        return False
    return '*' in written or '*' in touched or bool(touched & written)

def slots_independent(case, hist):
    """the slots of this history that qualify for the same-engine oracle: at least two slots, the queries of different slots
    have no variable in common, no assert / retract of the caller mentions a query variable, and (footprints, cf. the
    theorem C04_same_engine_slots_K) no query of another slot can write a key of the fact store that a query of this slot
    can touch (then the only way another query could influence this one is the interference the property excludes)"""
    per = {}
    for op in hist:
        if op[0] == 'start':
            acc = per.setdefault(op[1], set())
            for a in op[3]:
                _vars_of(a, acc)
    if len(per) < 2:
        return []
    qs = sorted(per)
    for i in range(len(qs)):
        for j in range(i + 1, len(qs)):
            if per[qs[i]] & per[qs[j]]:
                return []
    allq = set().union(*per.values())
    for op in hist:
        args = op[3] if op[0] == 'assert' else op[2] if op[0] == 'retract' else []
        for a in args:
            if _vars_of(a, set()) & allq:
                return []
    foot = slot_footprints(case, hist)
    return [q for q in qs if not any(_meets(foot[q][0], foot[p][1]) for p in qs if p != q)]

def run_slots_alone(case):
    """for every qualifying engine and each of its slots q: the same history in which the generators of the other slots
    are never created or advanced; returns [engine, slot, [(index in the history, observation)]]"""
    out = []
    for e in range(case['neng']):
        hist = case['hist'][e]
        for q in slots_independent(case, hist):
            d = EngineDriver(case, e)
            seen = []
            for k, op in enumerate(hist):
                if op[0] == 'peek' or (op[0] in SLOT_OPS and op[1] != q):
                    continue
                d.step(op)
                if op[0] in SLOT_OPS:
                    seen.append([k, d.obs[-1]])
            d.finish()
            out.append([e, q, seen])
    return out

def run_interleaved(case):
    pool = SharedPool(case)
    ds = [EngineDriver(case, e, pool) for e in range(case['neng'])]
    for e, op in schedule_ops(case):
        ds[e].step(op)
    shared = False
    for i in range(len(ds)):
        for j in range(i + 1, len(ds)):
            if any(a is b for a in ds[i].atom_objs for b in ds[j].atom_objs):
                shared = True
            if ds[i].yp.ATOM_NIL is ds[j].yp.ATOM_NIL:
                shared = True
    unbound = all([d.finish() for d in ds])
    return [d.obs for d in ds], shared, unbound

THREAD_COPIES = 2      # threads per engine history (every thread has its own YP instances)
THREAD_ROUNDS = 6      # times every thread runs its history, each time on a fresh instance

def run_threads(case):
    """every history on THREAD_COPIES threads at once, THREAD_ROUNDS times in a row on fresh instances, all threads started
    together with a tiny switch interval.  Returns per engine the distinct observation sequences that occurred (canonical form; there must be exactly one, the one of the
    run alone), the errors and the number of histories run."""
    jobs = [(e, k) for e in range(case['neng']) for k in range(THREAD_COPIES)]
    barrier = threading.Barrier(len(jobs))
    pool = SharedPool(case)
    errs = []
    seen = {j: [] for j in jobs}
    def work(j):
        try:
            barrier.wait()
            for _ in range(THREAD_ROUNDS):
                d = EngineDriver(case, j[0], pool)
                for op in case['hist'][j[0]]:
                    d.step(op)
                if not d.finish():
                    errs.append('a variable stayed bound')
                seen[j].append(d.obs)
        except BaseException as ex:       # pragma: no cover
            errs.append(repr(ex))
    old = sys.getswitchinterval()
    sys.setswitchinterval(1e-6)
    try:
        ts = [threading.Thread(target=work, args=(j,)) for j in jobs]
        for t in ts:
            t.start()
        for t in ts:
            t.join()
    finally:
        sys.setswitchinterval(old)
    out = []
    for e in range(case['neng']):
        distinct = []
        for j in jobs:
            if j[0] == e:
                for o in seen[j]:
                    r = canon_impl([o])[0]
                    if r not in distinct:
                        distinct.append(r)
        out.append(distinct)
    return out, errs, sum(len(v) for v in seen.values())

def _quiet_unraisable(u, _old=sys.unraisablehook):
    # a match that builds a cyclic term (unspecified, the case is skipped) recurses to the interpreter's limit; a weakref
    # callback of the verification hook's WeakSet that fires at that depth cannot run and is reported on stderr: noise
    if u.exc_type is RecursionError:
        return
    _old(u)

def impl(case):
    sys.unraisablehook = _quiet_unraisable
    case = dict(case)
    _prepare(case)
    alone = run_alone_fresh(case)
    inter, shared, unbound = run_interleaved(case)
    if case.get('light'):
        # scale family: the runs on threads and back to back (tests of the isolation BETWEEN engines) are left out, they
        # would multiply the cost of these long histories; what the family is about is run (d)
        thr, errs, nthr = [[canon_impl([o])[0]] for o in alone], [], 0
        b2b = alone
    else:
        thr, errs, nthr = run_threads(case)
        b2b = run_back_to_back(case)
    solo = run_slots_alone(case)
    return {'slots_alone': solo, 'alone': alone, 'back_to_back': b2b, 'interleaved': inter, 'threads': thr, 'thread_errors': errs, 'thread_runs': nthr,
            'shared_atom_objects': shared, 'all_unbound_at_end': unbound}

# ------------------------------------------------------------------ comparison

def canon_answer(vals):
    m = {}
    def go(o):
        if o[0] == 3:
            if o[1] not in m:
                m[o[1]] = len(m)
            return [3, m[o[1]]]
        if o[0] == 4:
            return [4, o[1], [go(a) for a in o[2]]]
        return o
    return [go(v) for v in vals]

def canon_model_trace(case, mo):
    """per-engine observation sequences of the model in the implementation's format"""
    per = [[] for _ in range(case['neng'])]
    atom_ids = [dict() for _ in range(case['neng'])]
    if any(op[0] == 'adv' for h in case['hist'] for op in h):
        folded = []
        it = iter(mo)
        for e, op in schedule_ops(case):
            if op[0] != 'adv':
                folded.append(next(it))
                continue
            group = [next(it)[1] for _ in range(op[2])]
            if group and group[0][0] == 'noslot':
                folded.append((e, ['noslot']))
                continue
            answers = []
            for o in group:
                if o[0] != 'ans':
                    break
                answers.append(o[1:])
            folded.append((e, digest_answers(answers)))
        mo = folded
    for e, o in mo:
        tag = o[0]
        if tag == 'atom':
            ids = atom_ids[e]
            raw = o[1][0] if o[1] else -1
            if raw not in ids:
                ids[raw] = len(ids)
            per[e].append(['atom', ids[raw]])
        elif tag in ('ans', 'peek'):
            per[e].append([tag] + canon_answer(o[1:]))
        elif tag == 'all':
            per[e].append(['all', [canon_answer(a) for a in o[1]], o[2]])
        else:
            per[e].append(o)
    return per

def canon_impl(seqs):
    out = []
    for s in seqs:
        r = []
        for o in s:
            if o[0] in ('ans', 'peek'):
                r.append([o[0]] + canon_answer(o[1:]))
            elif o[0] == 'all':
                r.append(['all', [canon_answer(a) for a in o[1]], o[2]])
            else:
                r.append(o)
        out.append(r)
    return out

def _model_errors(mo):
    codes = set()
    for e, o in mo:
        if o[0] == 'err':
            codes.add(o[1])
        if o[0] == 'all' and o[2]:
            codes.add(o[2][0] - 1 if o[2][0] > 0 else 100)
    return codes

MODEL_SKIPPED = [0]
MODEL_CYCLIC = [0]
MODEL_BY_FAMILY = {}     # family -> [compared with the model, cyclic match (skipped), fuel / outside the model (skipped)]

def _first_diff(a, b):
    for e, (x, y) in enumerate(zip(a, b)):
        for k, (p, q) in enumerate(zip(x, y)):
            if p != q:
                return 'engine %d, operation %d: %r vs %r' % (e, k, p, q)
        if len(x) != len(y):
            return 'engine %d: %d vs %d observations' % (e, len(x), len(y))
    return 'different number of engines'

def compare(case, io, mo):
    if not isinstance(io, dict):
        return None
    codes = _model_errors(mo)
    fam = MODEL_BY_FAMILY.setdefault(case.get('family', 'mixed'), [0, 0, 0])
    fam[1 if (2 in codes or 9 in codes) else 2 if codes else 0] += 1
    if 2 in codes or 9 in codes:
        MODEL_CYCLIC[0] += 1
        return None            # cyclic match: unspecified
    if codes:
        # the model ran out of fuel (code 100) or met something outside it: the case is not compared with the model
        # (the model-independent oracle below still applies); counted in the distribution as model_not_comparable
        MODEL_SKIPPED[0] += 1
        return None
    exp = canon_model_trace(case, mo)
    got = canon_impl(io['interleaved'])
    if exp != got:
        return 'interleaved run differs from the model: ' + _first_diff(got, exp)
    return None

def oracle(case, io):
    if not isinstance(io, dict):
        return None
    a, b, c = canon_impl(io['alone']), canon_impl(io['interleaved']), io['threads']
    bb = canon_impl(io['back_to_back'])
    if case.get('family') != 'sc' and any(o and o[0] == 'raised' and o[1] == 'RecursionError' for s in a for o in s):
        # a match built a cyclic term: unspecified.  (Not in the scale family: its programs build no cyclic terms and every
        # single query stays far below the interpreter's recursion limit, so a RecursionError there is judged like any other
        # observation - in particular by run (d): the query alone on an engine with the same database must raise it too.)
        return None
    if a != b:
        return 'an engine observes something else when the engines are interleaved than when it runs alone in a fresh interpreter: ' + _first_diff(b, a)
    if a != bb:
        return 'an engine observes something else when the engines run back to back in one process than when it runs alone in a fresh interpreter: ' + _first_diff(bb, a)
    if io['thread_errors']:
        return 'thread run raised: %s' % io['thread_errors'][:2]
    for e, runs in enumerate(c):
        for r in runs:
            if r != a[e]:
                return ('an engine observes something else when the engines run on threads than when it runs alone in a fresh '
                        'interpreter: ' + _first_diff([r], [a[e]]).replace('engine 0', 'engine %d' % e, 1))
        if not runs:
            return 'thread run produced nothing for engine %d' % e
    for e, q, seen in io.get('slots_alone', []):
        for k, o in seen:
            x, y = canon_impl([[o]])[0][0], b[e][k]
            if x != y:
                return ('a query of engine %d sees something else when other queries of the same engine (over other variables) are '
                        'suspended than when it is the only one: slot %d, operation %d: %r vs %r' % (e, q, k, y, x))
    if io['shared_atom_objects']:
        return 'two engine instances returned the same Atom object'
    if not io['all_unbound_at_end']:
        return 'a variable is still bound after every generator was closed'
    return None

# ------------------------------------------------------------------ generation

ATOMS = ['a', 'b', 'c', 'd']
FACT_PREDS = [('p', 1), ('p', 2), ('q', 1), ('q', 2), ('e', 0), ('r', 1)]
PURE_PREDS = [('p', 2), ('q', 1), ('q', 2), ('e', 0)]                   # never defined by a script
RULE_PREDS = [('p', 1), ('r', 1), ('s', 2), ('t', 1), ('u', 0)]     # stratified in this order; p/1 and r/1 also get facts

def rand_ground(rng, depth=2, py=True):
    r = rng.random()
    if depth <= 0 or r < 0.55:
        q = rng.random()
        if q < 0.12:
            return ['i', rng.choice([0, 1, 7, 42])]
        if py and q < 0.18:
            return ['s', rng.choice(['a', 'x y', ''])]
        return ['a', rng.choice(ATOMS)]
    if r < 0.7:
        return terms.mklist([rand_ground(rng, depth - 1, py) for _ in range(rng.randrange(0, 3))])
    f, n = rng.choice([('f', 1), ('g', 2), ('f', 2)])
    return ['f', f, [rand_ground(rng, depth - 1, py) for _ in range(n)]]

def rand_open(rng, vars_, depth=2, pvar=0.4, py=True):
    """term over the given variable indices"""
    r = rng.random()
    if vars_ and r < pvar:
        return ['v', rng.choice(vars_)]
    if depth <= 0 or r < 0.65:
        return rand_ground(rng, 0, py)
    if r > 0.93:
        tail = ['v', rng.choice(vars_)] if vars_ and rng.random() < 0.5 else None
        return terms.mklist([rand_open(rng, vars_, depth - 1, pvar, py) for _ in range(rng.randrange(1, 3))], tail)
    f, n = rng.choice([('f', 1), ('g', 2), ('f', 2)] + ([('.', 2)] if py else []))
    return ['f', f, [rand_open(rng, vars_, depth - 1, pvar, py) for _ in range(n)]]

DB_BUILTINS = ('assertz', 'asserta', 'retract', 'retractall')

def gen_db_goal(rng, vs, body):
    """a database builtin called from a clause body: its argument is a literal name(args) over the clause variables (mostly),
    an atom, a variable bound to such a term by a preceding '=' goal, or (rarely) an unbound variable / a number"""
    b = rng.choice(['assertz', 'assertz', 'asserta', 'retract', 'retract', 'retractall'])
    name, ar = rng.choice(FACT_PREDS)
    t = ['f', name, [rand_open(rng, vs, 1, 0.65, py=False) for _ in range(ar)]] if ar else ['a', name]
    r = rng.random()
    if r < 0.12 and vs:
        g = ['v', rng.choice(vs)]
        body.append(['=', [g, t]])
        body.append([b, [g]])
    elif r < 0.16 and vs:
        body.append([b, [['v', rng.choice(vs)]]])
    elif r < 0.18:
        body.append([b, [['i', 7]]])
    else:
        body.append([b, [t]])

META_BUILTINS = ('\\=', 'once', 'call', 'findall')

def gen_callable(rng, vs, cands, writes, depth=0):
    """a term that is run as a goal by once / call / findall: name(args) over a fact predicate or an earlier rule predicate,
    (writes) a database builtin on a literal, or one of the meta-call builtins again"""
    r = rng.random()
    if depth < 1 and r < 0.15:
        k = rng.choice(['once', 'call', 'findall'])
        g = gen_callable(rng, vs, cands, writes, depth + 1)
        if k == 'findall':
            return ['f', 'findall', [rand_open(rng, vs, 1, 0.7, py=False), g, ['v', rng.choice(vs)]]]
        return ['f', k, [g]]
    if writes and r < 0.35:
        b = rng.choice(['assertz', 'asserta', 'retract', 'retract', 'retractall'])
        name, ar = rng.choice(FACT_PREDS)
        t = ['f', name, [rand_open(rng, vs, 1, 0.65, py=False) for _ in range(ar)]] if ar else ['a', name]
        return ['f', b, [t]]
    gn, ga = rng.choice(cands)
    return ['f', gn, [rand_open(rng, vs, 1, 0.75, py=False) for _ in range(ga)]] if ga else ['a', gn]

def gen_meta_goal(rng, vs, body, cands, writes, py=False, direct=False):
    """X \\= Y, once(G), call(G, A..) (G with its last arguments split off, or a variable bound by a preceding '='),
    findall(T, G, L); rarely a goal that is not callable (an unbound variable, a number: YP.call raises)"""
    k = rng.choice(['\\=', 'once', 'once', 'call', 'call', 'findall', 'findall', 'findall'])
    if k == '\\=':
        body.append(['\\=', [rand_open(rng, vs, 1, 0.7, py=py), rand_open(rng, vs, 1, 0.5, py=py)]])
        return
    g = gen_callable(rng, vs, cands, writes)
    r = 1.0 if direct else rng.random()
    if r < 0.12:
        v = ['v', rng.choice(vs)]
        body.append(['=', [v, g]])
        g = v
    elif r < 0.135:
        g = ['v', rng.choice(vs)]
    elif r < 0.145:
        g = ['i', 7]
    if k == 'once':
        body.append(['once', [g]])
    elif k == 'call':
        extra = []
        if g[0] == 'f' and g[2] and rng.random() < 0.6:
            j = rng.randrange(1, len(g[2]) + 1)
            extra = g[2][len(g[2]) - j:]
            g = ['f', g[1], g[2][:len(g[2]) - j]] if len(g[2]) > j else ['a', g[1]]
        body.append(['call', [g] + extra])
    else:
        q = rng.random()
        bag = ['v', rng.choice(vs)] if q < 0.8 else ['a', '[]'] if q < 0.87 else terms.mklist([rand_open(rng, vs, 1, 0.8, py=py)], ['v', rng.choice(vs)])
        body.append(['findall', [rand_open(rng, vs, 1, 0.75, py=py), g, bag]])

def gen_script(rng, writes=False, meta=False):
    """a few rule predicates; bodies call fact predicates, '=' and earlier rule predicates, and (writes) the database
    builtins asserta / assertz / retract / retractall, and (meta) the meta-call builtins \\=, once, call/N, findall"""
    preds = []
    pw = rng.choice([0.15, 0.3, 0.45]) if writes else 0.0
    pm = rng.choice([0.25, 0.4, 0.55]) if meta else 0.0
    k = rng.choice([1, 2, 2, 3, 4])
    chosen = sorted(rng.sample(range(len(RULE_PREDS)), k))
    for idx in chosen:
        name, ar = RULE_PREDS[idx]
        clauses = []
        for _ in range(rng.choice([1, 1, 2, 3])):
            nv = rng.choice([1, 2, 3])
            vs = list(range(nv))
            head = [rand_open(rng, vs, 1, 0.7, py=False) for _ in range(ar)]
            body = []
            for _ in range(rng.choice([0, 1, 1, 2, 2, 3])):
                r = rng.random()
                if rng.random() < pw:
                    gen_db_goal(rng, vs, body)
                elif meta and rng.random() < pm:
                    gen_meta_goal(rng, vs, body, list(PURE_PREDS) + [RULE_PREDS[j] for j in range(idx)], writes)
                elif r < 0.15:
                    body.append(['=', [rand_open(rng, vs, 1, 0.6, py=False), rand_open(rng, vs, 1, 0.5, py=False)]])
                else:
                    cands = list(PURE_PREDS) + [RULE_PREDS[j] for j in range(idx)]
                    gn, ga = rng.choice(cands)
                    body.append([gn, [rand_open(rng, vs, 1, 0.7, py=False) for _ in range(ga)]])
            clauses.append([head, body])
        preds.append([name, ar, clauses])
    return preds

def gen_history(rng, case, eid, nops, base_facts):
    ops = []
    nextvar = [0]
    live = {}            # slot -> variables of the query in it
    mix = rng.random() < 0.5     # asserts may mention variables of suspended queries (else: same-engine oracle applies)
    nfacts = {}          # rough number of facts per key, to steer next() towards generators that still have answers
    est = {}             # slot -> rough number of answers left
    rule_names = set(n for n, _ in RULE_PREDS)
    def fresh(n):
        r = list(range(nextvar[0], nextvar[0] + n))
        nextvar[0] += n
        return r
    def fact_args(ar, allow_live=True):
        vs = fresh(rng.choice([0, 0, 1, 2]))
        if mix and allow_live and live and rng.random() < 0.3:
            vs = vs + rng.choice(list(live.values()))
        return [rand_open(rng, vs, 2, 0.35) for _ in range(ar)]
    def query_goal():
        have = sorted(k for k, c in nfacts.items() if c > 0)
        if case.get('writes') and rng.random() < 0.18:
            # a database builtin as a query of its own: retract(p(X)) can be suspended between two removals
            b = rng.choice(['retract', 'retract', 'retract', 'assertz', 'asserta', 'retractall'])
            name, ar = rng.choice(have) if have and rng.random() < 0.7 else rng.choice(FACT_PREDS)
            vs = fresh(max(1, ar))
            t = ['f', name, [rand_open(rng, vs, 1, 0.7) for _ in range(ar)]] if ar else ['a', name]
            return b, [t], vs
        if case.get('meta') and rng.random() < 0.22:
            # a meta-call builtin as a query of its own (findall runs its goal to exhaustion inside one next())
            vs = fresh(2)
            body = []
            gen_meta_goal(rng, vs, body, (have or []) + list(FACT_PREDS) + RULE_PREDS, case.get('writes'), py=True, direct=True)
            return body[-1][0], body[-1][1], vs
        if have and rng.random() < 0.5:
            name, ar = rng.choice(have)
        else:
            name, ar = rng.choice(base_facts * 3 + FACT_PREDS + RULE_PREDS + [('s', 2), ('r', 1), ('zz', 1)])
        vs = fresh(max(1, ar))
        args = []
        for i in range(ar):
            r = rng.random()
            if r < 0.8:
                args.append(['v', rng.choice(vs)])
            else:
                args.append(rand_open(rng, vs, 2, 0.4))
        return name, args, vs
    # a few initial facts, partly the same keys as the other engines but other contents
    for (name, ar) in base_facts:
        for _ in range(rng.choice([2, 3, 4])):
            ops.append(['assert', True, name, fact_args(ar, False), rng.randrange(3)])
            nfacts[(name, ar)] = nfacts.get((name, ar), 0) + 1
    nops += len(ops)
    while len(ops) < nops:
        r = rng.random()
        if r < 0.22:
            name, ar = rng.choice(FACT_PREDS)
            ops.append(['assert', rng.random() < 0.7, name, fact_args(ar), rng.randrange(3)])
            nfacts[(name, ar)] = nfacts.get((name, ar), 0) + 1
        elif r < 0.30:
            name, ar = rng.choice(FACT_PREDS)
            vs = fresh(2)
            ops.append(['retract', name, [rand_open(rng, vs, 1, 0.6) for _ in range(ar)], rng.randrange(4)])
        elif r < 0.40 and case['scripts']:
            ops.append(['load', rng.random() < 0.7, rng.randrange(len(case['scripts']))])
        elif r < 0.45:
            name, ar = rng.choice(RULE_PREDS + [('w', 2)])
            if rng.random() < 0.3:
                rows = [[rand_ground(rng, 1) for _ in range(rng.choice([1, 2]))] for _ in range(rng.choice([1, 2, 3]))]
                ops.append(['register', name, None, rows])
            else:
                rows = [[rand_ground(rng, 1) for _ in range(ar)] for _ in range(rng.choice([1, 2, 3]))]
                ops.append(['register', name, ar, rows])
        elif r < 0.48:
            ops.append(['clear'])
            nfacts.clear()
        elif r < 0.55:
            ops.append(['atom', rng.choice(ATOMS + ['[]', 'p', 'new atom'])])
        elif r < 0.66 or not live:
            q = rng.randrange(3)
            name, args, vs = query_goal()
            ops.append(['start', q, name, args])
            live[q] = vs
            est[q] = nfacts.get((name, len(args)), 0) + (2 if name in rule_names else 0)
            if name in META_BUILTINS:
                est[q] = 1 if name != 'call' else 2
            if name in DB_BUILTINS:
                t = args[0]
                key = (t[1], len(t[2]) if t[0] == 'f' else 0)
                est[q] = nfacts.get(key, 0) if name == 'retract' else 1
        elif r < 0.88:
            more = [q for q in live if est.get(q, 0) > 0]
            q = rng.choice(more) if more and rng.random() < 0.75 else rng.choice(list(live))
            est[q] = est.get(q, 0) - 1
            ops.append(['next', q])
        elif r < 0.92:
            # look at variables between two steps: those of the suspended queries and a few others
            vs = [v for q in live for v in live[q]] + fresh(1)
            k = rng.choice([1, 2, 3])
            ops.append(['peek', [rand_open(rng, vs, 1, 0.8) for _ in range(k)]])
        elif r < 0.96:
            q = rng.choice(list(live))
            ops.append(['close', q, rng.randrange(2)])
        else:
            ops.append(['drain', rng.choice(list(live))])
    # read everything back
    q = 3
    for (name, ar) in sorted(set(FACT_PREDS + RULE_PREDS + [('w', 2)])):
        if rng.random() < 0.5:
            ops.append(['start', q, name, [['v', v] for v in fresh(ar)]])
            ops.append(['drain', q])
    ops.append(['atom', 'a'])
    return ops

def gen_schedule(rng, lens):
    rem = list(lens)
    sched = []
    cur = None
    while any(rem):
        alive = [e for e, n in enumerate(rem) if n]
        if cur not in alive or rng.random() < 0.6:
            cur = rng.choice(alive)
        sched.append(cur)
        rem[cur] -= 1
    return sched

def gen_case(rng, big=False, meta=False):
    neng = rng.choice([2, 2, 3])
    writes = rng.random() < 0.5
    case = {'neng': neng, 'writes': writes,
            'scripts': [gen_script(rng, writes and rng.random() < 0.8, meta) for _ in range(rng.choice([1, 2, 2, 3]))]}
    if meta:
        case['meta'] = True
        case['family'] = 'mb'
    shared_keys = rng.sample(FACT_PREDS, rng.choice([2, 3, 4]))
    hist = []
    for e in range(neng):
        n = rng.choice([6, 10, 14, 18, 24]) if not big else rng.choice([30, 40, 60])
        hist.append(gen_history(rng, case, e, n, shared_keys))
    if rng.random() < 0.35:
        # the same script into every engine right after the initial facts
        pos = rng.randrange(len(case['scripts']))
        for e in range(neng):
            hist[e].insert(min(len(hist[e]), len(shared_keys) + 1), ['load', True, pos])
    case['hist'] = hist
    case['sched'] = gen_schedule(rng, [len(h) for h in hist])
    return case


# ------------------------------------------------------------------ family NL: many queries on ONE predicate, non-LIFO lifetimes

NL_KEYS = [('p', 1), ('p', 2), ('q', 1), ('q', 2), ('q', 2), ('p', 2)]
NL_CONSTS = [['a', 'a'], ['a', 'b'], ['a', 'c'], ['i', 1], ['i', 2]]

def _has_var(t):
    return bool(_vars_of(t, set()))

def nl_fact_args(rng, ar, vs):
    """arguments of a dynamic fact over few variables: shared variables inside one fact (p(X,X), p(X,f(X,a))), partially bound
    patterns (p(X,a)), nested ones; mostly NOT ground"""
    args = []
    for _ in range(ar):
        r = rng.random()
        if r < 0.5:
            args.append(['v', rng.choice(vs)])
        elif r < 0.75:
            args.append(list(rng.choice(NL_CONSTS)))
        else:
            f, n = rng.choice([('f', 1), ('g', 2), ('f', 2)])
            args.append(['f', f, [['v', rng.choice(vs)] if rng.random() < 0.6 else list(rng.choice(NL_CONSTS)) for _ in range(n)]])
    if not any(_has_var(a) for a in args) and rng.random() < 0.8:
        args[rng.randrange(ar)] = ['v', vs[0]]
    return args

def nl_query_args(rng, ar, fresh):
    """arguments of a query: own variables, constants of a small pool (so that the patterns of different queries on the same
    fact clash or are compatible), partially bound structures; returns (args, variables)"""
    vs = fresh(ar)
    args = []
    for i in range(ar):
        r = rng.random()
        if r < 0.45:
            args.append(['v', vs[i]])
        elif r < 0.8:
            args.append(list(rng.choice(NL_CONSTS)))
        else:
            f, n = rng.choice([('f', 1), ('g', 2), ('f', 2)])
            args.append(['f', f, [['v', vs[i]] if rng.random() < 0.5 else list(rng.choice(NL_CONSTS)) for _ in range(n)]])
    return args, vs

def gen_nl_history(rng, case, eid, nsteps):
    """One engine: a few dynamic facts with variables under ONE key (name, arity), optionally a rule predicate that calls it,
    then 3..6 query generators on that predicate that are opened, advanced and finished in NON-nested order: biased towards
    first-in-first-out (the older generator is closed / dropped / exhausted / moved on while a younger one stays suspended on an
    answer, then a new one is started)."""
    ops = []
    nextvar = [0]
    def fresh(n):
        r = list(range(nextvar[0], nextvar[0] + n))
        nextvar[0] += n
        return r
    name, ar = case['nlkey'] if rng.random() < 0.85 else rng.choice(NL_KEYS)
    nfacts = rng.choice([1, 1, 2, 3])
    for _ in range(nfacts):
        vs = fresh(rng.choice([1, 1, 2]))
        ops.append(['assert', rng.random() < 0.8, name, nl_fact_args(rng, ar, vs), rng.randrange(3)])
    other = rng.choice([k for k in FACT_PREDS if k != (name, ar) and k[1] > 0])
    for _ in range(rng.choice([0, 1, 2])):
        ops.append(['assert', True, other[0], nl_fact_args(rng, other[1], fresh(1)), rng.randrange(3)])
    via = None
    if case['scripts'] and rng.random() < 0.5:
        ops.append(['load', True, 0])
        via = case['via']
    nslots = rng.choice([3, 3, 4, 5, 6])
    live = []                      # slots of live generators, oldest first
    free = list(range(nslots))
    est = {}
    def start(q):
        r = rng.random()
        if via and r < 0.35:
            args, vs = nl_query_args(rng, via[1], fresh)
            ops.append(['start', q, via[0], args])
        elif r < 0.12:
            args, vs = nl_query_args(rng, other[1], fresh)
            ops.append(['start', q, other[0], args])
        else:
            args, vs = nl_query_args(rng, ar, fresh)
            ops.append(['start', q, name, args])
        est[q] = nfacts + 1
        if q in live:
            live.remove(q)
        live.append(q)
        if rng.random() < 0.85:
            ops.append(['next', q])
    def finish(q):
        how = rng.random()
        if how < 0.3:
            ops.append(['close', q, 0])
        elif how < 0.5:
            ops.append(['close', q, 1])
        elif how < 0.7:
            ops.append(['drain', q])
        else:
            for _ in range(nfacts + rng.choice([0, 1, 2])):
                ops.append(['next', q])
        live.remove(q)
        free.append(q)
    n0 = len(ops)
    while len(ops) - n0 < nsteps:
        r = rng.random()
        if len(live) < 2 and free:
            start(free.pop(0))
        elif r < 0.30 and (free or live):
            if free and rng.random() < 0.85:
                start(free.pop(0))
            else:
                start(live[0] if rng.random() < 0.6 else rng.choice(live))     # the old generator of the slot is dropped
        elif r < 0.52:
            ops.append(['next', rng.choice(live)])
        elif r < 0.86:
            q = live[0] if rng.random() < 0.65 else rng.choice(live)           # mostly the OLDEST: not LIFO
            finish(q)
            if free and rng.random() < 0.75:
                start(free.pop(0) if rng.random() < 0.5 else free.pop())
        elif r < 0.93:
            vs = fresh(1) + [v for v in range(nextvar[0])][-4:]
            ops.append(['peek', [['v', rng.choice(vs)] for _ in range(rng.choice([1, 2]))]])
        elif r < 0.97:
            ops.append(['assert', True, other[0], nl_fact_args(rng, other[1], fresh(1)), rng.randrange(3)])
        else:
            ops.append(['atom', rng.choice(ATOMS)])
    # whatever is still suspended is finished oldest first, then everything is read back
    for q in list(live):
        if rng.random() < 0.7:
            ops.append(['next', q])
    for q in list(live):
        finish(q)
    q = nslots
    for k in [(name, ar), other] + ([via] if via else []):
        ops.append(['start', q, k[0], [['v', v] for v in fresh(k[1])]])
        ops.append(['drain', q])
    return ops

def gen_nl_case(rng):
    neng = 2
    case = {'neng': neng, 'writes': False, 'family': 'nl', 'scripts': [], 'nlkey': rng.choice(NL_KEYS)}
    if rng.random() < 0.6:
        # a rule predicate with a local variable that calls the fact predicates (the facts are then matched one call deeper)
        hv, lv = ['v', 0], ['v', 1]
        key = case['nlkey']
        body_args = [hv, lv][:key[1]] if rng.random() < 0.7 else [lv, hv][:key[1]]
        cl = [[[hv], [[key[0], body_args]]]]
        if rng.random() < 0.4:
            cl.append([[['f', 'f', [hv]]], [[key[0], body_args]]])
        case['scripts'] = [[['t', 1, cl]]]
        case['via'] = ['t', 1]
    hist = [gen_nl_history(rng, case, e, rng.choice([10, 14, 18, 24])) for e in range(neng)]
    if rng.random() < 0.3:
        hist[1] = gen_history(rng, case, 1, rng.choice([6, 10]), rng.sample(FACT_PREDS, 2))
    case['hist'] = hist
    case['sched'] = gen_schedule(rng, [len(h) for h in hist])
    return case

def nonlifo_profile(hist):
    """(number of generators started on the most queried key, number of NON-LIFO events): an event = a generator is finished
    (closed, dropped, replaced, exhausted as far as that is visible statically: drain) while a YOUNGER one of the same
    predicate is still live, and later another generator is started on that predicate while the younger one is still live"""
    live = []          # (slot, predicate) in start order
    pending = set()    # younger generators that have outlived an older one of the same predicate
    starts = {}
    events = 0
    for op in hist:
        if op[0] == 'start':
            key = (op[2], len(op[3]))
            for i, (q, k) in enumerate(live):
                if q == op[1]:
                    for (q2, k2) in live[i + 1:]:
                        if k2 == k:
                            pending.add(q2)
                    live.pop(i)
                    pending.discard(q)
                    break
            if any(k == key and q in pending for q, k in live):
                events += 1
            live.append((op[1], key))
            starts[key] = starts.get(key, 0) + 1
        elif op[0] in ('close', 'drain'):
            for i, (q, k) in enumerate(live):
                if q == op[1]:
                    for (q2, k2) in live[i + 1:]:
                        if k2 == k:
                            pending.add(q2)
                    live.pop(i)
                    pending.discard(q)
                    break
    return (max(starts.values()) if starts else 0), events


# ------------------------------------------------------------------ family SC: many generators suspended deep inside recursions

def _peano(n, tail):
    t = tail
    for _ in range(n):
        t = ['f', 's', [t]]
    return t

def sc_program(rng, ladder=0):
    """the recursive predicates of one scale case (names of its own, never in FACT_PREDS / RULE_PREDS): the script and a
    list of query makers  mk(depth, fresh) -> (name, args, steps)  such that after `steps` answers the generator is suspended
    about `depth` calls deep; fin = the query is finite"""
    v = lambda i: ['v', i]
    z = ['a', 'z']
    s1 = lambda t: ['f', 's', [t]]
    script = [
        # n(z). n(s(X)) :- n(X).
        ['n', 1, [[[z], []], [[s1(v(0))], [['n', [v(0)]]]]]],
        # l([], z). l([E|T], s(N)) :- c(E), l(T, N).        (c/1: dynamic facts of the engine)
        ['l', 2, [[[['a', '[]'], z], []], [[terms.mklist([v(0)], v(1)), s1(v(2))], [['c', [v(0)]], ['l', [v(1), v(2)]]]]]],
        # m(z, Y, Y). m(s(X), Y, s(Z)) :- m(X, Y, Z).
        ['m', 3, [[[z, v(0), v(0)], []], [[s1(v(0)), v(1), s1(v(2))], [['m', [v(0), v(1), v(2)]]]]]],
        # w(X, X). w(X, Z) :- k(X, Y), w(Y, Z).                (k/2: a chain of dynamic facts)
        ['w', 2, [[[v(0), v(0)], []], [[v(0), v(2)], [['k', [v(0), v(1)]], ['w', [v(1), v(2)]]]]]],
        # h(X) :- c(X).                                          (a shallow rule for the probes)
        ['h', 1, [[[v(0)], [['c', [v(0)]]]]]],
    ]
    # j<i>(X) :- c(X), j<i+1>(X).  ...  j<ladder>(X).     a ladder of `ladder` different predicates: the query j<ladder-d>(X) has
    # its first answer d calls deep at a cost linear in d (small terms only), and every level keeps two calls alive (j<i>/1 and
    # the c/1 it iterates) - for cases in which the SUM of the depths of very many suspended generators has to be large
    for i in range(ladder):
        script.append(['j%d' % i, 1, [[[v(0)], [['c', [v(0)]], ['j%d' % (i + 1), [v(0)]]]]]])
    if ladder:
        script.append(['j%d' % ladder, 1, [[[v(0)], []]]])
    def q_ladder(d, fresh):
        return 'j%d' % (ladder - min(d, ladder)), [v(fresh(1)[0])], 1 + rng.choice([0, 0, 0, 1])
    def q_enum(d, fresh):          # answer number i is found i calls deep
        return 'n', [v(fresh(1)[0])], d
    def q_down(d, fresh):          # n(s^d(X)): already the FIRST answer is found d calls deep
        return 'n', [_peano(d, v(fresh(1)[0]))], 1 + rng.choice([0, 0, 1, 3])
    def q_list(d, fresh):          # lists of growing length over the first c/1 fact
        a, b = fresh(2)
        return 'l', [v(a), v(b)], d
    def q_split(d, fresh):         # the d+1 ways to split s^d(z): answer i is i calls deep; finite
        a, b = fresh(2)
        return 'm', [v(a), v(b), _peano(d + rng.choice([0, 1, 5]), z)], d
    def q_chain(d, fresh):         # walks the chain k(0,1), k(1,2), ..: answer i is i calls deep; finite
        return 'w', [['i', 0], v(fresh(1)[0])], d
    def q_walk_to(d, fresh):       # w(0, d) over the chain of facts: ONE answer, d calls deep; every level keeps two calls
        return 'w', [['i', 0], ['i', d]], 1      # alive (w/2 and the k/2 it is iterating): cheap way to a large total depth
    def pick(dlo, dhi, fresh, cheap=False):
        # reaching depth d costs one step with q_down / q_walk_to and d steps (of growing cost) with the enumerations, which
        # therefore stay in the lower third of the depth range (cheap: hardly any enumerations - cases with very many generators)
        r = rng.random()
        if cheap:
            return (q_ladder if (r < 0.92 and ladder) else q_walk_to if r < 0.96 else q_down)(rng.randrange(dlo, dhi + 1), fresh)
        if r < 0.45:
            return q_down(rng.randrange(dlo, dhi + 1), fresh)
        return rng.choice([q_enum, q_list, q_split, q_chain])(rng.randrange(dlo, dlo + (dhi - dlo) // 3 + 1), fresh)
    return script, pick

def gen_sc_history(rng, case, K, dlo, dhi):
    """K generators suspended at the same time, each between dlo and dhi calls deep in a recursion (opened and advanced in
    chunks in a random, non-nested order), then probe queries (shallow ones and a new deep one) that must give what they
    give alone; some of the suspended generators are finished oldest-first / at random, the others go on a few answers, more
    probes; everything is closed at the end."""
    v = lambda i: ['v', i]
    ops = []
    nextvar = [0]
    def fresh(n):
        r = list(range(nextvar[0], nextvar[0] + n))
        nextvar[0] += n
        return r
    _, pick0 = case['_sc']
    cheap = K >= 60
    pick = (lambda lo, hi, fr: pick0(lo, hi, fr, True)) if cheap else pick0
    consts = rng.sample(ATOMS, rng.choice([1, 2, 3]))
    for c in consts:
        ops.append(['assert', True, 'c', [['a', c]], rng.randrange(3)])
    chain = dhi + 8
    for i in range(chain):
        ops.append(['assert', True, 'k', [['i', i], ['i', i + 1]], 0])
    ops.append(['load', True, 0])
    # the K deep generators
    plan = []
    for q in range(K):
        name, args, steps = pick(dlo, dhi, fresh)
        ops_q = [['start', q, name, args]]
        left = steps
        for _ in range(rng.choice([1, 1, 2, 3])):
            if left > 1:
                n = rng.randrange(1, left)
                ops_q.append(['adv', q, n])
                left -= n
        ops_q.append(['adv', q, left])
        plan.append(ops_q)
    order = rng.random()
    if order < 0.3:                # one after the other
        for o in plan:
            ops.extend(o)
    else:                          # chunks of different generators interleaved at random (per generator in order)
        idx = [0] * K
        pending = [q for q in range(K) for _ in plan[q]]
        rng.shuffle(pending)
        for q in pending:
            ops.append(plan[q][idx[q]])
            idx[q] += 1
    live = list(range(K))
    nslot = [K]
    def probes():
        for _ in range(rng.choice([1, 2, 3])):
            q = nslot[0]
            nslot[0] += 1
            r = rng.random()
            if r < 0.35:
                ops.append(['start', q, 'c', [v(fresh(1)[0])]])
                ops.append(['drain', q])
            elif r < 0.55:
                ops.append(['start', q, 'h', [v(fresh(1)[0])]])
                ops.append(['next', q])
                ops.append(['next', q])
            elif r < 0.65:
                ops.append(['start', q, 'k', [['i', rng.randrange(chain)], v(fresh(1)[0])]])
                ops.append(['drain', q])
            else:
                name, args, steps = pick(dlo, dhi, fresh)
                ops.append(['start', q, name, args])
                ops.append(['adv', q, steps])
                if rng.random() < 0.5:
                    ops.append(['close', q, rng.randrange(2)])
                else:
                    live.append(q)
    probes()
    for _ in range(rng.choice([1, 2, 3])):
        r = rng.random()
        if r < 0.5 and len(live) > 1:
            for _ in range(rng.randrange(1, max(2, len(live) // 2))):
                q = live[0] if rng.random() < 0.5 else rng.choice(live)
                live.remove(q)
                ops.append(['close', q, rng.randrange(2)])
        elif live:
            for q in rng.sample(live, min(len(live), rng.choice([1, 2, 4]))):
                ops.append(['adv', q, rng.choice([1, 2, 3])])
        if rng.random() < 0.3:
            ops.append(['peek', [v(rng.randrange(nextvar[0])) for _ in range(2)]])
        probes()
    rng.shuffle(live)
    for q in live:
        ops.append(['close', q, rng.randrange(2)])
    q = nslot[0]
    ops.append(['start', q, 'h', [v(fresh(1)[0])]])
    ops.append(['drain', q])
    return ops

def gen_sc_case(rng, K, dlo, dhi, model):
    """engine 0: the scale history; engine 1: a smaller one over the same program text with other facts (model: the in-Coq
    evaluation is the reference - only for small depths; otherwise the reference is the metamorphic oracle: every
    generator observes what it observes when it is the only one on an engine with the same database history)"""
    case = {'neng': 2, 'writes': False, 'family': 'sc', 'K': K, 'depth': [dlo, dhi]}
    case['_sc'] = sc_program(rng, ladder=(dhi if K >= 60 else 0))
    case['scripts'] = [case['_sc'][0]]
    h0 = gen_sc_history(rng, case, K, dlo, dhi)
    h1 = gen_sc_history(rng, case, rng.choice([2, 3]), min(dlo, 5), min(dhi, 12))
    del case['_sc']
    case['hist'] = [h0, h1]
    case['sched'] = gen_schedule(rng, [len(h0), len(h1)])
    if not model:
        case['nomodel'] = True
        case['light'] = True
    return case


# ------------------------------------------------------------------ family SH: the SAME input objects given to several engines

SH_NAMES = ['w', 'g', 't']
SH_KINDS = ['def', 'def', 'method', 'callable', 'wraps', 'partial']

def rand_plain(rng, depth=1):
    """a ground term that belongs to no engine: numbers, strings, compound terms over them (no Atom objects)"""
    r = rng.random()
    if depth <= 0 or r < 0.6:
        return ['i', rng.choice([0, 1, 7, 42])] if rng.random() < 0.6 else ['s', rng.choice(['a', 'x y', '', 'blue'])]
    f, n = rng.choice([('f', 1), ('g', 2), ('f', 2)])
    return ['f', f, [rand_plain(rng, depth - 1) for _ in range(n)]]

def sh_styles(f):
    """the registration styles under which every call the harness makes is well defined (a fixed-signature function is only
    registered under its own arity, a (first, *rest) function never under arity 0 / variable arity)"""
    if f['sig'] == 'star':
        return ['infer', 'infer', 'infer', 'variadic', 'variadic', ['explicit', 0], ['explicit', 1], ['explicit', 2], ['explicit', 3]]
    if f['sig'] == 'first_star':
        return ['infer', 'infer', 'infer', ['explicit', 1], ['explicit', 2], ['explicit', 3]]
    return ['infer', 'infer', ['explicit', f['sig'][1]]]

def gen_sh_history(rng, case, eid, nsteps):
    ops = []
    nextvar = [0]
    nslot = [0]
    def fresh(n):
        r = list(range(nextvar[0], nextvar[0] + n))
        nextvar[0] += n
        return r
    def probe(name, ar):
        q = nslot[0] % 3
        nslot[0] += 1
        ops.append(['start', q, name, [['v', v] for v in fresh(ar)]])
        ops.append(['drain', q] if rng.random() < 0.8 else ['next', q])
    def probe_all(name):
        for ar in range(4):
            probe(name, ar)
    funcs, tms = case['shared']['funcs'], case['shared']['terms']
    for _ in range(rng.choice([0, 1, 2])):
        name, ar = rng.choice([('p', 1), ('p', 2), ('q', 1)])
        ops.append(['assert', True, name, [rand_ground(rng, 1) for _ in range(ar)], rng.randrange(3)])
    if tms and case.get('sh_common_term') is not None:
        # the same argument objects go into every engine of the case (each engine then adds / reads on its own)
        ti = case['sh_common_term']
        ops.append(['assertshared', rng.random() < 0.7, 'p' if len(tms[ti]) == 1 else rng.choice(['p', 'q']), ti, rng.randrange(3)])
        if rng.random() < 0.5:
            probe(ops[-1][2], len(tms[ti]))
    used = set()
    n0 = len(ops)
    while len(ops) - n0 < nsteps:
        r = rng.random()
        if r < 0.42 or not used:
            fi = rng.randrange(len(funcs))
            name = SH_NAMES[fi % len(SH_NAMES)] if rng.random() < 0.8 else rng.choice(SH_NAMES)
            ops.append(['regshared', name, rng.choice(sh_styles(funcs[fi])), fi])
            used.add(name)
            if rng.random() < 0.6:
                probe_all(name)
        elif r < 0.56 and tms:
            ti = rng.randrange(len(tms))
            ops.append(['assertshared', rng.random() < 0.7, rng.choice(['p', 'q']), ti, rng.randrange(3)])
            if rng.random() < 0.4:
                probe(ops[-1][2], len(tms[ti]))
        elif r < 0.66 and case['scripts']:
            ops.append(['load', rng.random() < 0.7, 0])
        elif r < 0.74:
            ops.append(['clear'])          # at any moment: between a registration and its probes, with a generator suspended
        elif r < 0.80:
            name = rng.choice(SH_NAMES)
            ar = rng.choice([1, 2])
            ops.append(['register', name, rng.choice([None, ar]), [[rand_ground(rng, 1) for _ in range(ar)] for _ in range(rng.choice([1, 2]))]])
            used.add(name)
        elif r < 0.9:
            probe_all(rng.choice(sorted(used)))
        else:
            name, ar = rng.choice([('p', 1), ('p', 2), ('q', 1), ('q', 2)] + [tuple(k) for k in RULE_PREDS])
            probe(name, ar)
    for name in SH_NAMES:
        if name in used:
            probe_all(name)
        else:
            probe(name, rng.randrange(4))
    for name, ar in [('p', 1), ('p', 2), ('q', 1), ('q', 2)]:
        ops.append(['start', 3, name, [['v', v] for v in fresh(ar)]])
        ops.append(['drain', 3])
    return ops

def gen_sh_case(rng):
    neng = rng.choice([2, 3, 3])
    funcs = []
    for _ in range(rng.choice([1, 2, 2, 3])):
        sig = rng.choice(['star', 'star', 'first_star', 'first_star', ['fixed', rng.choice([1, 2, 3])]])
        if sig == 'star':
            rows = [[rand_plain(rng) for _ in range(rng.choice([0, 1, 1, 2, 2, 3]))] for _ in range(rng.choice([2, 3, 4]))]
        elif sig == 'first_star':
            rows = [[rand_plain(rng) for _ in range(rng.choice([1, 1, 2, 2, 3]))] for _ in range(rng.choice([2, 3, 4]))]
        else:
            rows = [[rand_plain(rng) for _ in range(sig[1])] for _ in range(rng.choice([1, 2, 3]))]
        funcs.append({'sig': sig, 'kind': rng.choice(SH_KINDS), 'rows': rows})
    tms = [[rand_plain(rng, 2) for _ in range(rng.choice([1, 2]))] for _ in range(rng.choice([1, 2, 3]))]
    case = {'neng': neng, 'writes': False, 'family': 'sh', 'scripts': [gen_script(rng)], 'shared': {'funcs': funcs, 'terms': tms}}
    case['sh_common_term'] = rng.randrange(len(tms)) if rng.random() < 0.5 else None
    case['hist'] = [gen_sh_history(rng, case, e, rng.choice([4, 6, 8, 12])) for e in range(neng)]
    case['sched'] = gen_schedule(rng, [len(h) for h in case['hist']])
    return case

def shared_profile(case):
    """(function objects registered on >= 2 engines, of these: under different effective arities, argument tuples asserted
    into >= 2 engines)"""
    regs, asserts = {}, {}
    for e, h in enumerate(case['hist']):
        for op in h:
            if op[0] == 'regshared':
                regs.setdefault(op[3], {}).setdefault(e, set()).add(json.dumps(op[2]))
            if op[0] == 'assertshared':
                asserts.setdefault(op[3], set()).add(e)
    multi = [f for f, per in regs.items() if len(per) >= 2]
    mixed = [f for f in multi if len(set().union(*regs[f].values())) >= 2]
    return len(multi), len(mixed), sum(1 for es in asserts.values() if len(es) >= 2)

def gen(rng, tier):
    quick = tier == 'quick'
    n = 185 if quick else 2200
    cases = [gen_case(rng, big=(not quick and i % 10 == 0)) for i in range(n)]
    # the new families get random generators of their own, so that the ordinary cases of a seed stay what they were
    r2 = random.Random(rng.random())
    nl = [gen_nl_case(r2) for _ in range(45 if quick else 400)]
    mini = [gen_sc_case(r2, r2.choice([3, 5, 8]), 2, r2.choice([6, 10, 14]), True) for _ in range(6 if quick else 40)]
    ks = [5, 20, 20, 40] if quick else [5, 5, 20, 20, 20, 40, 40, 40, 20, 5, 40, 20]
    full = [gen_sc_case(r2, k, 100, 200, False) for k in ks]
    # round 4 (own random streams again): the same function / term / script objects given to several engines, and scale
    # cases in which the SUM of the depths of the suspended generators is large (K x depth calls alive at once)
    r3 = random.Random(r2.random())
    sh = [gen_sh_case(r3) for _ in range(30 if quick else 400)]
    r4 = random.Random(r3.random())
    full += [gen_sc_case(r4, k, lo, hi, False) for k, lo, hi in ([(150, 200, 250)] if quick else [(150, 200, 250), (100, 150, 250), (250, 150, 200), (400, 60, 120)])]
    if quick:
        # one case of medium depth, still inside what the Coq model evaluates in seconds
        mini.append(gen_sc_case(r2, 5, 8, 24, True))
    # family MB (own random stream): the mixed histories with rule bodies and queries that use \\=, once, call/N, findall
    r5 = random.Random(r4.random())
    mb = [gen_case(r5, big=(not quick and i % 10 == 0), meta=True) for i in range(40 if quick else 400)]
    sh = sh + mb
    # the expensive cases are spread over the list (the implementation runs in chunks of consecutive cases)
    extra = nl + mini + sh
    r3.shuffle(extra)
    step = max(1, len(cases) // (len(extra) + 1))
    for i, c in enumerate(extra):
        cases.insert(min(len(cases), (i + 1) * step + i), c)
    step = max(1, len(cases) // (len(full) + 1))
    for i, c in enumerate(full):
        cases.insert(min(len(cases), i * step + i), c)
    return cases

def builtin_corpus():
    v = lambda i: ['v', i]
    a = lambda s: ['a', s]
    f = lambda n, *xs: ['f', n, list(xs)]
    L = []
    # same script text in two engines, rule bodies consult engine-specific facts
    script = [['r', 1, [[[v(0)], [['p', [v(0), v(1)]], ['q', [v(1)]]]]]]]
    h0 = [['assert', True, 'p', [a('a'), a('b')], 0], ['assert', True, 'p', [a('c'), a('d')], 1], ['assert', True, 'q', [a('b')], 2],
          ['assert', True, 'q', [a('d')], 0], ['load', True, 0], ['start', 0, 'r', [v(0)]], ['next', 0], ['next', 0], ['next', 0]]
    h1 = [['assert', True, 'p', [a('x'), f('f', v(0), v(0))], 0], ['assert', True, 'q', [f('f', v(1), a('z'))], 1], ['load', True, 0],
          ['start', 0, 'r', [v(2)]], ['next', 0], ['start', 1, 'p', [v(3), v(4)]], ['next', 1], ['next', 0], ['next', 1], ['atom', 'a']]
    L.append({'neng': 2, 'scripts': [script], 'hist': [h0, h1],
              'sched': [0, 1, 0, 1, 0, 1, 0, 1, 0, 1, 0, 1, 0, 1, 0, 1, 0, 1, 1]})
    # facts with variables nested in structures, two suspended queries of one engine
    h0 = [['assert', True, 'p', [f('f', v(0), f('g', v(0), v(1)))], 0], ['assert', True, 'p', [f('f', a('a'), v(2))], 0],
          ['start', 0, 'p', [v(3)]], ['start', 1, 'p', [f('f', v(4), v(5))]], ['next', 0], ['next', 1], ['next', 0], ['next', 1],
          ['next', 0], ['next', 1]]
    h1 = [['atom', 'a'], ['clear'], ['atom', 'a'], ['assert', False, 'p', [a('b')], 1], ['start', 0, 'p', [v(0)]], ['drain', 0]]
    L.append({'neng': 2, 'scripts': [], 'hist': [h0, h1], 'sched': [0, 0, 0, 1, 0, 1, 0, 1, 0, 1, 0, 1, 0, 1, 0, 0]})
    # three engines: the same name registered with different rows, the same script chained twice, clear of one engine while
    # the generators of the others are suspended; variables are looked at between the steps
    script = [['t', 1, [[[v(0)], [['w', [v(0), v(1)]]]], [[a('z')], []]]]]
    def hist(x, y, clear):
        h = [['register', 'w', 2, [[a(x), a(y)], [a(y), a(x)]]], ['load', False, 0], ['load', False, 0], ['atom', x],
             ['start', 0, 't', [v(0)]], ['next', 0], ['peek', [v(0), v(5)]], ['start', 1, 'w', [v(1), v(2)]], ['next', 1],
             ['peek', [f('f', v(0), v(1), v(2))]], ['next', 0], ['next', 1], ['next', 0]]
        if clear:
            h += [['clear'], ['atom', x], ['next', 0], ['start', 2, 't', [v(3)]], ['drain', 2]]
        else:
            h += [['next', 0], ['next', 0], ['atom', x], ['close', 1, 1], ['peek', [v(1), v(2)]]]
        return h
    hs = [hist('a', 'b', False), hist('c', 'd', True), hist('a', 'd', False)]
    sched = []
    for k in range(max(len(h) for h in hs)):
        for e in (2, 0, 1):
            if k < len(hs[e]):
                sched.append(e)
    L.append({'neng': 3, 'scripts': [script], 'hist': hs, 'sched': sched})
    # a call suspended on one of its FACTS keeps the definitions that were there when it started: load (overwrite and
    # chained), register and clear between two next() of the same generator, differently in the two engines
    s_old = [['p', 1, [[[a('old')], []]]]]
    s_new = [['p', 1, [[[a('new')], []], [[a('newer')], []]]]]
    h0 = [['assert', True, 'p', [a('fact')], 0], ['load', True, 0], ['start', 0, 'p', [v(0)]], ['next', 0], ['load', True, 1],
          ['next', 0], ['next', 0], ['start', 1, 'p', [v(1)]], ['drain', 1]]
    h1 = [['assert', True, 'p', [a('fact')], 1], ['start', 0, 'p', [v(0)]], ['next', 0], ['load', False, 1], ['register', 'p', 1, [[a('reg')]]],
          ['next', 0], ['start', 1, 'p', [v(1)]], ['next', 1], ['clear'], ['next', 1], ['next', 1], ['start', 2, 'p', [v(2)]], ['drain', 2]]
    sched = []
    for k in range(max(len(h0), len(h1))):
        for e, h in ((0, h0), (1, h1)):
            if k < len(h):
                sched.append(e)
    L.append({'neng': 2, 'scripts': [s_old, s_new], 'hist': [h0, h1], 'sched': sched})
    def rr(*hs):
        sched = []
        for k in range(max(len(h) for h in hs)):
            for e, h in enumerate(hs):
                if k < len(h):
                    sched.append(e)
        return sched
    # clause bodies that write the fact store (Coq: C04_nonvacuous_footprint): w(X) :- p(X), assertz(q(X)), retract(q(c)).
    # the same script in both engines, other facts; in engine 0 a reader of p/1 is suspended between the writer's steps
    wscript = [['w', 1, [[[v(0)], [['p', [v(0)]], ['assertz', [f('q', v(0))]], ['retract', [f('q', a('c'))]]]]]]]
    h0 = [['assert', True, 'p', [a('a')], 0], ['assert', True, 'p', [a('b')], 1], ['assert', True, 'q', [a('c')], 2],
          ['assert', True, 'q', [a('c')], 0], ['load', True, 0], ['start', 0, 'p', [v(0)]], ['start', 1, 'w', [v(1)]],
          ['next', 1], ['next', 0], ['next', 1], ['next', 0], ['next', 1], ['next', 0], ['next', 1],
          ['start', 2, 'q', [v(2)]], ['drain', 2]]
    h1 = [['assert', True, 'p', [a('z')], 0], ['assert', False, 'q', [a('c')], 1], ['load', True, 0], ['start', 0, 'w', [v(0)]],
          ['next', 0], ['peek', [v(0)]], ['start', 1, 'q', [v(1)]], ['drain', 1], ['next', 0], ['start', 1, 'q', [v(1)]], ['drain', 1]]
    L.append({'neng': 2, 'writes': True, 'scripts': [wscript], 'hist': [h0, h1], 'sched': rr(h0, h1)})
    # the witness of C04_disjoint_queries_alone_writes_refuted: a reader of p/1 that has not been resumed yet next to
    # assertz(p(b)) run as a query sees a, b; the same reader alone (engine 1) sees a
    h0 = [['assert', True, 'p', [a('a')], 0], ['start', 0, 'p', [v(0)]], ['start', 1, 'assertz', [f('p', a('b'))]],
          ['next', 1], ['next', 0], ['next', 0], ['next', 0]]
    h1 = [['assert', True, 'p', [a('a')], 0], ['start', 0, 'p', [v(0)]], ['next', 0], ['next', 0], ['next', 0]]
    L.append({'neng': 2, 'writes': True, 'scripts': [], 'hist': [h0, h1], 'sched': rr(h0, h1)})
    # a suspended retract (query on the builtin) loses no concurrent update: removals by another generator and an assert of
    # the caller between its steps; retract by identity in the current list
    i_ = lambda n: ['i', n]
    h0 = [['assert', True, 'p', [i_(1)], 0], ['assert', True, 'p', [i_(2)], 0], ['assert', True, 'p', [i_(2)], 0], ['assert', True, 'p', [i_(3)], 0],
          ['start', 0, 'retract', [f('p', v(0))]], ['next', 0], ['peek', [v(0)]], ['assert', True, 'p', [i_(4)], 1],
          ['start', 1, 'retract', [f('p', i_(2))]], ['next', 1], ['next', 0], ['peek', [v(0)]], ['next', 1], ['next', 0], ['next', 0],
          ['start', 2, 'p', [v(2)]], ['drain', 2]]
    h1 = [['assert', True, 'p', [f('f', v(0))], 0], ['start', 0, 'asserta', [f('p', f('f', v(1)))]], ['start', 1, 'retractall', [f('p', f('f', a('a')))]],
          ['next', 0], ['start', 2, 'p', [v(2)]], ['next', 2], ['next', 1], ['next', 2], ['next', 2], ['start', 2, 'p', [v(3)]], ['drain', 2]]
    L.append({'neng': 2, 'writes': True, 'scripts': [], 'hist': [h0, h1], 'sched': rr(h0, h1)})
    # generator lifetimes that do not nest, on a fact with a shared variable (Coq: C04_nonvacuous_nonlifo): p(X,X);
    # g0 = p(V0,a), g1 = p(V1,b) both suspended on the fact, the OLDER one is closed, g2 = p(V2,c) runs while g1 is still
    # suspended; engine 1: the same through a rule, the older generator exhausted instead of closed, compatible patterns too
    h0 = [['assert', True, 'p', [v(9), v(9)], 0], ['start', 0, 'p', [v(0), a('a')]], ['next', 0], ['start', 1, 'p', [v(1), a('b')]],
          ['next', 1], ['close', 0, 0], ['start', 2, 'p', [v(2), a('c')]], ['next', 2], ['next', 1], ['next', 2], ['next', 1]]
    h1 = [['assert', True, 'p', [f('f', v(8)), v(8)], 1], ['assert', True, 'p', [v(7), i_(1)], 2], ['load', True, 0],
          ['start', 0, 't', [v(0)]], ['next', 0], ['start', 1, 'p', [f('f', a('b')), v(1)]], ['next', 1], ['next', 0], ['next', 0],
          ['start', 2, 'p', [f('f', v(2)), a('c')]], ['next', 2], ['start', 0, 'p', [v(3), v(4)]], ['next', 0], ['peek', [v(1), v(2), v(3)]],
          ['next', 1], ['next', 2], ['next', 1], ['drain', 0], ['next', 2]]
    L.append({'neng': 2, 'family': 'nl', 'scripts': [[['t', 1, [[[v(0)], [['p', [v(0), v(1)]]]]]]]], 'hist': [h0, h1], 'sched': rr(h0, h1)})
    # the meta-call builtins (Coq: C04_nonvacuous_meta, the same schedule): u(L) :- findall(s(X,Y), p(X), L).  f(X) :- once(p(X)).
    # n(X) :- p(X), X \\= a.  c(X) :- G = p, call(G, X).  loaded into both engines over different p/1
    mscript = [['u', 1, [[[v(0)], [['findall', [f('s', v(1), v(2)), f('p', v(1)), v(0)]]]]]],
               ['f', 1, [[[v(0)], [['once', [f('p', v(0))]]]]]],
               ['n', 1, [[[v(0)], [['p', [v(0)]], ['\\=', [v(0), a('a')]]]]]],
               ['c', 1, [[[v(0)], [['=', [v(1), a('p')]], ['call', [v(1), v(0)]]]]]]]
    h0 = [['assert', True, 'p', [a('a')], 0], ['assert', True, 'p', [a('b')], 1], ['load', True, 0], ['start', 0, 'c', [v(0)]], ['next', 0],
          ['start', 1, 'u', [v(1)]], ['next', 1], ['start', 2, 'f', [v(2)]], ['next', 2], ['next', 2], ['next', 0], ['next', 0],
          ['start', 3, 'n', [v(3)]], ['drain', 3], ['atom', '=']]
    h1 = [['assert', True, 'p', [a('c')], 0], ['load', True, 0], ['start', 0, 'n', [v(0)]], ['next', 0], ['start', 1, 'u', [v(1)]], ['next', 1], ['next', 0]]
    L.append({'neng': 2, 'family': 'mb', 'meta': True, 'scripts': [mscript], 'hist': [h0, h1],
              'sched': [0, 1, 0, 0, 1, 0, 1, 0, 1, 0, 0, 1, 1, 0, 0, 0, 0, 1, 0, 0, 0, 0]})
    # writes inside findall / once while a reader of the key is suspended; a user definition of '=' seen by \\= ;
    # findall and once as queries of their own; nested findall; the bag partially bound
    mscript2 = [['t', 1, [[[v(0)], [['findall', [v(1), f('retract', f('q', v(1))), v(0)]], ['once', [f('assertz', f('q', a('n')))]]]]]],
                ['s', 2, [[[v(0), v(1)], [['findall', [f('g', v(2), v(3)), f('findall', v(4), f('p', v(4)), v(3)), v(0)]],
                                          ['findall', [v(5), f('once', f('p', v(5))), terms.mklist([v(1)], v(6))]]]]]]]
    h0 = [['assert', True, 'q', [a('a')], 0], ['assert', True, 'q', [a('b')], 0], ['assert', True, 'p', [a('x')], 0], ['assert', True, 'p', [a('y')], 0],
          ['load', True, 0], ['start', 0, 'q', [v(0)]], ['next', 0], ['start', 1, 't', [v(1)]], ['next', 1], ['next', 0], ['next', 0],
          ['start', 2, 's', [v(2), v(3)]], ['next', 2], ['peek', [v(2), v(3)]], ['next', 2],
          ['start', 1, 'findall', [f('f', v(4), v(5)), f('p', v(4)), v(6)]], ['next', 1], ['peek', [v(4), v(6)]],
          ['start', 2, 'q', [v(7)]], ['drain', 2]]
    h1 = [['assert', True, 'p', [a('x')], 0], ['start', 0, '\\=', [a('a'), a('b')]], ['next', 0], ['assert', True, '=', [a('a'), a('b')], 0],
          ['start', 1, '\\=', [a('a'), a('b')]], ['next', 1], ['next', 0], ['start', 2, 'once', [f('p', v(0))]], ['next', 2], ['peek', [v(0)]], ['next', 2],
          ['start', 2, 'call', [a('p'), v(1)]], ['drain', 2]]
    L.append({'neng': 2, 'family': 'mb', 'meta': True, 'writes': True, 'scripts': [mscript2], 'hist': [h0, h1], 'sched': rr(h0, h1)})
    return L

# ------------------------------------------------------------------ reporting

def _suspended_profile(case):
    """max number of generators suspended on an answer at the same time is approximated statically:
    slots that were started and had at least one next, not yet closed/drained"""
    active = set()
    best = 0
    for e, op in schedule_ops(case):
        if op[0] in ('next', 'adv'):
            active.add((e, op[1]))
        elif op[0] in ('close', 'drain', 'start'):
            active.discard((e, op[1]))
        best = max(best, len(active))
    return best

def _contents(case):
    per = []
    for h in case['hist']:
        d = {}
        for op in h:
            if op[0] == 'assert':
                d.setdefault((op[2], len(op[3])), []).append(op[3])
        per.append(d)
    return per

def nontrivial(case, io):
    if not isinstance(io, dict):
        return False
    per = _contents(case)
    differ = False
    for i in range(len(per)):
        for j in range(i + 1, len(per)):
            for k in per[i]:
                if k in per[j] and per[i][k] != per[j][k]:
                    differ = True
    if case.get('family') == 'nl':
        return any(st >= 3 and ev >= 1 for st, ev in map(nonlifo_profile, case['hist']))
    if case.get('family') == 'sc':
        return _suspended_profile(case) >= 3
    if case.get('family') == 'sh':
        return shared_profile(case)[1] >= 1 or shared_profile(case)[2] >= 1
    return differ and _suspended_profile(case) >= 2

def describe(case):
    def sop(op):
        def st(t):
            return terms.show_term(t)
        k = op[0]
        if k == 'assert':
            return '%s %s(%s)' % ('assertz' if op[1] else 'asserta', op[2], ','.join(st(a) for a in op[3]))
        if k == 'retract':
            return 'retract-all-matching %s(%s)' % (op[1], ','.join(st(a) for a in op[2]))
        if k == 'start':
            return 'g%d = query %s(%s)' % (op[1], op[2], ','.join(st(a) for a in op[3]))
        if k == 'register':
            return 'register %s/%s rows=%d' % (op[1], op[2], len(op[3]))
        if k == 'load':
            return 'load script %d (overwrite=%s)' % (op[2], op[1])
        if k == 'regshared':
            f = case['shared']['funcs'][op[3]]
            return 'register_function(%s, SHARED function object #%d [%s, signature %s, %d rows], arity=%s)' % (
                op[1], op[3], f.get('kind', 'def'), f['sig'], len(f['rows']),
                {'infer': 'None', 'variadic': '-1'}.get(op[2]) if isinstance(op[2], str) else op[2][1])
        if k == 'assertshared':
            return '%s %s(SHARED argument objects #%d: %s)' % ('assertz' if op[1] else 'asserta', op[2], op[3],
                                                               ','.join(st(a) for a in case['shared']['terms'][op[3]]))
        return ' '.join(str(x) for x in op)
    return {'scripts': [pl_script(s) for s in case['scripts']],
            'schedule': ['engine %d: %s' % (e, sop(op)) for e, op in schedule_ops(case)]}

def _without(case, e, drop):
    """the case without the operations of engine e whose positions are in drop (their places in the schedule go too)"""
    c = {k: v for k, v in case.items() if k != '_compiled'}
    c['hist'] = [list(h) for h in case['hist']]
    c['hist'][e] = [op for k, op in enumerate(case['hist'][e]) if k not in drop]
    sched = []
    seen = 0
    for x in case['sched']:
        if x == e:
            seen += 1
            if seen - 1 in drop:
                continue
        sched.append(x)
    c['sched'] = sched
    return c

def _shrink_sc(case):
    """scale family (every candidate costs seconds): whole engines, then all operations of groups of generator slots"""
    for e in range(case['neng']):
        if len(case['hist'][e]) > 1:
            yield _without(case, e, set(range(len(case['hist'][e]))))
    for e in range(case['neng']):
        h = case['hist'][e]
        slots = sorted({op[1] for op in h if op[0] in SLOT_OPS})
        for parts in (2, 4, 8):
            if len(slots) >= parts:
                step = len(slots) // parts
                for i in reversed(range(parts)):
                    grp = set(slots[i * step: len(slots) if i == parts - 1 else (i + 1) * step])
                    yield _without(case, e, {k for k, op in enumerate(h) if op[0] in SLOT_OPS and op[1] in grp})

SHRINK_LEFT = [48]     # candidates this process may still try (a candidate costs an in-Coq evaluation, a scale case seconds)

def shrink(case):
    """candidates for the runner's greedy shrinking; bounded per check run (the runner shrinks up to five failing cases with
    up to 60 candidates each; with many failing cases of the new families that took longer than the search itself)"""
    cost = 4 if case.get('family') == 'sc' else 1
    for cand in (_shrink_sc(case) if case.get('family') == 'sc' else _shrink_ops(case)):
        if SHRINK_LEFT[0] < cost:
            return
        SHRINK_LEFT[0] -= cost
        yield cand

def _shrink_ops(case):
    # big pieces first: the whole history of one engine, halves and quarters of a history, then single operations
    # (later operations first)
    for e in range(case['neng']):
        n = len(case['hist'][e])
        if n > 1:
            yield _without(case, e, set(range(n)))
    for e in range(case['neng']):
        n = len(case['hist'][e])
        for parts in (2, 4, 8):
            if n >= 2 * parts:
                step = n // parts
                for i in reversed(range(parts)):
                    yield _without(case, e, set(range(i * step, n if i == parts - 1 else (i + 1) * step)))
    for e in range(case['neng']):
        for k in reversed(range(len(case['hist'][e]))):
            yield _without(case, e, {k})

def distribution(cases, obs):
    d = {'engines': {}, 'ops': {}, 'history_len': {}, 'max_suspended': {}, 'answers_per_next': {'ans': 0, 'done': 0},
         'raised': 0, 'scripts': {}, 'same_engine_oracle_runs': 0, 'same_engine_oracle_steps': 0,
         'model_not_comparable': MODEL_SKIPPED[0], 'model_cyclic_match_skipped': MODEL_CYCLIC[0],
         'cases_with_writing_bodies_loaded': 0, 'db_goals_in_loaded_bodies': 0, 'queries_on_db_builtins': 0,
         'mb_meta_goals_in_loaded_bodies': {}, 'mb_queries_on_meta_builtins': {}, 'mb_cases_with_meta_bodies_loaded': 0,
         'families': {}, 'model_by_family[compared,cyclic,fuel]': MODEL_BY_FAMILY,
         'nl_histories_with_nonlifo_restart_on_one_predicate': 0, 'nl_nonlifo_events': 0, 'nl_facts_with_variables': 0,
         'sh_function_objects_registered_on_several_engines': 0, 'sh_of_these_under_different_styles': 0,
         'sh_argument_objects_asserted_into_several_engines': 0, 'sh_registrations[kind sig style]': {},
         'sc_cases[K,depth,max_suspended,model]': [], 'sc_cases_with_an_exception': 0, 'sc_note': 'scale cases with depth 100-200 are not evaluated by the Coq model '
         '(unification fuel 300 / time); their reference is the metamorphic oracle: every generator observes what it observes '
         'as the only generator on an engine with the same database history (run d), plus fresh-alone = interleaved'}
    for c, o in zip(cases, obs):
        fam = c.get('family', 'mixed')
        d['families'][fam] = d['families'].get(fam, 0) + 1
        if fam == 'nl':
            for h in c['hist']:
                st, ev = nonlifo_profile(h)
                d['nl_histories_with_nonlifo_restart_on_one_predicate'] += 1 if (st >= 3 and ev) else 0
                d['nl_nonlifo_events'] += ev
                d['nl_facts_with_variables'] += sum(1 for op in h if op[0] == 'assert' and any(_has_var(a) for a in op[3]))
        if fam == 'sh':
            a_, b_, c_ = shared_profile(c)
            d['sh_function_objects_registered_on_several_engines'] += a_
            d['sh_of_these_under_different_styles'] += b_
            d['sh_argument_objects_asserted_into_several_engines'] += c_
            for h in c['hist']:
                for op in h:
                    if op[0] == 'regshared':
                        f = c['shared']['funcs'][op[3]]
                        kk = '%s %s %s' % (f.get('kind', 'def'), f['sig'] if isinstance(f['sig'], str) else 'fixed', op[2] if isinstance(op[2], str) else 'explicit')
                        d['sh_registrations[kind sig style]'][kk] = d['sh_registrations[kind sig style]'].get(kk, 0) + 1
        if fam == 'sc':
            d['sc_cases[K,depth,max_suspended,model]'].append([c['K'], c['depth'], _suspended_profile(c), not c.get('nomodel')])
            if isinstance(o, dict) and any(x[0] == 'raised' for run in o['interleaved'] for x in run):
                # an exception in a scale case (e.g. RecursionError of the harness' own stack) would switch the oracle off
                d['sc_cases_with_an_exception'] = d.get('sc_cases_with_an_exception', 0) + 1
        def _meta_count(t, acc):
            if t[0] == 'f':
                if t[1] in META_BUILTINS:
                    acc[t[1]] = acc.get(t[1], 0) + 1
                for a in t[2]:
                    _meta_count(a, acc)
        nm = 0
        for h in c['hist']:
            for op in h:
                if op[0] == 'load':
                    for _, _, cls in c['scripts'][op[2]]:
                        for _, body in cls:
                            for g in body:
                                before = sum(d['mb_meta_goals_in_loaded_bodies'].values())
                                _meta_count(['f', g[0], g[1]], d['mb_meta_goals_in_loaded_bodies'])
                                nm += sum(d['mb_meta_goals_in_loaded_bodies'].values()) - before
                if op[0] == 'start' and op[2] in META_BUILTINS:
                    d['mb_queries_on_meta_builtins'][op[2]] = d['mb_queries_on_meta_builtins'].get(op[2], 0) + 1
        d['mb_cases_with_meta_bodies_loaded'] += 1 if nm else 0
        nw = 0
        for h in c['hist']:
            for op in h:
                if op[0] == 'load':
                    nw += sum(1 for _, _, cls in c['scripts'][op[2]] for _, body in cls for g in body if g[0] in DB_BUILTINS)
                if op[0] == 'start' and op[2] in DB_BUILTINS:
                    d['queries_on_db_builtins'] += 1
        d['db_goals_in_loaded_bodies'] += nw
        d['cases_with_writing_bodies_loaded'] += 1 if nw else 0
        if isinstance(o, dict):
            d['same_engine_oracle_runs'] += len(o.get('slots_alone', []))
            d['same_engine_oracle_steps'] += sum(len(x[2]) for x in o.get('slots_alone', []))
        d['engines'][str(c['neng'])] = d['engines'].get(str(c['neng']), 0) + 1
        d['scripts'][str(len(c['scripts']))] = d['scripts'].get(str(len(c['scripts'])), 0) + 1
        for h in c['hist']:
            b = str(len(h) // 10 * 10)
            d['history_len'][b] = d['history_len'].get(b, 0) + 1
            for op in h:
                d['ops'][op[0]] = d['ops'].get(op[0], 0) + 1
        m = str(_suspended_profile(c))
        d['max_suspended'][m] = d['max_suspended'].get(m, 0) + 1
        if isinstance(o, dict):
            for s in o['interleaved']:
                for x in s:
                    if x[0] in ('ans', 'done'):
                        d['answers_per_next'][x[0]] += 1
                    if x[0] == 'raised':
                        d['raised'] += 1
    return d
