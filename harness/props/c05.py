"""C05 - cut commits the clause and nothing else."""
from lib import semcheck, progs, progs_shapes, progs_r4
from lib.semcheck import impl, model_expr, compare, oracle, describe, shrink, IMPORTS

ID = 'C05'
THEOREMS = ['C05_cut_code_correct', 'C05_compiled_program_computes_reference', 'C05_cut_prunes_later_clauses', 'C05_no_cut_continues', 'C05_cut_local_to_predicate', 'C05_query_result_after_cut', 'C05_cut_spec_readable', 'C05_cut_first',
            'C05_cut_in_disjunction_branch', 'C05_cut_in_then_branch', 'C05_cut_in_else_branch', 'C05_cut_survives_continuation', 'C05_cut_continuation_backtracks']
CASE_TIMEOUT = 60
MODEL_NEEDS_IMPL = True
COQ_CHUNK = 20
RULE = ('random programs as for C01 whose bodies also contain ! at the top level of a body, in disjunction branches and in then/else branches '
        '(never inside a condition or under \\+), with predicates of 2-4 clauses, callers that have their own alternatives, leaf solution counts '
        '0/1/many, if-then-else and negation around. Compared as C01 (implementation / compiled-code model / SLD reference with cut). '
        'Non-trivial: the program contains a cut, some query has an answer, and the predicate with the cut has a later clause or a goal with '
        'several solutions to the left of the cut. Plus program shapes of lib/progs_shapes.py: clause bodies of 6-18 top-level goals (up to '
        'the nesting limit of the emitted Python) with cuts, cuts nested in ;/-> branches, if-then-else and negation at every position '
        'including the last ones, later clauses and caller alternatives; directly recursive predicates over lists / s(N) / acyclic graphs '
        'with random cut placement (base clause ending in !, cut before the recursive call), tail and non-tail recursion and alternatives at '
        'every level of the recursion.')
TRUSTED_BASE = []

N_LONG = {'quick': 50, 'thorough': 400}
N_REC = {'quick': 50, 'thorough': 400}
N_LIMIT = {'quick': 50, 'thorough': 400}

def gen(rng, tier):
    n = 220 if tier == 'quick' else 5000
    cases = []
    for _ in range(n):
        o = progs.Opts(cut_tail=0.25, forwarders=0.2, open_leaves=0.5 if rng.random() < 0.2 else 0.0, control=rng.random() < 0.7, cut=True, opaque_cut=False, builtins=False)
        p = progs.gen_program(rng, o)
        # force more cuts: append `, !` or prepend `!,` to some rule bodies
        cl = []
        for name, args, body in p['clauses']:
            r = rng.random()
            if name.startswith('p') and r < 0.25:
                body = ['and', body, ['cut']] if body != ['true'] else ['cut']
            elif name.startswith('p') and r < 0.35:
                body = ['and', ['cut'], body]
            cl.append([name, args, body])
        cases.append({'clauses': cl, 'queries': p['queries']})
    # program shapes that the layered random programs never reach (lib/progs_shapes.py)
    for _ in range(N_LONG[tier]):
        cases.append(progs_shapes.gen_long_body_program(rng))
    for _ in range(N_REC[tier]):
        cases.append(progs_shapes.gen_recursive_program(rng))
    # round 4: bodies AT CPython's limit of 20 statically nested blocks (18, 19, 20) with a cut in a branch of the last control construct,
    # and just beyond it (21, 22), where the compiler must refuse (the model compiler's verdict is compared: semcheck.compare)
    for _ in range(N_LIMIT[tier]):
        cases.append(progs_r4.gen_limit_body_program(rng))
    return cases

def builtin_corpus():
    from lib.progs import V, A, F
    L = []
    def prog(clauses, queries): L.append({'clauses': clauses, 'queries': queries})
    q3 = [['q', [A('a')], ['true']], ['q', [A('b')], ['true']], ['q', [A('c')], ['true']]]
    prog([['p', [V('X')], ['and', ['call', 'q', [V('X')]], ['cut']]], ['p', [A('z')], ['true']]] + q3, [['p', [V('Q0')]]])
    prog([['p', [V('X'), V('Y')], ['and', ['call', 'q', [V('X')]], ['and', ['cut'], ['call', 'q', [V('Y')]]]]], ['p', [A('z'), A('z')], ['true']]] + q3, [['p', [V('Q0'), V('Q1')]]])
    # the caller's alternatives survive a cut in the callee (callee is the last goal of the caller)
    prog([['c', [V('X'), V('Y')], ['and', ['call', 'q', [V('X')]], ['call', 'd', [V('Y')]]]], ['c', [A('alt'), A('alt')], ['true']],
          ['d', [V('Y')], ['and', ['call', 'q', [V('Y')]], ['cut']]], ['d', [A('no')], ['true']]] + q3, [['c', [V('Q0'), V('Q1')]]])
    prog([['p', [V('X')], ['or', ['and', ['call', 'q', [V('X')]], ['cut']], ['call', '=', [V('X'), A('z')]]]], ['p', [A('y')], ['true']]] + q3, [['p', [V('Q0')]]])
    prog([['p', [V('X')], ['or', ['if', ['call', 'q', [V('X')]], ['cut']], ['call', '=', [V('X'), A('e')]]]], ['p', [A('y')], ['true']]] + q3, [['p', [V('Q0')]]])
    # `!, true` shapes: an if-then without else whose then-branch is a cut, at the end of a body; then other predicates
    prog([['p', [V('X')], ['and', ['call', 'q', [V('X')]], ['if', ['call', '=', [V('X'), A('b')]], ['cut']]]], ['r', [V('X')], ['call', 'q', [V('X')]]],
          ['s', [V('X')], ['and', ['cut'], ['true']]], ['t', [V('X')], ['call', 'q', [V('X')]]]] + q3, [['p', [V('Q0')]], ['r', [V('Q0')]], ['t', [V('Q0')]], ['q', [V('Q0')]]])
    return L

def oracle(case, io):
    """intrinsic, on the implementation alone: no query variable stays bound (semcheck), and the caller's own alternatives are
    untouched - the generated callers around a predicate with cuts answer exactly their callee's answers inside their own
    generator's solutions, followed by their own last clause (progs_shapes.check_relations)"""
    return semcheck.oracle(case, io) or progs_shapes.check_relations(case, io) or progs_r4.check_same_answers(case, io)

def nontrivial(case, io):
    if not isinstance(io, dict) or 'queries' not in io or not any(q['count'] >= 1 for q in io['queries']):
        return False
    return any('cut' in progs.constructs(b) for _, _, b in case['clauses'])

def distribution(cases, obs):
    d = semcheck.stats(cases, obs)
    shapes = {}
    longest = {}
    for c in cases:
        k = c.get('shape', 'layered').split(':')[0]
        shapes[k] = shapes.get(k, 0) + 1
        for _, _, b in c['clauses']:
            n = progs_shapes.top_level_goals(b)
            key = '1-5' if n <= 5 else '6-12' if n <= 12 else '13-15' if n <= 15 else '16+'
            longest[key] = longest.get(key, 0) + 1
    d['program_shapes'] = shapes
    est = {}
    for c in cases:
        if 'estimated_blocks' in c:
            est[str(c['estimated_blocks'])] = est.get(str(c['estimated_blocks']), 0) + 1
    d['limit_body_programs_by_estimated_nested_blocks'] = est
    d['top_level_goals_per_clause_body'] = longest
    return d
