"""C05 - cut commits the clause and nothing else."""
import sys, time, json, random
from lib import semcheck, progs, progs_shapes, progs_r4, progs_r5, consumers, ast_io
from lib.semcheck import model_expr, compare, describe, shrink, IMPORTS

ID = 'C05'
THEOREMS = ['C05_cut_code_correct', 'C05_compiled_program_computes_reference', 'C05_cut_prunes_later_clauses', 'C05_no_cut_continues', 'C05_cut_local_to_predicate', 'C05_query_result_after_cut', 'C05_cut_spec_readable', 'C05_cut_first',
            'C05_cut_in_disjunction_branch', 'C05_cut_in_then_branch', 'C05_cut_in_else_branch', 'C05_cut_survives_continuation', 'C05_cut_continuation_backtracks',
            'C05_consumers_ignore_cut_flag', 'C05_evaluate_bounded_is_plain_iteration', 'C05_cut_flag_is_not_the_end_of_the_query', 'C05_stopping_at_the_cut_flag_loses_answers',
            'C05_untaken_else_cut', 'C05_untaken_else_cut_alternative_tried', 'C05_untaken_then_cut', 'C05_guarded_cut_alternative', 'C05_untaken_else_cut_with_continuation',
            'C05_head_mismatch_skips_clause', 'C05_head_mismatch_body_irrelevant']
CASE_TIMEOUT = 60
MODEL_NEEDS_IMPL = True
COQ_CHUNK = 20
RULE = ('random programs as for C01 whose bodies also contain ! at the top level of a body, in disjunction branches and in then/else branches '
        '(in a quarter of the programs ALSO inside conditions / under \\+ - a cut local to the condition, next to the transparent cuts the property is about: round 6), with predicates of 2-4 clauses, callers that have their own alternatives, leaf solution counts '
        '0/1/many, if-then-else and negation around. Compared as C01 (implementation / compiled-code model / SLD reference with cut). '
        'Non-trivial: the program contains a cut, some query has an answer, and the predicate with the cut has a later clause or a goal with '
        'several solutions to the left of the cut. Plus program shapes of lib/progs_shapes.py: clause bodies of 6-18 top-level goals (up to '
        'the nesting limit of the emitted Python) with cuts, cuts nested in ;/-> branches, if-then-else and negation at every position '
        'including the last ones, later clauses and caller alternatives; directly recursive predicates over lists / s(N) / acyclic graphs '
        'with random cut placement (base clause ending in !, cut before the recursive call), tail and non-tail recursion and alternatives at '
        'every level of the recursion.  Round 4: every program is also run behind every consumer API (plain iteration, evaluate_bounded with a '
        'recursion limit at / above the one in force and with its default, list(), next()+close()), with some of its cut-free conjunctive '
        'predicates (the callers) written in Python as re-entrant twins that query the same engine inside their loops (yielding False / True / '
        'passing the flag of their last goal on), and with the clauses of one predicate split over two scripts loaded with overwrite=False; '
        'all must present the answers of plain iteration of the all-compiled single script (the split one when its first part has no cut; '
        'otherwise only its own consumers must agree with each other), leave no variable bound and the recursion limit unchanged.  Round 5: '
        'programs in which a cut stands in the text but is not executed on some of the calls made (lib/progs_r5.py): neck-cut clauses whose head '
        'may not match (repeated variables d(X,X) :- !, .., constants, structures, list patterns, and the always-matching control case), a goal '
        'that may fail left of the cut, a cut in the branch of an if-then-else / disjunction that is not taken - each standing left of '
        'alternatives that must then still be tried (right-hand side of an enclosing disjunction, with and without a continuation behind it; '
        'later clauses; the caller\'s own alternatives), queried so that the cut is reached on some calls and not on others.')
TRUSTED_BASE = []

def source_ties():
    """source-level tie of compile_body / has_local_cut / localize_cuts (notes/TIE.md)"""
    from lib import srctie
    return srctie.check(ID)

N_LONG = {'quick': 60, 'thorough': 450}
N_REC = {'quick': 50, 'thorough': 400}
N_LIMIT = {'quick': 50, 'thorough': 400}
N_UNTAKEN = {'quick': 90, 'thorough': 900}

def gen(rng, tier):
    n = 220 if tier == 'quick' else 5000
    cases = []
    for _ in range(n):
        o = progs.Opts(cut_tail=0.25, forwarders=0.2, open_leaves=0.5 if rng.random() < 0.2 else 0.0, control=rng.random() < 0.7, cut=True, opaque_cut=rng.random() < 0.25, builtins=False)
        p = progs.gen_program(rng, o)
        # force more cuts: append `, !` or prepend `!,` to some rule bodies
        cl = []
        for name, args, body in p['clauses']:
            r = rng.random()
            if name.startswith('p') and r < 0.25:
                body = ['and', body, ['cut']] if body != ['true'] else ['cut']
            elif name.startswith('p') and r < 0.35:
                body = ['and', ['cut'], body]
            cl.append([name, args, body])
        cases.append({'clauses': cl, 'queries': p['queries']})
    # program shapes that the layered random programs never reach (lib/progs_shapes.py)
    for i in range(N_LONG[tier]):
        # two of three may fill CPython's 20 statically nested blocks completely (round 4: most of those are filled up to exactly 20, half
        # of them with a control construct as their very last goal), the others leave one block free as before
        cases.append(progs_shapes.gen_long_body_program(rng, progs_shapes.MAX_FOR_EXACT if i % 3 else None))
    for _ in range(N_REC[tier]):
        cases.append(progs_shapes.gen_recursive_program(rng))
    # round 4: bodies AT CPython's limit of 20 statically nested blocks (18, 19, 20) with a cut in a branch of the last control construct,
    # and just beyond it (21, 22), where the compiler must refuse (the model compiler's verdict is compared: semcheck.compare)
    for _ in range(N_LIMIT[tier]):
        cases.append(progs_r4.gen_limit_body_program(rng))
    # round 5: a cut that stands in the text but is not executed on some calls (head of the neck-cut clause does not match, a goal left
    # of the cut fails, the cut's branch is not taken) while alternatives exist behind it (lib/progs_r5.py)
    for _ in range(N_UNTAKEN[tier]):
        cases.append(progs_r5.gen_untaken_cut_program(rng))
    return cases

def builtin_corpus():
    from lib.progs import V, A, F
    L = []
    def prog(clauses, queries): L.append({'clauses': clauses, 'queries': queries})
    q3 = [['q', [A('a')], ['true']], ['q', [A('b')], ['true']], ['q', [A('c')], ['true']]]
    prog([['p', [V('X')], ['and', ['call', 'q', [V('X')]], ['cut']]], ['p', [A('z')], ['true']]] + q3, [['p', [V('Q0')]]])
    prog([['p', [V('X'), V('Y')], ['and', ['call', 'q', [V('X')]], ['and', ['cut'], ['call', 'q', [V('Y')]]]]], ['p', [A('z'), A('z')], ['true']]] + q3, [['p', [V('Q0'), V('Q1')]]])
    # the caller's alternatives survive a cut in the callee (callee is the last goal of the caller)
    prog([['c', [V('X'), V('Y')], ['and', ['call', 'q', [V('X')]], ['call', 'd', [V('Y')]]]], ['c', [A('alt'), A('alt')], ['true']],
          ['d', [V('Y')], ['and', ['call', 'q', [V('Y')]], ['cut']]], ['d', [A('no')], ['true']]] + q3, [['c', [V('Q0'), V('Q1')]]])
    prog([['p', [V('X')], ['or', ['and', ['call', 'q', [V('X')]], ['cut']], ['call', '=', [V('X'), A('z')]]]], ['p', [A('y')], ['true']]] + q3, [['p', [V('Q0')]]])
    prog([['p', [V('X')], ['or', ['if', ['call', 'q', [V('X')]], ['cut']], ['call', '=', [V('X'), A('e')]]]], ['p', [A('y')], ['true']]] + q3, [['p', [V('Q0')]]])
    # `!, true` shapes: an if-then without else whose then-branch is a cut, at the end of a body; then other predicates
    prog([['p', [V('X')], ['and', ['call', 'q', [V('X')]], ['if', ['call', '=', [V('X'), A('b')]], ['cut']]]], ['r', [V('X')], ['call', 'q', [V('X')]]],
          ['s', [V('X')], ['and', ['cut'], ['true']]], ['t', [V('X')], ['call', 'q', [V('X')]]]] + q3, [['p', [V('Q0')]], ['r', [V('Q0')]], ['t', [V('Q0')]], ['q', [V('Q0')]]])
    return L

# ------------------------------------------------------------------ round 4: the same program behind every consumer API, with callers
# written in Python, and with a definition split over two scripts
#
# The cut is implemented by a protocol between generators: a clause that ends in `!` yields True and returns; YP.query passes the
# flag on (`yield from`), and so does whatever sits between the clause and the consumer - a registered Python predicate that is the
# twin of a compiled caller (`c(X,Y) :- q(X), p(Y).` written with nested `for .. in yp.query(..)` loops), the chain of two definitions
# of one predicate (load_script_from_string(.., overwrite=False) twice) - up to the consumer API.  "The caller's own alternatives are
# untouched" must hold at every one of these places, so each program is also run
#   * behind every consumer API (plain iteration, evaluate_bounded, list(), next()+close()),
#   * with some of its cut-free conjunctive predicates (the callers) replaced by their Python twins (re-entrant: they query the
#     same engine inside their loops; yielding False / True / passing the flag of their last goal on),
#   * with the clauses of one predicate split over two scripts loaded with overwrite=False (the cut of a clause commits the
#     definition it belongs to; when the first part has no cut the answers are those of the unsplit program),
# and all of these must present the answers that plain iteration of the all-compiled single script presents (which is what the Coq
# model is compared with).

API_TIME = 0.25      # seconds: a query whose plain enumeration takes longer is not run again behind the other APIs

def api_plan(case):
    """which predicates get a Python twin (with which yield style) and which predicate is split where; drawn from a random stream
    that depends on the case only"""
    cl = case['clauses']
    rng = random.Random(json.dumps([cl, case['queries']], sort_keys=True))
    keys = []
    for c in cl:
        k = (c[0], len(c[1]))
        if k not in keys:
            keys.append(k)
    defined = set(keys)
    elig = [k for k in keys if consumers.twin_eligible(cl, k, defined) and any(c[2] != ['true'] for c in cl if (c[0], len(c[1])) == k)]
    twins = []
    if elig:
        some = [k for k in elig if rng.random() < 0.6] or [rng.choice(elig)]
        twins = [[k[0], k[1], rng.choice([0, 1, 2, 2])] for k in some]
    multi = [k for k in keys if sum(1 for c in cl if (c[0], len(c[1])) == k) >= 2]
    split = None
    if multi:
        # prefer predicates whose clauses contain cuts
        cutting = [k for k in multi if any(progs_shapes.has_cut(c[2]) for c in cl if (c[0], len(c[1])) == k)]
        k = rng.choice(cutting) if cutting and rng.random() < 0.7 else rng.choice(multi)
        n = sum(1 for c in cl if (c[0], len(c[1])) == k)
        split = [k[0], k[1], rng.randrange(1, n)]
    return {'twins': twins, 'split': split}

def split_scripts(case, split):
    key = (split[0], split[1])
    first, second, seen = [], [], 0
    for c in case['clauses']:
        if (c[0], len(c[1])) == key:
            seen += 1
            (first if seen <= split[2] else second).append(c)
        else:
            first.append(c)
    cut_in_first = any(progs_shapes.has_cut(c[2]) for c in first if (c[0], len(c[1])) == key)
    return first, second, cut_in_first

def api_views(case, base):
    from yldprolog import compiler, engine as E
    plan = api_plan(case)
    out = {'plan': plan, 'engines': {}}
    def load(yp, clauses, overwrite=True):
        if clauses:
            yp.load_script_from_string(compiler.compile_prolog_from_string(ast_io.program_text(clauses), semcheck.Ctx), overwrite=overwrite)
    engines = [('same', None)]
    if plan['twins']:
        engines.append(('twin', None))
    if plan['split']:
        engines.append(('split', None))
    for which, _ in engines:
        yp = E.YP()
        try:
            if which == 'same':
                load(yp, case['clauses'])
            elif which == 'twin':
                tk = {(t[0], t[1]) for t in plan['twins']}
                load(yp, [c for c in case['clauses'] if (c[0], len(c[1])) not in tk])
                for name, ar, style in plan['twins']:
                    yp.register_function(name, consumers.python_twin(yp, E, case['clauses'], (name, ar), style), arity=ar)
            else:
                first, second, _ = split_scripts(case, plan['split'])
                load(yp, first, False)
                load(yp, second, False)
        except Exception as e:
            out['engines'][which] = {'rejected': type(e).__name__, 'msg': str(e)[:200]}
            continue
        views = []
        for qi, q in enumerate(case['queries']):
            bq = base['queries'][qi]
            if not consumers.wanted(bq):
                views.append(None)
                continue
            t0 = time.time()
            plain = semcheck.run_queries(yp, dict(case, queries=[q]))[0]
            if time.time() - t0 > API_TIME or not consumers.wanted(plain):
                views.append({'plain': plain, 'cons': None})
                continue
            args, nq = semcheck.query_terms(q)
            views.append({'plain': plain, 'cons': consumers.other_consumers(yp, q[0], args, nq, qi + len(case['clauses']), semcheck.LIMIT)})
        out['engines'][which] = {'views': views}
    return out

def impl(case):
    io = semcheck.impl(case)
    if isinstance(io, dict) and 'queries' in io and 'source' not in case:
        io['api'] = api_views(case, io)
    return io

def api_oracle(case, io):
    api = io.get('api') if isinstance(io, dict) else None
    if not api:
        return None
    plan = api['plan']
    names = {'same': 'the program', 'twin': 'the program with %s written in Python (re-entrant twins of the compiled clauses)' % ', '.join('%s/%d' % (t[0], t[1]) for t in plan['twins']),
             'split': 'the program with the clauses of %s split after clause %s over two scripts loaded with overwrite=False' % ('%s/%d' % tuple(plan['split'][:2]), plan['split'][2]) if plan['split'] else ''}
    for which, e in api['engines'].items():
        if 'rejected' in e:
            if 'too large for Python' in (e.get('msg') or ''):
                continue
            return '%s: %s %s' % (names[which], e['rejected'], e.get('msg'))
        exact = which != 'split' or not split_scripts(case, plan['split'])[2]
        for q, bq, v in zip(case['queries'], io['queries'], e['views']):
            if v is None:
                continue
            qt = ast_io.term_text(['fun', q[0], q[1]]) if q[1] else q[0]
            pl = v['plain']
            if pl['end'] in ('budget', 'raised RecursionError') or bq['end'] == 'raised RecursionError':
                continue        # search budget; cyclic terms (no occurs check) / depth: outside the domain, as for the model
            if exact and (pl['end'] != bq['end'] or pl['answers'] != bq['answers'] or pl['count'] != bq['count']):
                return 'query %s: %s answers differently from the all-compiled single script (%s after %d answers vs %s after %d)' % (qt, names[which], pl['end'], pl['count'], bq['end'], bq['count'])
            if pl['leftover'] and pl['end'] == 'done':
                return 'query %s (%s): query variables still bound after the enumeration ended' % (qt, names[which])
            if v['cons'] and pl['end'] == 'done':
                r = consumers.mismatch(pl, v['cons'], semcheck.LIMIT)
                if r:
                    return 'query %s on %s: %s' % (qt, names[which], r)
    return None

def oracle(case, io):
    """intrinsic, on the implementation alone: no query variable stays bound (semcheck), and the caller's own alternatives are
    untouched - the generated callers around a predicate with cuts answer exactly their callee's answers inside their own
    generator's solutions, followed by their own last clause (progs_shapes.check_relations); round 4: the same answers behind every
    consumer API, with callers written in Python, with a definition split over two scripts (api_oracle); same answers for
    re-spelled programs (progs_r4.check_same_answers)"""
    return semcheck.oracle(case, io) or progs_shapes.check_relations(case, io) or progs_r4.check_same_answers(case, io) or api_oracle(case, io)

def nontrivial(case, io):
    if not isinstance(io, dict) or 'queries' not in io or not any(q['count'] >= 1 for q in io['queries']):
        return False
    return any('cut' in progs.constructs(b) for _, _, b in case['clauses'])

def distribution(cases, obs):
    d = semcheck.stats(cases, obs)
    shapes = {}
    longest = {}
    for c in cases:
        k = c.get('shape', 'layered').split(':')[0]
        shapes[k] = shapes.get(k, 0) + 1
        for _, _, b in c['clauses']:
            n = progs_shapes.top_level_goals(b)
            key = '1-5' if n <= 5 else '6-12' if n <= 12 else '13-15' if n <= 15 else '16+'
            longest[key] = longest.get(key, 0) + 1
    d['program_shapes'] = shapes
    est = {}
    for c in cases:
        if 'estimated_blocks' in c:
            est[str(c['estimated_blocks'])] = est.get(str(c['estimated_blocks']), 0) + 1
    d['limit_body_programs_by_estimated_nested_blocks'] = est
    d['top_level_goals_per_clause_body'] = longest
    return d
