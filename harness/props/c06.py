"""C06 - disjunction, if-then-else and negation follow standard semantics."""
from lib import semcheck, progs, progs_r4, progs_r5
from lib.semcheck import impl, model_expr, oracle, describe, shrink, IMPORTS

ID = 'C06'
THEOREMS = ['C06_control_code_correct', 'C06_control_correct_flags', 'C06_compile_body_total', 'C06_compiled_program_computes_reference', 'C06_or_spec', 'C06_ite_spec', 'C06_if_no_else_spec', 'C06_not_spec', 'C06_neg_binds_nothing', 'C06_and_spec',
            'C06_not_not_spec', 'C06_neg_neq_spec', 'C06_neg_neq_is_not_eq']
CASE_TIMEOUT = 60
MODEL_NEEDS_IMPL = True
COQ_CHUNK = 20
RULE = ('random programs whose bodies nest ;, ->, -> without else and \\+ to depth 4 around calls with 0-3 solutions, =, \\=, true, fail and '
        'cuts in branches, followed by continuation goals; a third of the programs also put cuts inside conditions and under \\+ (local to the '
        'condition; the former finding KF-C06-1, repaired by /repo commit 64ae898). Compared as C01. Non-trivial: the program contains ;, -> or \\+ and some '
        'query has an answer. In addition ALL bodies with at most 2 (quick tier) / 3 (thorough tier) leaves over the leaf goals {no / one / two solutions, true, fail, !, =} '
        'and the constructs are enumerated exhaustively (origin "exhaustive"), each followed by a continuation goal and a second clause. '
        'Round 3: generator mode "continuation duplication" (in half of the random programs 30-60% of the clause bodies have the shape D, K [, G] / '
        '(D, K), G / G, D, K / (G, D), K where D is (A ; B), a 3-way or left-parenthesised disjunction, (C -> T ; E), (C -> T), an else-if chain '
        '(C1 -> T1 ; C2 -> T2 ; E), ((C -> T ; E) ; F), with all alternatives reachable, and K - the goal compile_body compiles once per alternative - is '
        '\\+ Cond, (Cond -> T ; E), (Cond -> T), \\+ \\+ Cond, !, a disjunction, an if-then-else, or again D, K; Cond has a cut of its own '
        '(c, !, f / (c, !, f ; d) / !, f / (f ; !, c, f) / (c -> ! ; d), f / c, (! ; d), f / (c, !), f) or has the form Gen, Nested (a goal with several '
        'answers followed by a \\+ / if-then-else that tests the answer); such a clause is always followed by another clause of the predicate); and '
        'ALL bodies D, K with D in {(L ; L), (L -> L ; L), (L -> L)} over leaves with 0 / 2 (thorough: 0 / 1 / 2) solutions and K in {\\+ C, (C -> t ; e), '
        '(C -> t)} with C in {(c, !, f), (c, !, f ; true), (c ; !, f)}, c in {true, q2} (thorough: + q1), f in {fail, true} (thorough: + q0) '
        '(origin "exhaustive-contdup": 576 / 3645 bodies). 15% of the random programs get adversarial identifiers (see C01).')
TRUSTED_BASE = []

def source_ties():
    """source-level tie of compile_body / has_local_cut / localize_cuts (notes/TIE.md)"""
    from lib import srctie
    return srctie.check(ID)

def gen(rng, tier):
    n = 240 if tier == 'quick' else 5000
    cases = []
    for _ in range(n):
        o = progs.Opts(open_leaves=0.5 if rng.random() < 0.2 else 0.0, control=True, cut=rng.random() < 0.5, opaque_cut=rng.random() < 0.6, builtins=False, deep=rng.random() < 0.3,
                       contdup=rng.choice([0.0, 0.0, 0.3, 0.6]))
        p = progs.gen_program(rng, o)
        if rng.random() < 0.15:
            p = progs.adversarial_program(rng, p)
        cases.append({'clauses': p['clauses'], 'queries': p['queries']})
    # exhaustive small scope (support for the model-code tie, not the proof): ALL bodies with <= 2 (quick) / <= 3 (thorough)
    # leaves over {q0,q1,q2 (0/1/2 solutions), true, fail, !, =} x {',', ';', '->', '-> ;', \\+}, followed by a continuation goal
    cases.extend(progs.exhaustive_cases(2 if tier == 'quick' else 3))
    # exhaustive small scope of the shape "continuation duplication":  (A ; B), K  /  (C -> T ; E), K  /  (C -> T), K  where K is a
    # negation / if-then-else / if-then whose condition has a cut of its own (origin "exhaustive-contdup")
    cases.extend(progs.exhaustive_contdup_cases(tier != 'quick'))
    # round 4: (a) \\+ directly over the builtins (= \\= call once, \\+ \\+) with unifiable arguments, the variables observed afterwards -
    # random (Opts.negbuiltin) and exhaustive over a small set of argument pairs, wrappers and observers;  (b) three levels of
    # local-cut constructs: a cut in a condition / negation, a committing if-then-else / negation in its else branch / continuation,
    # all inside a further if-then-else / negation whose else branch is visible - random (Opts.localcut3) and exhaustive
    for _ in range(n // 4):
        o = progs.Opts(control=True, cut=rng.random() < 0.5, opaque_cut=rng.random() < 0.6, builtins=False, negbuiltin=rng.choice([0.2, 0.4]),
                       localcut3=rng.choice([0.0, 0.3, 0.5]), numerals=rng.choice([0.0, 0.2]), constcmp=rng.choice([0.0, 0.15]))
        p = progs.gen_program(rng, o)
        cases.append({'clauses': p['clauses'], 'queries': p['queries'], 'shape': 'round4'})
    # bodies at CPython's limit of 20 nested blocks (18 .. 20) and just beyond (21, 22: the compiler must refuse) ending in a disjunction /
    # if-then-else / negation / condition with a cut of its own (no clause-level cut: those are C05's)
    for _ in range(30 if tier == 'quick' else 300):
        cases.append(progs_r4.gen_limit_body_program(rng, cuts=False))
    cases.extend(progs_r4.exhaustive_neg_builtin_cases())
    cases.extend(progs_r4.exhaustive_local_cut3_cases(tier != 'quick'))
    # round 5: a cut in the branch of an if-then-else / disjunction that is not taken on some calls, to the left of alternatives that must
    # then still be tried (enclosing disjunction with and without continuation, later clauses, the caller's alternatives): lib/progs_r5.py
    for _ in range(50 if tier == 'quick' else 600):
        cases.append(progs_r5.gen_untaken_cut_program(rng))
    return cases

def builtin_corpus():
    from lib.progs import V, A, F
    L = []
    def prog(clauses, queries): L.append({'clauses': clauses, 'queries': queries})
    q3 = [['q', [A('a')], ['true']], ['q', [A('b')], ['true']], ['q', [A('c')], ['true']]]
    call = lambda f, *a: ['call', f, list(a)]
    prog([['p', [V('X')], ['or', call('q', V('X')), call('=', V('X'), A('z'))]]] + q3, [['p', [V('Q0')]]])
    prog([['p', [V('X'), V('Y')], ['and', ['or', ['if', call('q', V('X')), call('=', V('Y'), A('t'))], call('=', V('Y'), A('e'))], call('q', V('Y'))]]] + q3 + [['q', [A('t')], ['true']]], [['p', [V('Q0'), V('Q1')]]])
    prog([['p', [V('X')], ['if', call('=', V('X'), A('a')), call('q', V('X'))]]] + q3, [['p', [V('Q0')]], ['p', [A('b')]]])
    prog([['p', [V('X')], ['and', ['not', call('q', V('X'))], call('=', V('X'), A('u'))]], ['p', [V('X')], ['not', call('=', V('X'), A('a'))]]] + q3, [['p', [V('Q0')]], ['p', [A('d')]], ['p', [A('a')]]])
    # if-then-else in a non-first position of a ; chain, with a continuation
    prog([['p', [V('X'), V('R')], ['and', ['or', call('=', V('X'), A('first')), ['or', ['if', call('q', V('X')), call('=', V('R'), A('then'))], call('=', V('R'), A('else'))]], call('=', V('R'), V('R'))]]] + q3, [['p', [V('Q0'), V('Q1')]]])
    prog([['p', [V('R')], ['and', ['or', ['if', ['fail'], call('=', V('R'), A('t1'))], ['or', ['if', ['true'], call('=', V('R'), A('t2'))], call('=', V('R'), A('e'))]], ['true']]]], [['p', [V('Q0')]]])
    # condition of the form  Gen, \+ G  (commit must not run the else branch as well)
    prog([['p', [V('Y'), V('R')], ['or', ['if', ['and', call('q', V('Y')), ['not', call('=', V('Y'), A('a'))]], call('=', V('R'), A('then'))], call('=', V('R'), A('else'))]],
          ['n', [], ['not', ['and', call('q', V('Y')), ['not', call('=', V('Y'), A('a'))]]]]] + q3, [['p', [V('Q0'), V('Q1')]], ['n', []]])
    prog([['p', [V('R')], ['or', ['if', ['and', call('q', V('Y')), ['or', ['if', call('=', V('Y'), A('b')), ['true']], ['fail']]], call('=', V('R'), V('Y'))], call('=', V('R'), A('else'))]]] + q3, [['p', [V('Q0')]]])
    # cuts inside conditions and under \\+ are local to the condition (D21 / former KF-C06-1, repaired)
    m3 = [['m', [A('a')], ['true']], ['m', [A('b')], ['true']], ['m', [A('c')], ['true']], ['n', [A('b')], ['true']], ['n', [A('c')], ['true']]]
    prog([['q', [], ['not', ['and', ['cut'], ['fail']]]]], [['q', []]])
    prog([['r', [V('X')], ['or', ['if', ['and', ['cut'], ['fail']], call('=', V('X'), A('a'))], call('=', V('X'), A('b'))]]], [['r', [V('Q0')]]])
    prog([['t', [V('X'), V('Y')], ['or', ['if', ['and', call('m', V('X')), ['and', ['cut'], call('n', V('X'))]], call('=', V('Y'), A('then'))], call('=', V('Y'), A('else'))]]] + m3, [['t', [V('Q0'), V('Q1')]]])
    prog([['u', [V('X'), V('Y')], ['and', ['or', ['if', ['or', call('m', V('X')), ['and', ['cut'], call('=', V('X'), A('late'))]], call('=', V('Y'), A('t'))], call('=', V('Y'), A('e'))], call('m', V('X'))]]] + m3, [['u', [V('Q0'), V('Q1')]]])
    prog([['w', [V('X'), V('Y')], ['and', call('m', V('X')), ['or', ['if', ['or', ['and', call('n', V('X')), ['cut']], call('=', V('X'), A('c'))], call('=', V('Y'), A('t'))], call('=', V('Y'), A('e'))]]]] + m3, [['w', [V('Q0'), V('Q1')]]])
    prog([['x', [V('X')], ['or', ['if', ['and', ['or', ['if', call('m', V('X')), ['cut']], ['true']], call('=', V('X'), A('b'))], ['true']], call('=', V('X'), A('none'))]]] + m3, [['x', [V('Q0')]]])
    prog([['y', [V('X')], ['and', ['not', ['not', ['and', call('m', V('X')), ['and', ['cut'], call('=', V('X'), A('b'))]]]], call('=', V('X'), A('free'))]]] + m3, [['y', [V('Q0')]]])
    prog([['z', [V('X'), V('Y')], ['or', ['if', ['or', ['if', ['and', call('m', V('X')), ['cut']], call('n', V('X'))], ['true']], call('=', V('Y'), A('t'))], call('=', V('Y'), A('e'))]]] + m3, [['z', [V('Q0'), V('Q1')]]])
    # a cut in the then/else branch is still a cut of the clause
    prog([['k', [V('X')], ['and', call('m', V('X')), ['or', ['if', call('n', V('X')), ['cut']], ['true']]]], ['k', [A('last')], ['true']]] + m3, [['k', [V('Q0')]]])
    # the goal after a disjunction / if-then-else is compiled once per alternative; here it has a condition with a cut of its own
    prog([['p', [V('X'), V('R')], ['and', ['or', call('m', V('X')), call('=', V('X'), A('z'))], ['or', ['if', ['and', call('n', V('X')), ['and', ['cut'], ['fail']]], call('=', V('R'), A('t'))], call('=', V('R'), A('e'))]]],
          ['p', [A('last'), A('last')], ['true']]] + m3, [['p', [V('Q0'), V('Q1')]]])
    prog([['u', [V('X')], ['and', ['or', ['if', call('n', V('X')), ['true']], call('=', V('X'), A('z'))], ['and', ['not', ['and', ['cut'], ['fail']]], ['not', ['and', call('m', V('Y')), ['and', ['cut'], call('n', A('a'))]]]]]],
          ['u', [A('last')], ['true']],
          ['w', [V('X'), V('R')], ['and', ['and', ['or', ['if', ['fail'], call('=', V('X'), A('t1'))], ['or', ['if', call('n', V('X')), ['true']], call('=', V('X'), A('e'))]], ['if', ['or', ['and', call('m', V('Y')), ['and', ['cut'], call('n', V('Y'))]], ['true']], call('=', V('R'), V('Y'))]], call('m', V('R'))]],
          ['w', [A('last'), A('last')], ['true']]] + m3, [['u', [V('Q0')]], ['w', [V('Q0'), V('Q1')]]])
    return L

def compare(case, io, mo):
    return semcheck.compare(case, io, mo)

def oracle(case, io):
    """intrinsic, on the implementation alone: no query variable stays bound after the enumeration (semcheck), and - round 4 - `\\+ G`
    never binds a variable: a predicate whose body is a single negation answers with the unchanged query (progs_r4.check_neg_binds_nothing);
    an if-then-else never delivers answers of its then side and of its else branch (progs_r4.check_outer_commit, three-level family);
    the answers of a clause do not depend on the deterministic padding of its body (progs_r4.check_same_answers, bodies at the nesting limit)"""
    return semcheck.oracle(case, io) or progs_r4.check_neg_binds_nothing(case, io) or progs_r4.check_outer_commit(case, io) or progs_r4.check_same_answers(case, io)

def nontrivial(case, io):
    if not isinstance(io, dict) or 'queries' not in io or not any(q['count'] >= 1 for q in io['queries']):
        return False
    return any(progs.constructs(b) & {'or', 'if', 'not'} for _, _, b in case['clauses'])

def distribution(cases, obs):
    d = semcheck.stats(cases, obs)
    d['exhaustive_small_scope_bodies'] = sum(1 for c in cases if c.get('origin') == 'exhaustive')
    d['limit_body_programs'] = sum(1 for c in cases if c.get('shape', '').startswith('limit-body'))
    d['exhaustive_negated_builtin_programs'] = sum(1 for c in cases if c.get('origin') == 'exhaustive-neg-builtin')
    d['exhaustive_three_level_local_cut_programs'] = sum(1 for c in cases if c.get('origin') == 'exhaustive-local-cut3')
    d['exhaustive_continuation_duplication_bodies'] = sum(1 for c in cases if c.get('origin') == 'exhaustive-contdup')
    d['programs_with_construct_after_disjunction_or_ite'] = sum(1 for c in cases if any(progs.has_dup_continuation(b) for _, _, b in c['clauses']))
    d['programs_with_local_cut_construct_in_duplicated_continuation'] = sum(1 for c in cases if any(progs.has_dup_continuation(b, True) for _, _, b in c['clauses']))
    d['programs_with_opaque_cut'] = sum(1 for c in cases if any(progs.has_opaque_cut(b) for _, _, b in c['clauses']))
    return d
