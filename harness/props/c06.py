"""C06 - disjunction, if-then-else and negation follow standard semantics."""
from lib import semcheck, progs
from lib.semcheck import impl, model_expr, oracle, describe, shrink, IMPORTS

ID = 'C06'
THEOREMS = ['C06_control_code_correct', 'C06_control_correct_flags', 'C06_compile_body_total', 'C06_compiled_program_computes_reference', 'C06_or_spec', 'C06_ite_spec', 'C06_if_no_else_spec', 'C06_not_spec', 'C06_neg_binds_nothing', 'C06_and_spec', 'C06_opaque_cut_refuted']
CASE_TIMEOUT = 20
COQ_CHUNK = 20
RULE = ('random programs whose bodies nest ;, ->, -> without else and \\+ to depth 4 around calls with 0-3 solutions, =, \\=, true, fail and '
        'cuts in branches, followed by continuation goals; 10% of the programs also put a cut inside a condition or under \\+ (the recorded '
        'finding KF-C06-1: such cases are classified, not reported). Compared as C01. Non-trivial: the program contains ;, -> or \\+ and some '
        'query has an answer.')
TRUSTED_BASE = []

def gen(rng, tier):
    n = 240 if tier == 'quick' else 5000
    cases = []
    for _ in range(n):
        o = progs.Opts(open_leaves=0.5 if rng.random() < 0.2 else 0.0, control=True, cut=rng.random() < 0.5, opaque_cut=rng.random() < 0.2, builtins=False, deep=rng.random() < 0.3)
        p = progs.gen_program(rng, o)
        cases.append({'clauses': p['clauses'], 'queries': p['queries']})
    return cases

def builtin_corpus():
    from lib.progs import V, A, F
    L = []
    def prog(clauses, queries): L.append({'clauses': clauses, 'queries': queries})
    q3 = [['q', [A('a')], ['true']], ['q', [A('b')], ['true']], ['q', [A('c')], ['true']]]
    call = lambda f, *a: ['call', f, list(a)]
    prog([['p', [V('X')], ['or', call('q', V('X')), call('=', V('X'), A('z'))]]] + q3, [['p', [V('Q0')]]])
    prog([['p', [V('X'), V('Y')], ['and', ['or', ['if', call('q', V('X')), call('=', V('Y'), A('t'))], call('=', V('Y'), A('e'))], call('q', V('Y'))]]] + q3 + [['q', [A('t')], ['true']]], [['p', [V('Q0'), V('Q1')]]])
    prog([['p', [V('X')], ['if', call('=', V('X'), A('a')), call('q', V('X'))]]] + q3, [['p', [V('Q0')]], ['p', [A('b')]]])
    prog([['p', [V('X')], ['and', ['not', call('q', V('X'))], call('=', V('X'), A('u'))]], ['p', [V('X')], ['not', call('=', V('X'), A('a'))]]] + q3, [['p', [V('Q0')]], ['p', [A('d')]], ['p', [A('a')]]])
    # if-then-else in a non-first position of a ; chain, with a continuation
    prog([['p', [V('X'), V('R')], ['and', ['or', call('=', V('X'), A('first')), ['or', ['if', call('q', V('X')), call('=', V('R'), A('then'))], call('=', V('R'), A('else'))]], call('=', V('R'), V('R'))]]] + q3, [['p', [V('Q0'), V('Q1')]]])
    prog([['p', [V('R')], ['and', ['or', ['if', ['fail'], call('=', V('R'), A('t1'))], ['or', ['if', ['true'], call('=', V('R'), A('t2'))], call('=', V('R'), A('e'))]], ['true']]]], [['p', [V('Q0')]]])
    # condition of the form  Gen, \+ G  (commit must not run the else branch as well)
    prog([['p', [V('Y'), V('R')], ['or', ['if', ['and', call('q', V('Y')), ['not', call('=', V('Y'), A('a'))]], call('=', V('R'), A('then'))], call('=', V('R'), A('else'))]],
          ['n', [], ['not', ['and', call('q', V('Y')), ['not', call('=', V('Y'), A('a'))]]]]] + q3, [['p', [V('Q0'), V('Q1')]], ['n', []]])
    prog([['p', [V('R')], ['or', ['if', ['and', call('q', V('Y')), ['or', ['if', call('=', V('Y'), A('b')), ['true']], ['fail']]], call('=', V('R'), V('Y'))], call('=', V('R'), A('else'))]]] + q3, [['p', [V('Q0')]]])
    return L

def _witness(k):
    from lib.progs import V, A
    if k == 0:
        return {'clauses': [['q', [], ['not', ['and', ['cut'], ['fail']]]]], 'queries': [['q', []]]}
    return {'clauses': [['r', [V('X')], ['or', ['if', ['and', ['cut'], ['fail']], ['call', '=', [V('X'), A('a')]]], ['call', '=', [V('X'), A('b')]]]]], 'queries': [['r', [V('Q0')]]]}

def known_witness_cases(k):
    return [_witness(0), _witness(1)] if k['id'] == 'KF-C06-1' else []

def compare(case, io, mo):
    return semcheck.compare(case, io, mo)

def classify_known(case, io, mo, known):
    """KF-C06-1: the body has a cut inside a condition / under \\+, the implementation agrees with the model of
    the compiled code, and that model differs from the SLD reference (in which such a cut is local)."""
    if not isinstance(io, dict) or 'queries' not in io or mo is None:
        return None
    if not any(progs.has_opaque_cut(b) for _, _, b in case['clauses']):
        return None
    a, b, c = semcheck.compare_parts(case, io, mo)
    if (not a) and b:
        return 'KF-C06-1'
    return None

def nontrivial(case, io):
    if not isinstance(io, dict) or 'queries' not in io or not any(q['count'] >= 1 for q in io['queries']):
        return False
    return any(progs.constructs(b) & {'or', 'if', 'not'} for _, _, b in case['clauses'])

def distribution(cases, obs):
    d = semcheck.stats(cases, obs)
    d['programs_with_opaque_cut'] = sum(1 for c in cases if any(progs.has_opaque_cut(b) for _, _, b in c['clauses']))
    return d
