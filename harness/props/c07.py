"""C07 - the fact database behaves as ordered lists for every history."""
from lib import terms
from props import dbcommon as D

ID = 'C07'
IMPORTS = ['Engine.Db', 'Engine.DbCursor', 'Engine.DbFacts', 'Engine.DbOpen', 'Engine.RunDb', 'Engine.DbProg', 'Engine.RunDbProg', 'Engine.DbProgMeta', 'Engine.RunDbProgMeta']
THEOREMS = ['C07_db_refines_list_spec', 'C07_db_refines_list_spec_from_init', 'C07_sim_op', 'C07_query_cursor_answers',
            'C07_match_binds_pattern', 'C07_ids_invariant', 'C07_nothing_raises', 'C07_compiled_updates_are_list_operations',
            'C07_compiled_refines_list_spec', 'C07_compiled_run_is_cursor_history',
            'C07_open_history_is_history', 'C07_open_assert_stores_value', 'C07_open_bindings_are_the_answer',
            'C07_open_no_lost_update', 'C07_retract_answer_is_stored', 'C07_clear_then_resume',
            'C07_meta_updates_are_list_operations']
RULE = ('histories of 3-30 operations (asserta/assertz through the builtin, through a goal held in a bound variable, '
        'through a compiled clause, and through YP.assert_fact; retract taken for k answers then closed or run to '
        'exhaustion; retractall; queries through YP.query, a compiled clause and call/1; clear) over 1-3 predicates of '
        'arity 0-3, mostly one predicate so that lists get long; all predicates are read back with all-variable queries '
        'after every operation.  Non-trivial: at least one retract answer, at least one pattern with a variable and the '
        'predicate had >= 2 facts at some point.  (b) kind dbprog: generated programs (init clause asserting 0-5 facts, a '
        'main clause of 2-9 goals over goals on dynamic facts, retract, asserta/assertz, retractall, =, calls of a helper '
        'predicate, goals held in bound variables, unknown predicates, optionally ending in fail with a second clause; half of '
        'the programs with up to 3 control constructs - !, fail, ( A ; B ), ( C -> T ; E ), ( C -> T ), \\+ C, nested once, cuts '
        'also inside conditions / negations and in the helper predicate) '
        'compiled by the real compiler and run by 2-3 queries; compared with the model Engine/DbProg.v: all answers of '
        'every query, the stored facts of every predicate at the end, the number of facts stored during the run.  '
        'Non-trivial (b): a goal that enumerates a predicate is followed in the same body by an update of that predicate.  '
        '(c) round 3: histories in which 1-2 queries / retracts are OPEN (suspended at an answer) and assert_fact / asserta / '
        'assertz (API, builtin, compiled clause, goal in a bound variable), retractall and queries are issued with arguments '
        'built from the VARIABLES OF THOSE OPEN CURSORS (bound at that moment to atoms, numbers, structures, fact variables), '
        'interleaved with advancing, exhausting, closing and dropping (del) the cursors; compared with Engine/DbOpen.v (cursor '
        'machine + bindings of each suspended cursor) and, model-free, with the value the harness reads itself before the call; '
        'non-trivial: the stored fact differs from the term as written.  Histories with cursors finished in non-LIFO order (see '
        'C14).  (d) generated programs as (b) in which database goals go through Python predicates registered with '
        'register_function that call yp.assert_fact / yp.retract / yp.retractall with the argument objects they receive '
        '(the clause variables).  Distinct by hash of the case.')
TRUSTED_BASE = [
    'Coq 8.16.1 kernel (coqc); vm_compute for the in-Coq evaluation of the model on every case',
    'no axioms: all C07 theorems are closed under the global context',
    'hand-written model Engine/Db.v, DbCursor.v, DbFacts.v of engine.py assert_fact/asserta/assertz/retract/retractall/clear/'
    'match_dynamic/_match_all_clauses/Answer/copy_term; tied to /repo by this differential run (not by translation)',
    'hand-written model Engine/DbProg.v of compiled clause bodies with database builtins (query() = facts first, then the compiled '
    'function; nested for-loops = depth-first search; database, Answer identities and allocation counter threaded through the search; '
    'control constructs in continuation style with a flag for the frame that a cut / commit leaves, as compile_body rewrites them)',
    'harness: generators, driver of the implementation (harness/props/dbcommon.py), parser of the printed observations',
    'modelled, not verified: CPython generator protocol (a generator function runs nothing until the first next())',
]
ASSUMPTIONS = ['every cursor uses its own pattern variables (bindings of different suspended goals do not interact; shared variables are C03/C13)',
               'matches that would build a cyclic term (model: stuck) are unspecified; the comparison stops there',
               'goals that are not callable (unbound, numbers) are outside the property and not generated']
CASE_TIMEOUT = 10
COQ_CHUNK = 40

def gen(rng, tier):
    n = 260 if tier == 'quick' else 4000
    cases = []
    for i in range(n):
        nops = rng.choice([3, 5, 8, 12, 16, 25])
        inter = rng.choice([0.0, 0.0, 0.0, 0.3])
        cases.append(D.gen_history(rng, nops, inter))
    for i in range(200 if tier == 'quick' else 3000):
        cases.append(D.gen_dbprog(rng, loopy=0.35))
    # round 3: API operations whose arguments are variables of OPEN cursors (bound at that moment only); cursors finished
    # in non-LIFO order
    for i in range(90 if tier == 'quick' else 2000):
        cases.append(D.gen_open_history(rng))
    for i in range(30 if tier == 'quick' else 500):
        cases.append(D.gen_nonlifo(rng))
    # database goals of compiled code issued through Python predicates (register_function) that call the API with the
    # clause's own Variable objects
    for i in range(60 if tier == 'quick' else 1200):
        cases.append(D.decorate_py(rng, D.gen_dbprog(rng, loopy=0.5)))
    # round 4: size classes of the fact store (0-3, about 16, 32-64 facts; first arguments of every kind; bound and unbound
    # first arguments in queries and retracts); clear() - API or Python predicate - while queries and retracts are suspended
    extra = [D.gen_big_history(rng) for i in range(40 if tier == 'quick' else 500)]
    extra += [D.gen_clear_history(rng) for i in range(40 if tier == 'quick' else 600)]
    if tier != 'quick':
        # thresholds beyond 64 facts (thorough tier only: the printed read-backs are large)
        big = [D.gen_big_history(rng, sizes=[100, 127, 128, 129, 200, 255, 256, 257]) for i in range(40)]
        for c in big:
            c['kind'] = 'events'
        extra += big
    extra += [D.gen_dbprog_grown(rng, loopy=0.5) for i in range(30 if tier == 'quick' else 500)]
    # round 6: the database reached through call/N, once/1, findall/3 (model: DbProgMeta)
    extra += [D.gen_dbprog_meta(rng, loopy=0.5) for i in range(70 if tier == 'quick' else 1200)]
    return D.spread(cases, extra)

def builtin_corpus():
    a, b = ['a', 'a'], ['a', 'b']
    v = lambda i: ['v', i]
    f = lambda n, *xs: ['f', n, list(xs)]
    L = []
    def c(*evs):
        evs = [list(e) for e in evs]
        L.append({'events': evs, 'keys': D.case_keys(evs)})
    # D3: zero-argument facts
    c(['assert', False, ['a', 'flag'], 'builtin'], ['start', 0, 'r', ['a', 'flag'], 'builtin'], ['next', 0], ['next', 0])
    # D4: predicates without facts
    c(['retractall', f('p', v(0)), 'builtin'], ['start', 0, 'r', f('p', v(0)), 'builtin'], ['next', 0], ['qall', 'p', [v(0)]])
    # D5: goals that arrive in a bound variable
    c(['assert', False, f('p', ['i', 7]), 'boundvar'], ['start', 0, 'r', f('p', v(0)), 'boundvar'], ['next', 0], ['next', 0])
    c(['assert', False, f('p', a), 'api'], ['assert', True, f('p', b), 'api'], ['assert', False, f('p', a), 'builtin'],
      ['start', 0, 'r', f('p', a), 'builtin'], ['next', 0], ['close', 0], ['retractall', f('p', v(0)), 'compiled'])
    c(['assert', False, f('p', a, b), 'compiled'], ['assert', False, f('p', b, b), 'compiled'], ['assert', True, f('p', a), 'builtin'],
      ['start', 0, 'q', 'p', [v(0), v(0)], 'compiled'], ['next', 0], ['next', 0], ['clear'], ['qall', 'p', [v(0), v(1)]])
    c(['assert', False, f('p', v(0), f('f', v(0))), 'builtin'], ['start', 0, 'q', 'p', [a, v(0)], 'call'], ['next', 0], ['next', 0])
    # operations inside a loop over the answers of an open query, with the loop's variables as arguments (bound at that
    # moment only): what is stored is what they denote then, whatever the query does afterwards
    for fin in (['next', 0], ['close', 0], ['drop', 0]):
        c(['assert', False, f('p', a), 'api'], ['assert', False, f('p', f('f', b)), 'api'],
          ['start', 0, 'q', 'p', [v(0)], 'api'], ['next', 0], ['open', 0, ['assert', False, f('q', v(0)), 'api']],
          ['next', 0], ['open', 0, ['assert', False, f('q', f('who', v(0))), 'api']], ['open', 0, ['assert', True, f('q', v(0)), 'builtin']],
          fin, ['qall', 'q', [v(0)]], ['start', 1, 'r', f('q', f('who', v(0))), 'builtin'], ['next', 1], ['next', 1])
    c(['assert', False, f('p', a, b), 'api'], ['assert', False, f('p', b, v(0)), 'api'], ['assert', False, f('q', b), 'api'],
      ['start', 0, 'r', f('p', v(0), v(1)), 'builtin'], ['next', 0], ['open', 0, ['assert', False, f('q', v(1)), 'compiled']],
      ['open', 0, ['qall', 'q', [v(1)]]], ['open', 0, ['retractall', f('q', v(0)), 'builtin']], ['next', 0],
      ['open', 0, ['assert', False, f('flag', v(1), f('f', v(0))), 'boundvar']], ['next', 0], ['open', 0, ['assert', False, f('q', v(1)), 'api']])
    # term objects built before a clear() are reused after it; [] in its spellings
    nil = ['a', '[]']
    for pol in [{'fact': 'held', 'pat': 'table', 'nil_fact': 'atom', 'nil_pat': 'ATOM_NIL'},
                {'fact': 'table', 'pat': 'held', 'nil_fact': 'makelist', 'nil_pat': 'atom'},
                {'fact': 'table', 'pat': 'table', 'nil_fact': 'compiled', 'nil_pat': 'atom'}]:
        c(['assert', False, f('p', a), 'api'], ['qall', 'p', [a]], ['clear'], ['assert', False, f('p', a), 'builtin'],
          ['assert', False, f('p', nil), 'api'], ['assert', False, f('p', f('f', nil, b)), 'compiled'], ['qall', 'p', [a]],
          ['qall', 'p', [nil]], ['start', 0, 'r', f('p', f('f', nil, b)), 'builtin'], ['next', 0], ['retractall', f('p', a), 'builtin'])
        L[-1]['objects'] = pol
    return L + D.dbprog_corpus()

def model_expr(case):
    if case.get('kind') == 'dbprog':
        return D.prog_model_expr(case)
    return D.model_expr(case)

def impl(case):
    if case.get('kind') == 'dbprog':
        return D.prog_run_impl(case)
    return D.drive_events(case)

def compare(case, io, mo):
    if case.get('kind') == 'dbprog':
        return D.prog_compare(case, io, mo)
    return D.compare_events(case, io, mo)

def oracle(case, io):
    if case.get('kind') == 'dbprog':
        return D.prog_oracle(case, io)
    return D.list_oracle(case, io)

def nontrivial(case, io):
    if case.get('kind') == 'dbprog':
        return D.prog_nontrivial(case, io)
    ret_ans = False
    patvar = False
    long_list = any(len(l) >= 2 for o in io if len(o) == 2 and isinstance(o[1], list) for l in o[1])
    kind = {}
    opened = False
    for e, o in zip(case['events'], io):
        if e[0] == 'open' and e[2][0] == 'assert' and len(o) == 2 and len(o[0]) == 2 and o[0][0] == 'ok':
            # an assert over the variables of an open cursor stored something that differs from the term as written
            # (a variable was bound at that moment)
            t = e[2][2]
            written = D.canon_args([terms.term_obs(a) for a in (t[2] if t[0] == 'f' else [])])
            if o[0][1][2] != written:
                opened = True
        if e[0] == 'start':
            kind[e[1]] = e[2]
            t = e[3] if e[2] == 'r' else ['f', e[3], e[4]]
            if terms.term_vars(t):
                patvar = True
        if e[0] == 'next' and kind.get(e[1]) == 'r' and len(o) == 2 and o[0][0] == 'ans':
            ret_ans = True
    return opened or (ret_ans and patvar and long_list)

def describe(case):
    if case.get('kind') == 'dbprog':
        return D.prog_describe(case)
    return [D.show_event(e) for e in case['events']] + (['term objects: %r' % case['objects']] if case.get('objects') else [])

def shrink(case):
    if case.get('kind') == 'dbprog':
        yield from D.prog_shrink(case)
    else:
        yield from D.shrink_events(case)

def distribution(cases, obs):
    d = {'events': {}, 'length': {}, 'keys': {}, 'via': {}, 'ended': {'complete': 0, 'deep': 0, 'raised': 0}, 'retract_answers': 0, 'max_list_len': {}}
    d['kinds'] = {}
    d['prog_goals'] = {}
    for c, o in zip(cases, obs):
        kd = c.get('kind', 'events')
        d['kinds'][kd] = d['kinds'].get(kd, 0) + 1
        if kd == 'dbprog':
            for cl in c['clauses']:
                for g in cl['body']:
                    d['prog_goals'][g[0]] = d['prog_goals'].get(g[0], 0) + 1
                for g in D.flat_goals(cl['body']):
                    if g[0] in ('cut', 'fail'):
                        d['prog_goals']['nested:' + g[0]] = d['prog_goals'].get('nested:' + g[0], 0) + 1
            if any(g[0] in ('cut', 'fail', 'or', 'if', 'ifthen', 'not') for cl in c['clauses'] for g in cl['body']):
                d['kinds']['dbprog with control'] = d['kinds'].get('dbprog with control', 0) + 1
            if c.get('meta'):
                d['kinds']['dbprog with meta-calls'] = d['kinds'].get('dbprog with meta-calls', 0) + 1
                for cl in c['clauses']:
                    for g in D.flat_goals(cl['body']):
                        if g[0] == 'c' and g[1] in ('call', 'once', 'findall'):
                            kk = 'meta:%s/%d' % (g[1], len(g[2]))
                            d['prog_goals'][kk] = d['prog_goals'].get(kk, 0) + 1
            e = o['end'] if isinstance(o, dict) else 'other'
            d['ended'][e] = d['ended'].get(e, 0) + 1
            continue
        sh = c.get('shape', 'random')
        d.setdefault('history_shapes', {})
        d['history_shapes'][sh] = d['history_shapes'].get(sh, 0) + 1
        for e in c['events']:
            d['events'][e[0]] = d['events'].get(e[0], 0) + 1
            if e[0] == 'open':
                kk = 'open:' + e[2][0] + (':' + e[2][3] if e[2][0] == 'assert' else '')
                d['events'][kk] = d['events'].get(kk, 0) + 1
            if e[0] in ('assert', 'start', 'retractall'):
                d['via'][e[-1]] = d['via'].get(e[-1], 0) + 1
        b = str(len(c['events']) // 5 * 5)
        d['length'][b] = d['length'].get(b, 0) + 1
        d['keys'][str(len(c['keys']))] = d['keys'].get(str(len(c['keys'])), 0) + 1
        if o and o[-1] == ['deep']:
            d['ended']['deep'] += 1
        elif o and o[-1][0] == 'raised':
            d['ended']['raised'] += 1
        else:
            d['ended']['complete'] += 1
        m = 0
        for x in o:
            if len(x) == 2 and isinstance(x[1], list):
                for l in x[1]:
                    m = max(m, len(l))
        d['max_list_len'][str(m)] = d['max_list_len'].get(str(m), 0) + 1
    return d
