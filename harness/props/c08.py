"""C08 - call resolution: facts first, exact arity, load order, late binding.

A case is a history of engine operations (register_function in its three styles, load_script_from_string
with overwrite on/off of compiled Prolog / scripts that raise while exec'd / syntactically broken Python,
assert_fact, clear, and queries that are started, resumed answer by answer and left suspended across later
operations) plus a list of probes (name, arity); after EVERY operation every probe is queried with fresh
variables and its answers are recorded in order.  The same history is run through the Coq model
Engine/RunResolve.v (inside Coq) and the observations must be equal.

JSON shapes
  def    {'params': n | None, 'clauses': [{'nlocals': k, 'goals': [goal..]}], 'kind': one of CALLABLE_KINDS (optional; only
         for registered Python predicates: what kind of callable object is handed to register_function)}
  goal   ['u', v, atom] | ['c', name, [v..]] | ['cut'] | ['raise']        (v = index into args ++ locals)
         | {'params': None, 'clauses': [], 'const': z}    (the constant number z: CONSTS[z], not callable)
  op     ['reg', name, 'infer' | ['explicit', n] | 'variadic', def]
         ['load', {'stmts': [stmt..], 'broken': bool}, overwrite]
  stmt   ['def', name, arity, def]          compiled Prolog (the compiler's text of the definition)
         ['pydef', key, def]                hand-written generator function `def key(a0, ..):` (any key, any parameter count)
         ['lam', key, def]                  `key = lambda a0, ..: (yield from <the one goal of def>)`
         ['const', key, z]                  `key = CONSTS[z]`        ['none', key]   `key = None`
         ['del', key]                       `del key`                ['self', key]   `key = key`
         ['fail', kind]                     a statement that raises (1/0, unknown name, import, class, ...)
         ['assert', name, [atom..], append] | ['clear'] | ['start', name, n] | ['next', i] | ['close', i]
"""
import re, copy, json, random, zlib
from lib import terms
from lib.terms import g_str, g_list, g_nat, g_bool, g_pair

ID = 'C08'
IMPORTS = ['Engine.Resolve', 'Engine.RunResolve']
THEOREMS = [
    'C08_lookup_spec',
    'C08_assert_fact_get',
    'C08_fact_answers_in_order',
    'C08_unknown_predicate_fails',
    'C08_exact_over_variadic',
    'C08_variadic_only_without_exact',
    'C08_key_determines_name_and_arity',
    'C08_other_arity_never',
    'C08_reserved_exact',
    'C08_reserved_only_facts',
    'C08_predicate_keys_never_api_names',
    'C08_load_val',
    'C08_load_get',
    'C08_load_get_def',
    'C08_load_overwrite_exact',
    'C08_load_chain_order',
    'C08_load_frame',
    'C08_load_del_unaffected',
    'C08_load_fail_atomic',
    'C08_load_ok_iff',
    'C08_load_op_atomic',
    'C08_raised_load_resolves_as_before',
    'C08_load_none_hides_variadic',
    'C08_load_none_unbound',
    'C08_noncallable_member_raises',
    'C08_register_get',
    'C08_history_refines_spec',
    'C08_defs_of_spec',
    'C08_chain_cut_local',
    'C08_chain_concat',
    'C08_chain_raise_stops',
    'C08_late_binding',
    'C08_load_order_irrelevant',
    'C08_resolution_at_first_resumption',
    'C08_resolution_moment',
    'C08_resolved_call_keeps_definitions',
    'C08_call_time_resolution',
    'C08_call_time_resolution_answers',
    'C08_created_query_unresolved',
    'C08_unstarted_query_sees_engine_of_first_next',
    'C08_nexts_are_schedule',
    'C08_history_call_time_resolution',
    'C08_drain_is_constant_schedule']
FUEL = 12
LIM = 14
CASE_TIMEOUT = 20
COQ_CHUNK = 25

RESERVED = ['__builtins__', 'variable', 'atom', 'functor', 'functor1', 'functor2', 'functor3', 'listpair',
            'makelist', 'ATOM_NIL', 'unify', 'match_dynamic', 'query', 'True', 'False']

RULE = ('histories of 4-16 operations over {register_function (arity None / n / negative; the callable is a plain def or - 60 % - a '
        'functools.wraps wrapper (single / double), functools.partial, bound method, classmethod, callable instance, lambda with defaults, '
        'trampoline with __signature__, decorated bound method, each around a fixed-parameter or *args predicate), load_script_from_string '
        '(overwrite on/off; compiled Prolog and hand-written Python: generator functions and lambdas under any key and with any parameter count, '
        'constants / None bound to predicate keys and to other names, del / self-assignment of names, statements raising at exec after some bindings '
        '(1/0, unknown names, import, class), broken Python), registration of non-functions, assert_fact, clear, '
        'start/next/close of suspended queries (created / suspended on a fact / suspended inside a definition while facts '
        'and definitions change)}; after every operation every name/arity in play is queried (answers in order); in 40 % of the cases every name is queried at ALL arities 0..4.  Non-trivial: at some point a key holds >= 2 chained definitions or a name has both an exact and a '
        'variadic definition.  Distinct by hash of the case.')
TRUSTED_BASE = [
    'Coq 8.16.1 kernel (coqc); vm_compute for the in-Coq evaluation of the model on every case',
    'no axioms: all C08 theorems are closed under the global context',
    'hand-written model Engine/Resolve.v of YP.query / match_dynamic / register_function / load_script_from_string / '
    'chain_functions / clear; tied to /repo by this differential run (not by translation)',
    'modelled, not verified: CPython generators (a generator = engine -> Done | Yield answer generator), exec/compile of '
    'a script (statement list: def / lambda / constant / None bound to a key, del, self-assignment, raise), `def` creating a new '
    'function object, `!=` on functions / constants / None / chain closures, inspect.signature',
    'definitions are abstracted to clauses over {V = atom, call, !, raise}; the compiler maps the generated Prolog '
    'text to them (checked by running the compiled text), Python predicates are interpreters of the same clauses',
    'harness: generators, driver of the implementation (harness/props/c08.py), parser of the printed observations',
]
ASSUMPTIONS = ['scripts do not rebind or delete the API names (atom, query, ..) or the keys of the builtin predicates (=_2, call_n, '
               'once_1, ..): outside the property', 'functions in scripts reach other predicates through query(..), not by their Python name',
               'a key bound to the same object under two names (k2 = k1) is not generated (the model has value identity for constants and '
               'None, fresh identity for every def/lambda)',
               'nobody asserts facts for or redefines the builtin =/2 used by generated bodies',
               'histories whose model run exhausts the call-depth fuel (recursive definitions) are not compared']

# ------------------------------------------------------------------ Gallina text

def g_goal(g):
    if g[0] == 'u':
        return '(GUnify %s %s)' % (g_nat(g[1]), g_str(g[2]))
    if g[0] == 'c':
        return '(GCall %s %s)' % (g_str(g[1]), g_list([g_nat(v) for v in g[2]]))
    if g[0] == 'cut':
        return 'GCut'
    if g[0] == 'raise':
        return 'GRaise'
    raise ValueError(g)

def g_def(d):
    if 'const' in d:
        return '(mkConst %d)' % d['const']
    p = 'None' if d['params'] is None else '(Some %s)' % g_nat(d['params'])
    cls = g_list(['(mkClause %s %s)' % (g_nat(c['nlocals']), g_list([g_goal(g) for g in c['goals']])) for c in d['clauses']])
    return '(mkDef %s %s)' % (p, cls)

def g_style(s):
    if s == 'infer':
        return 'RInfer'
    if s == 'variadic':
        return 'RVariadic'
    return '(RExplicit %s)' % g_nat(s[1])

def stmt_key(st):
    if st[0] == 'def':
        return '%s_%d' % (st[1], st[2])
    return st[1]

def const_def(z):
    return {'params': None, 'clauses': [], 'const': z}

def stmt_member(st):
    """the object a binding statement binds its key to (a def / the constant), None for the other kinds"""
    if st[0] == 'def':
        return st[3]
    if st[0] in ('pydef', 'lam'):
        return st[2]
    if st[0] == 'const':
        return const_def(st[2])
    return None

def g_script(sc):
    ss = []
    for st in sc['stmts']:
        if st[0] in ('def', 'pydef', 'lam', 'const'):
            ss.append('(SDef %s %s)' % (g_str(stmt_key(st)), g_def(stmt_member(st))))
        elif st[0] == 'none':
            ss.append('(SNone %s)' % g_str(st[1]))
        elif st[0] == 'del':
            ss.append('(SDel %s)' % g_str(st[1]))
        elif st[0] == 'self':
            ss.append('(SSelf %s)' % g_str(st[1]))
        elif st[0] == 'fail':
            ss.append('SFail')
        else:
            raise ValueError(st)
    return '(mkScript %s %s)' % (g_bool(bool(sc.get('broken'))), g_list(ss))

def g_op(o):
    k = o[0]
    if k == 'reg':
        return '(ORegister %s %s %s)' % (g_str(o[1]), g_style(o[2]), g_def(o[3]))
    if k == 'load':
        return '(OLoad %s %s)' % (g_script(o[1]), g_bool(o[2]))
    if k == 'assert':
        return '(OAssert %s %s %s)' % (g_str(o[1]), g_list([g_str(a) for a in o[2]]), g_bool(o[3]))
    if k == 'clear':
        return 'OClear'
    if k == 'start':
        return '(OStart %s %s)' % (g_str(o[1]), g_nat(o[2]))
    if k == 'next':
        return '(ONext %s)' % g_nat(o[1])
    if k == 'close':
        return '(OClose %s)' % g_nat(o[1])
    raise ValueError(o)

def model_expr(case):
    probes = g_list([g_pair(g_str(n), g_nat(a)) for n, a in case['probes']])
    return '(run_history %s %s %s %s)' % (g_nat(case.get('fuel', FUEL)), g_nat(case.get('lim', LIM)), probes,
                                          g_list([g_op(o) for o in case['ops']]))

# ------------------------------------------------------------------ Prolog / Python text of a script

def _pv(v, n):
    return ('A%d' % v) if v < n else ('L%d' % v)

def prolog_of_def(name, n, d):
    out = []
    for c in d['clauses']:
        head = name if n == 0 else '%s(%s)' % (name, ','.join(_pv(i, n) for i in range(n)))
        gs = []
        for g in c['goals']:
            if g[0] == 'u':
                gs.append('%s = %s' % (_pv(g[1], n), g[2]))
            elif g[0] == 'c':
                gs.append(g[1] if not g[2] else '%s(%s)' % (g[1], ','.join(_pv(v, n) for v in g[2])))
            elif g[0] == 'cut':
                gs.append('!')
            else:
                raise ValueError('a compiled definition cannot raise')
        out.append(head + (' :- ' + ', '.join(gs) if gs else '') + '.')
    return '\n'.join(out) + '\n'

FAIL_STMTS = ['_x = 1/0\n', 'some_undefined_name_\n', 'atom()\n', '[][1]\n',
              'import os\n', 'class Helper:\n    pass\n', 'from yldprolog import engine\n', 'print(1)\n',
              '_y = undefined_table_[0]\n', 'assert not True\n']
# constants a hand-written script keeps next to its predicates: not callable, pairwise different (Python ==)
CONSTS = ['4', "'abc'", '[1, 2]', '(1,)', '{}', '3.5', "{'k': [7]}", '[]']

def _py_goals(gs, env, ind, out):
    """nested for-loops of a hand-written generator function (only names of the script context are used:
    there are no builtins inside a loaded script)"""
    pad = '    ' * ind
    if not gs:
        out.append(pad + 'yield False')
        return
    g = gs[0]
    if g[0] == 'u':
        if g[1] >= len(env):
            _py_goals(gs[1:], env, ind, out)
            return
        out.append(pad + 'for _u in unify(%s, atom(%r)):' % (env[g[1]], g[2]))
        _py_goals(gs[1:], env, ind + 1, out)
    elif g[0] == 'c':
        out.append(pad + 'for _c in query(%r, [%s]):' % (g[1], ', '.join(env[v] for v in g[2] if v < len(env))))
        _py_goals(gs[1:], env, ind + 1, out)
    elif g[0] == 'cut':
        _py_goals(gs[1:], env, ind, out)
        out.append(pad + 'return')
    elif g[0] == 'raise':
        out.append(pad + '[][1]')
    else:
        raise ValueError(g)

def pydef_text(key, d):
    n = d['params']
    ps = ['a%d' % i for i in range(n)]
    out = ['def %s(%s):' % (key, ', '.join(ps))]
    for ci, c in enumerate(d['clauses']):
        env = ps + ['l%d_%d' % (ci, j) for j in range(c['nlocals'])]
        for j in range(c['nlocals']):
            out.append('    %s = variable()' % env[n + j])
        _py_goals(c['goals'], env, 1, out)
    out += ['    if False:', '        yield False', '']
    return '\n'.join(out)

def lam_text(key, d):
    n = d['params']
    ps = ['a%d' % i for i in range(n)]
    (c,) = d['clauses']
    (g,) = c['goals']
    if g[0] == 'u':
        e = 'unify(%s, atom(%r))' % (ps[g[1]], g[2])
    else:
        e = 'query(%r, [%s])' % (g[1], ', '.join(ps[v] for v in g[2]))
    return '%s = lambda %s: (yield from %s)\n' % (key, ', '.join(ps), e)

BROKEN_TAILS = ['def (:\n', '  x = = 1\n', 'for in\n', '"unterminated\n']

def script_text(sc):
    from yldprolog.compiler import compile_prolog_from_string
    parts = []
    for st in sc['stmts']:
        if st[0] == 'def':
            txt = compile_prolog_from_string(prolog_of_def(st[1], st[2], st[3]))
            names = re.findall(r'(?m)^def\s+([A-Za-z_0-9]+)\s*\(', txt)
            if names != [stmt_key(st)]:
                raise AssertionError('compiled text defines %r, expected %r' % (names, [stmt_key(st)]))
            parts.append(txt)
        elif st[0] == 'pydef':
            parts.append(pydef_text(st[1], st[2]))
        elif st[0] == 'lam':
            parts.append(lam_text(st[1], st[2]))
        elif st[0] == 'const':
            parts.append('%s = %s\n' % (st[1], CONSTS[st[2] % len(CONSTS)]))
        elif st[0] == 'none':
            parts.append('%s = None\n' % st[1])
        elif st[0] == 'del':
            parts.append('del %s\n' % st[1])
        elif st[0] == 'self':
            parts.append('%s = %s\n' % (st[1], st[1]))
        else:
            parts.append(FAIL_STMTS[st[1] % len(FAIL_STMTS)])
    if sc.get('broken'):
        pos = sc.get('broken_pos', len(parts))
        parts.insert(min(pos, len(parts)), BROKEN_TAILS[sc.get('broken_kind', 0) % len(BROKEN_TAILS)])
    return '\n'.join(parts)

# ------------------------------------------------------------------ implementation side

def make_pyfunc(yp, E, d):
    """A Python predicate that interprets the clauses of d (yields once per answer)."""
    if 'const' in d:
        return eval(CONSTS[d['const'] % len(CONSTS)], {})
    def goals(gs, env):
        # generator; its return value says whether a cut was executed
        if not gs:
            yield False
            return False
        g = gs[0]
        if g[0] == 'u':
            if g[1] >= len(env):
                return (yield from goals(gs[1:], env))
            for _ in E.unify(env[g[1]], yp.atom(g[2])):
                if (yield from goals(gs[1:], env)):
                    return True
            return False
        if g[0] == 'c':
            args = [env[v] for v in g[2] if v < len(env)]
            for _ in yp.query(g[1], args):
                if (yield from goals(gs[1:], env)):
                    return True
            return False
        if g[0] == 'cut':
            yield from goals(gs[1:], env)
            return True
        raise ValueError('predicate raises')
    def run(args):
        for c in d['clauses']:
            env = list(args) + [yp.variable() for _ in range(c['nlocals'])]
            if (yield from goals(c['goals'], env)):
                return
    ns = {'run': run}
    if d['params'] is None:
        exec('def f(*args):\n  return run(args)\n', ns)
    else:
        ps = ','.join('a%d' % i for i in range(d['params']))
        exec('def f(%s):\n  return run((%s))\n' % (ps, ps + (',' if d['params'] else '')), ns)
    return dress(ns['f'], d.get('kind', 'plain'), d['params'])

# The kinds of callable an application registers.  All of them ADVERTISE (inspect.signature) exactly the parameters of the
# predicate f they are made from - d['params'] positional ones, or *args - and accept exactly what f accepts, so the
# property (and the model, which knows only the number of parameters) treats them alike.
CALLABLE_KINDS = ['plain', 'wraps', 'wraps2', 'partial', 'method', 'callable', 'defaults', 'sigattr', 'classmethod', 'wraps_method']

def dress(f, kind, params):
    import functools
    if kind == 'plain':
        return f
    if kind in ('wraps', 'wraps2', 'wraps_method'):
        def decorate(g):
            @functools.wraps(g)
            def wrapper(*args, **kwargs):
                return g(*args, **kwargs)
            return wrapper
        if kind == 'wraps_method':
            class Holder(object):
                pass
            Holder.pred = decorate(lambda self, *a: f(*a)) if params is None else decorate(_with_self(f, params))
            return Holder().pred
        return decorate(f) if kind == 'wraps' else decorate(decorate(f))
    if kind == 'partial':
        return functools.partial(_with_self(f, params), 'bound-first-argument')
    if kind in ('method', 'classmethod', 'callable'):
        g = _with_self(f, params)
        if kind == 'method':
            class Preds(object):
                pred = g
            return Preds().pred
        if kind == 'classmethod':
            class CPreds(object):
                pred = classmethod(g)
            return CPreds.pred
        class Callable(object):
            __call__ = g
        return Callable()
    if kind == 'defaults':
        # a lambda whose parameters all have defaults, but which refuses (when it is CALLED, like a function without
        # defaults) to run with fewer arguments
        if not params:
            return f
        missing = object()
        def need(*args):
            if any(a is missing for a in args):
                raise TypeError('missing argument')
            return f(*args)
        ps = ['a%d' % i for i in range(params)]
        return eval('lambda %s: need(%s)' % (', '.join(p + '=missing' for p in ps), ', '.join(ps)), {'need': need, 'missing': missing})
    if kind == 'sigattr':
        # a generic trampoline that advertises the signature of the predicate (what decorator libraries do)
        import inspect
        def trampoline(*args, **kwargs):
            return f(*args, **kwargs)
        trampoline.__signature__ = inspect.signature(f)
        return trampoline
    raise ValueError(kind)

def _with_self(f, params):
    """g(self, <the parameters of f>) = f(<the parameters>)"""
    ns = {'f': f}
    if params is None:
        exec('def g(self, *args):\n  return f(*args)\n', ns)
    else:
        ps = ', '.join('a%d' % i for i in range(params))
        exec('def g(self%s):\n  return f(%s)\n' % (''.join(', a%d' % i for i in range(params)), ps), ns)
    return ns['g']

def _read(E, v):
    x = E.get_value(v)
    if isinstance(x, E.Atom):
        return x.name()
    if isinstance(x, E.Variable):
        return []
    return ['?', repr(type(x))]

def _probe(yp, E, name, n, lim):
    vs = [yp.variable() for _ in range(n)]
    q = yp.query(name, vs)
    answers = []
    end = None
    while True:
        try:
            next(q)
        except StopIteration:
            end = 'done'
            break
        except RecursionError:
            end = 'oof'
            break
        except Exception:
            end = 'raised'
            break
        if len(answers) >= lim:
            end = 'more'
            q.close()
            break
        answers.append([_read(E, v) for v in vs])
    unbound_after = all(isinstance(E.get_value(v), E.Variable) for v in vs)
    return [answers, [end]], unbound_after

def impl(case):
    from yldprolog import engine as E
    yp = E.YP()
    lim = case.get('lim', LIM)
    susp = []
    out = []
    leaks = 0
    for o in case['ops']:
        k = o[0]
        res = ['ok']
        if k == 'reg':
            f = make_pyfunc(yp, E, o[3])
            try:
                if o[2] == 'infer':
                    yp.register_function(o[1], f)
                elif o[2] == 'variadic':
                    yp.register_function(o[1], f, arity=-1)
                else:
                    yp.register_function(o[1], f, arity=o[2][1])
            except RecursionError:
                raise
            except Exception:
                res = ['raised']
        elif k == 'load':
            txt = script_text(o[1])
            try:
                yp.load_script_from_string(txt, overwrite=o[2])
            except RecursionError:
                raise
            except Exception:
                res = ['raised']
        elif k == 'assert':
            yp.assert_fact(yp.atom(o[1]), [yp.atom(a) for a in o[2]], o[3])
        elif k == 'clear':
            yp.clear()
        elif k == 'start':
            vs = [yp.variable() for _ in range(o[2])]
            susp.append([yp.query(o[1], vs), vs])
        elif k == 'next':
            if o[1] >= len(susp):
                res = ['nosuch']
            else:
                q, vs = susp[o[1]]
                try:
                    next(q)
                    res = ['ans', [_read(E, v) for v in vs]]
                except StopIteration:
                    res = ['stop']
                except RecursionError:
                    res = ['oof']
                except Exception:
                    res = ['raised']
        elif k == 'close':
            if o[1] >= len(susp):
                res = ['nosuch']
            else:
                susp[o[1]][0].close()
        probes = []
        for name, n in case['probes']:
            p, ok = _probe(yp, E, name, n, lim)
            probes.append(p)
            if not ok:
                leaks += 1
        out.append([res, probes])
    return {'steps': out, 'leaks': leaks}

# ------------------------------------------------------------------ comparison

def _has_oof(x):
    if isinstance(x, list):
        return x == ['oof'] or any(_has_oof(y) for y in x)
    return False

def compare(case, io, mo):
    if _has_oof(mo):
        return None
    if not isinstance(io, dict):
        return 'implementation side failed: %r' % (io,)
    if io['steps'] != mo:
        for i, (a, b) in enumerate(zip(io['steps'], mo)):
            if a != b:
                if a[0] != b[0]:
                    return 'operation %d (%s): result %r, model expects %r' % (i, case['ops'][i][0], a[0], b[0])
                for (pn, pa), x, y in zip(case['probes'], a[1], b[1]):
                    if x != y:
                        return 'after operation %d (%s): query %s/%d gives %r, model expects %r' % (
                            i, case['ops'][i][0], pn, pa, x, y)
        return 'implementation and model disagree'
    return None

# ------------------------------------------------------------------ intrinsic oracle (the property itself, on the implementation alone)

def _key(name, n):
    return '%s_%s' % (name, 'n' if n is None else n)

def _simple_def_answers(d, n):
    """answers of a definition without calls, called with n unbound distinct arguments:
    (list of answers, raised?)"""
    answers = []
    for c in d['clauses']:
        env = list(range(n)) + list(range(n, n + c['nlocals']))
        st = {}
        cut = False
        failed = False
        for g in c['goals']:
            if g[0] == 'u':
                if g[1] >= len(env):
                    continue
                v = env[g[1]]
                if v in st and st[v] != g[2]:
                    failed = True
                    break
                st[v] = g[2]
            elif g[0] == 'cut':
                cut = True
            elif g[0] == 'raise':
                return answers, True
            else:
                raise ValueError
        if not failed:
            answers.append([st.get(v, []) for v in range(n)])
        if cut:
            break
    return answers, False

def _callfree(d):
    return all(g[0] != 'c' for c in d['clauses'] for g in c['goals'])

def _callable_with(d, n):
    """can the object be called with n arguments (a constant cannot be called at all)"""
    return 'const' not in d and (d['params'] is None or d['params'] == n)

class Spec:
    """The property statement as a tiny state machine: facts per name/arity, definition lists per key."""
    def __init__(self):
        self.facts = {}
        self.ctx = {}
        self.maxchain = 0
        self.exact_and_variadic = False
    def exec_script(self, sc):
        """what the script does to the keys it names ({key: ('new', object) | ('none',) | ('del',)}), or None when the
        load has to raise: text that does not compile, a raising statement, `del k` / `k = k` of a name that is not
        bound at that point (scripts see a copy of the context, so this depends on the engine's state)"""
        if sc.get('broken'):
            return None
        bound = set(self.ctx)
        eff = {}
        for st in sc['stmts']:
            if st[0] == 'fail':
                return None
            key = stmt_key(st)
            m = stmt_member(st)
            if m is not None:
                eff[key] = ('new', m)
                bound.add(key)
            elif st[0] == 'none':
                eff[key] = ('none',)
                bound.add(key)
            elif st[0] == 'del':
                if key not in bound:
                    return None
                bound.discard(key)
                eff[key] = ('del',)
            elif st[0] == 'self':
                if key not in bound:
                    return None
        return eff
    def apply(self, o, ok):
        k = o[0]
        if k == 'reg' and ok:
            d = o[3]
            if o[2] == 'infer':
                key = _key(o[1], d['params'] if d['params'] is not None else 1)
            elif o[2] == 'variadic':
                key = _key(o[1], None)
            else:
                key = _key(o[1], o[2][1])
            self.ctx[key] = [d]
        elif k == 'load' and ok:
            # a key bound to None is a key with the empty list (it is BOUND: the variadic registration is not consulted)
            for key, e in (self.exec_script(o[1]) or {}).items():
                if e[0] == 'new':
                    if o[2]:
                        self.ctx[key] = [e[1]]
                    else:
                        self.ctx[key] = self.ctx.get(key, []) + [e[1]]
                elif e[0] == 'none':
                    # not bound / bound to None: `!=` is False, skipped; combine: chain(old, None) = old
                    if self.ctx.get(key) and o[2]:
                        self.ctx[key] = []
        elif k == 'assert':
            key = (o[1], len(o[2]))
            self.facts[key] = (self.facts.get(key, []) + [o[2]]) if o[3] else ([o[2]] + self.facts.get(key, []))
        elif k == 'clear':
            self.facts = {}
            self.ctx = {}
        for key, v in self.ctx.items():
            self.maxchain = max(self.maxchain, len(v))
            if key.endswith('_n') and v and any(
                    k2 != key and self.ctx[k2] and KEY_RE.match(k2) and KEY_RE.match(k2).group(1) == key[:-2]
                    and KEY_RE.match(k2).group(2).isdigit() for k2 in self.ctx):
                self.exact_and_variadic = True
    def call_defs(self, name, n):
        """the definitions a call name/n uses: exactly n arguments, else the variadic ones; none for an API name"""
        if name in RESERVED:
            return []
        ds = self.ctx.get(_key(name, n))
        if ds is None:
            ds = self.ctx.get(_key(name, None), [])
        return list(ds)
    def expected(self, name, n, lim):
        """(answers, end) when the statement determines them without running calls, else (facts prefix, None)"""
        fa = [list(f) for f in self.facts.get((name, n), [])]
        ds = self.call_defs(name, n)
        if not all(_callfree(d) for d in ds):
            return fa, None
        if any(not _callable_with(d, n) for d in ds):
            return fa, 'raised'
        ans = list(fa)
        for d in ds:
            a, raised = _simple_def_answers(d, n)
            ans += a
            if raised:
                return ans, 'raised'
        return ans, 'done'

def load_should_fail(sc):
    """raises whatever the state of the engine (see Spec.exec_script for `del` / `k = k`)"""
    return bool(sc.get('broken')) or any(st[0] == 'fail' for st in sc['stmts'])

def reg_should_fail(o):
    return o[2] == 'infer' and 'const' in o[3]          # inspect.signature(<constant>) raises

class Suspended:
    """What the property demands of a query object that is resumed answer by answer while the engine is changed:
    nothing is fixed before its first `next`; at its first `next` the call is made - the facts of name/N and the
    definitions for name/N of THAT moment are what it answers (fully determined when these definitions make no calls,
    otherwise only the facts are), whatever is loaded / registered / asserted / cleared afterwards."""
    def __init__(self, name, n):
        self.name, self.n = name, n
        self.state = 'new'          # new | run | unknown | dead
        self.exp, self.end, self.pos = None, None, 0
        self.nfacts = 0
    def on_next(self, spec, res):
        """returns an error text or None"""
        if res[0] == 'oof':
            self.state = 'unknown'
            return None
        if self.state == 'dead':
            return None if res == ['stop'] else 'a query that has ended was resumed and gave %r' % (res,)
        if self.state == 'new':
            self.exp, self.end = spec.expected(self.name, self.n, None)
            self.nfacts = len(spec.facts.get((self.name, self.n), []))
            self.first_ctx = spec.call_defs(self.name, self.n)
            self.state, self.pos = 'run', 0
        if self.state == 'unknown':
            if res[0] in ('stop', 'raised'):
                self.state = 'dead'
            return None
        if self.pos < len(self.exp):
            want = ['ans', self.exp[self.pos]]
            self.pos += 1
            if res != want:
                return '%s/%d, made at its first next, must answer %r here (%s of the moment of the call), got %r' % (
                    self.name, self.n, want, 'fact' if self.pos <= self.nfacts else 'definitions', res)
            return None
        if self.end is None:
            self.state = 'unknown'
            if res[0] in ('stop', 'raised'):
                self.state = 'dead'
            return None
        want = ['stop'] if self.end == 'done' else ['raised']
        self.state = 'dead'
        if res != want:
            return '%s/%d, made at its first next, must end with %r after its %d answers, got %r' % (
                self.name, self.n, want, len(self.exp), res)
        return None
    def in_facts(self):
        return self.state == 'run' and 0 < self.pos <= self.nfacts

def oracle(case, io):
    if not isinstance(io, dict):
        return None
    if io['leaks']:
        return 'a query variable is still bound after the query ended'
    spec = Spec()
    lim = case.get('lim', LIM)
    prev = None
    susp = []
    for i, (o, (res, probes)) in enumerate(zip(case['ops'], io['steps'])):
        if o[0] == 'load':
            want = 'raised' if spec.exec_script(o[1]) is None else 'ok'
            if res[0] != want:
                return 'operation %d: load %s but should have %s' % (i, res[0], want)
            if res[0] == 'raised' and prev is not None and probes != prev:
                return 'operation %d: a load that raised changed the answers of some predicate' % i
        elif o[0] == 'reg':
            want = 'raised' if reg_should_fail(o) else 'ok'
            if res[0] != want:
                return 'operation %d: register_function %s but should have %s' % (i, res[0], want)
            if res[0] == 'raised' and prev is not None and probes != prev:
                return 'operation %d: a register_function that raised changed the answers of some predicate' % i
        elif o[0] == 'start':
            susp.append(Suspended(o[1], o[2]))
        elif o[0] == 'next':
            if o[1] >= len(susp):
                if res != ['nosuch']:
                    return 'operation %d: driver error' % i
            else:
                err = susp[o[1]].on_next(spec, res)
                if err:
                    return 'operation %d (next of suspended query %d): %s' % (i, o[1], err)
        elif o[0] == 'close' and o[1] < len(susp):
            susp[o[1]].state = 'dead'
        spec.apply(o, res[0] == 'ok')
        for (name, n), p in zip(case['probes'], probes):
            exp, end = spec.expected(name, n, lim)
            got, gend = p[0], p[1][0]
            if gend == 'oof':
                continue
            if end is None:
                if got[:len(exp)] != exp[:lim][:len(got)] or (len(got) < min(len(exp), lim)):
                    return 'after operation %d: %s/%d does not start with its facts in order (%r, facts %r)' % (i, name, n, got, exp)
            else:
                if len(exp) > lim:
                    exp, end = exp[:lim], 'more'
                if got != exp or gend != end:
                    return 'after operation %d (%s): %s/%d answers %r %s, the property demands %r %s' % (
                        i, o[0], name, n, got, gend, exp, end)
        prev = probes
    return None

def suspended_stats(case, io):
    """(number of `next` that resume a call suspended on one of its FACTS after the definitions for its name/arity
    were changed, number of first `next` of a query object created before a change of its facts or definitions)"""
    spec = Spec()
    susp = []
    on_fact = unstarted = 0
    for o, (res, probes) in zip(case['ops'], io['steps']):
        if o[0] == 'start':
            q = Suspended(o[1], o[2])
            q.created = (spec.call_defs(o[1], o[2]), list(spec.facts.get((o[1], o[2]), [])))
            susp.append(q)
        elif o[0] == 'next' and o[1] < len(susp):
            q = susp[o[1]]
            if q.state == 'new' and q.created != (spec.call_defs(q.name, q.n), list(spec.facts.get((q.name, q.n), []))):
                unstarted += 1
            if q.in_facts() and q.first_ctx != spec.call_defs(q.name, q.n):
                on_fact += 1
            q.on_next(spec, res)
        elif o[0] == 'close' and o[1] < len(susp):
            susp[o[1]].state = 'dead'
        spec.apply(o, res[0] == 'ok')
    return on_fact, unstarted

def nontrivial(case, io):
    if not isinstance(io, dict):
        return False
    spec = Spec()
    for o, (res, probes) in zip(case['ops'], io['steps']):
        spec.apply(o, res[0] == 'ok')
    return spec.maxchain >= 2 or spec.exact_and_variadic

# ------------------------------------------------------------------ generator

USER_NAMES = ['r', 'foo_1', 'foo_n', 'q', 'foo', 'once_1', 'p']
LEVEL = {'r': 0, 'foo_1': 0, 'foo_n': 0, 'q': 1, 'foo': 1, 'once_1': 1, 'p': 2}
RES_NAMES = ['atom', 'query', 'unify', 'variable', 'functor', 'match_dynamic', 'listpair']
RES_PY_ONLY = ['True', 'ATOM_NIL', 'False']      # not writable as a Prolog atom without quotes
ATOMS = ['a', 'b', 'c']
# names a hand-written script uses that are not predicate keys name_arity
NONPRED_KEYS = ['MAX_SIZE', 'helper', 'TABLE', '_cache', 'Limit', 'p', 'size_of', 'foo_1_', 'q_x1']
KEY_RE = re.compile(r'^(.+)_(\d+|n)$')

class Gen:
    def __init__(self, rng):
        self.rng = rng
        self.ndefs = 0
        self.names = rng.sample(USER_NAMES, rng.choice([2, 3, 3, 4]))
        if rng.random() < 0.5:
            self.names.append(rng.choice(RES_NAMES))
        self.arities = {n: rng.sample([0, 1, 2, 3], rng.choice([1, 1, 2, 2, 3])) for n in self.names}
        self.nsusp = 0

    def callee(self, level):
        rng = self.rng
        c = [n for n in self.names if LEVEL.get(n, 0) < level]
        r = rng.random()
        if c and r < 0.8:
            return rng.choice(c)
        if r < 0.9:
            return rng.choice(RES_NAMES)
        return 'zz'

    def mkdef(self, name, n, python, params='same'):
        """a definition for name with n arguments; variadic python definitions have params None"""
        rng = self.rng
        self.ndefs += 1
        did = self.ndefs
        level = LEVEL.get(name, 0)
        ncl = rng.choice([1, 1, 2, 2, 3])
        clauses = []
        for ci in range(ncl):
            nloc = rng.choice([0, 0, 0, 1])
            nv = n + nloc
            goals = []
            marker = 'm%d_%d' % (did, ci)
            body = []
            if n > 0 or nv > 0:
                body.append(['u', 0, marker])
            else:
                if params is None:
                    body.append(['u', 0, marker])
            for _ in range(rng.choice([0, 0, 0, 1, 1, 2]) if level > 0 else rng.choice([0, 0, 0, 0, 1])):
                cn = self.callee(level)
                ars = self.arities.get(cn, [1])
                ca = rng.choice(ars) if rng.random() < 0.85 else rng.choice([0, 1, 2])
                if nv == 0:
                    ca = 0
                body.append(['c', cn, [rng.randrange(nv) for _ in range(ca)]])
            if n > 1 and rng.random() < 0.4:
                body.append(['u', rng.randrange(1, n), rng.choice(ATOMS)])
            if n > 0 and rng.random() < 0.08:
                body.append(['u', 0, rng.choice(ATOMS)])      # conflicts with the marker: the clause fails
            rng.shuffle(body)
            if rng.random() < 0.3:
                body.insert(rng.randrange(len(body) + 1), ['cut'])
            if python and rng.random() < 0.1:
                body.insert(rng.randrange(len(body) + 1), ['raise'])
            clauses.append({'nlocals': nloc, 'goals': body})
        p = n if params == 'same' else params
        return {'params': p, 'clauses': clauses}

    def mkdef_rec(self, name, n):
        """round 5/6: a directly RECURSIVE compiled definition (n >= 1): a ladder over the atoms a -> b -> c on the first argument,
             name(A0,..) :- A0 = x, L = y, name(L,..).    ...    name(A0,..) :- A0 = last.
        Its own recursive calls are calls like any other: they see the facts asserted for name/n, every definition chained onto
        the key and whatever the key means when the call starts - so its answers change with the history of the key."""
        rng = self.rng
        self.ndefs += 1
        chain = rng.choice([['a', 'b'], ['a', 'b', 'c'], ['b', 'c'], ['a', 'c'], ['c', 'a', 'b']])
        clauses = []
        for x, y in zip(chain, chain[1:]):
            goals = [['u', 0, x], ['u', n, y], ['c', name, [n] + list(range(1, n))]]
            if rng.random() < 0.2:
                goals.insert(rng.choice([2, 3]), ['cut'])
            clauses.append({'nlocals': 1, 'goals': goals})
        base = [['u', 0, chain[-1]]]
        if n > 1 and rng.random() < 0.5:
            base.append(['u', 1, 'm%d_b' % self.ndefs])
        clauses.insert(rng.choice([0, len(clauses), len(clauses)]), {'nlocals': 0, 'goals': base})
        return {'params': n, 'clauses': clauses}

    def name_ar(self):
        name = self.rng.choice(self.names)
        return name, self.rng.choice(self.arities[name])

    def pred_key(self):
        name, n = self.name_ar()
        if self.rng.random() < 0.1:
            return name, None, '%s_n' % name
        return name, n, '%s_%d' % (name, n)

    def extra_stmt(self, stmts):
        """one statement of a hand-written script: a non-callable global, None, a generator function or lambda under
        any key, a deletion, a self-assignment"""
        rng = self.rng
        r = rng.random()
        name, n, key = self.pred_key()
        bound_here = [stmt_key(st) for st in stmts if st[0] != 'fail']
        q = rng.random()
        if q < 0.2:
            key, name, n = rng.choice(NONPRED_KEYS), 'zz', rng.choice([0, 1, 2])
        elif q < 0.4 and bound_here:
            key = rng.choice(bound_here)
            m = KEY_RE.match(key)
            if m and m.group(2) != 'n':
                name, n = m.group(1), int(m.group(2))
        if r < 0.4:
            return ['const', key, rng.randrange(len(CONSTS))]
        if r < 0.52:
            return ['none', key]
        if r < 0.72:
            pn = n if n is not None else rng.choice([0, 1, 2])
            if rng.random() < 0.12:
                pn += 1                                  # under a key whose arity it cannot take
            return ['pydef', key, self.mkdef(name, pn, True)]
        if r < 0.82:
            pn = n if n is not None else 1
            self.ndefs += 1
            if pn > 0 and rng.random() < 0.7:
                g = ['u', 0, 'm%d_0' % self.ndefs]
            else:
                cn = self.callee(LEVEL.get(name, 0))
                g = ['c', cn, [rng.randrange(pn) for _ in range(rng.choice([0, 1]) if pn else 0)]]
            return ['lam', key, {'params': pn, 'clauses': [{'nlocals': 0, 'goals': [g]}]}]
        if r < 0.92:
            return ['del', key]
        return ['self', key]

    def op_load(self, keys=None, overwrite=None, fail=None, extras=None):
        rng = self.rng
        stmts = []
        if keys is None:
            keys = [self.name_ar() for _ in range(rng.choice([1, 1, 2, 2, 3]))]
            if rng.random() < 0.1:
                keys.append(keys[0])            # the same key defined twice in one script
        for name, n in keys:
            if name in RES_PY_ONLY:
                continue
            stmts.append(['def', name, n, self.mkdef(name, n, False)])
        if extras is None:
            extras = rng.choice([1, 1, 2, 3]) if rng.random() < 0.4 else 0
        for _ in range(extras):
            stmts.insert(rng.randrange(len(stmts) + 1), self.extra_stmt(stmts))
        sc = {'stmts': stmts, 'broken': False}
        if fail is None:
            fail = rng.random() < 0.22
        if fail:
            if rng.random() < 0.6:
                stmts.insert(rng.randrange(len(stmts) + 1), ['fail', rng.randrange(len(FAIL_STMTS))])
            else:
                sc['broken'] = True
                sc['broken_pos'] = rng.randrange(len(stmts) + 1)
                sc['broken_kind'] = rng.randrange(4)
        if overwrite is None:
            overwrite = rng.random() < 0.4
        return ['load', sc, overwrite]

    def op_reg(self, name=None, n=None, style=None):
        rng = self.rng
        if name is None:
            name, n = self.name_ar()
            if rng.random() < 0.1:
                name = rng.choice(RES_PY_ONLY + RES_NAMES)
        if style is None:
            style = rng.choice(['infer', 'explicit', 'variadic', 'variadic'])
            if rng.random() < 0.06:
                # a thing that is not a function is registered
                st = rng.choice(['infer', ['explicit', n], 'variadic'])
                return ['reg', name, st, const_def(rng.randrange(len(CONSTS)))]
        if style == 'variadic':
            d = self.mkdef(name, n, True, params=None)
            if rng.random() < 0.25:
                return ['reg', name, 'infer', d]          # a *args function registered with arity None
            return ['reg', name, 'variadic', d]
        if style == 'infer':
            return ['reg', name, 'infer', self.mkdef(name, n, True)]
        d = self.mkdef(name, n, True)
        if rng.random() < 0.12:
            return ['reg', name, ['explicit', n + 1], d]  # registered under an arity it cannot take
        if rng.random() < 0.3:
            d = self.mkdef(name, n, True, params=None)    # *args function under an exact arity
        return ['reg', name, ['explicit', n], d]

    def op_assert(self):
        rng = self.rng
        name, n = self.name_ar()
        return ['assert', name, [rng.choice(ATOMS) for _ in range(n)], rng.random() < 0.75]

    def history(self):
        rng = self.rng
        ops = []
        nops = rng.choice([4, 6, 8, 8, 10, 12, 16])
        # scenario seeds
        sc = rng.random()
        if sc < 0.25:
            # several combined loads of one key, then maybe overwrite
            key = self.name_ar()
            for _ in range(rng.choice([2, 3, 3, 4])):
                other = [self.name_ar()] if rng.random() < 0.4 else []
                ops.append(self.op_load(keys=[key] + other, overwrite=False, fail=rng.random() < 0.15))
                if rng.random() < 0.3:
                    ops.append(self.op_assert())
            if rng.random() < 0.6:
                ops.append(self.op_load(keys=[key], overwrite=True, fail=False))
        elif sc < 0.38:
            # exact and variadic for one name
            name, n = self.name_ar()
            a = [self.op_reg(name, n, 'variadic'), self.op_reg(name, n, rng.choice(['infer', 'explicit']))]
            if rng.random() < 0.5:
                a.append(self.op_load(keys=[(name, n)], overwrite=rng.random() < 0.5, fail=False))
            rng.shuffle(a)
            ops += a
        elif sc < 0.5:
            # suspended query across a change of its definitions
            name, n = self.name_ar()
            for _ in range(rng.choice([0, 1, 1, 2, 3])):
                ops.append(['assert', name, [rng.choice(ATOMS) for _ in range(n)], True])
            for _ in range(rng.choice([1, 2, 2, 3])):
                ops.append(self.op_load(keys=[(name, n)], overwrite=rng.random() < 0.35, fail=False))
            ops.append(['start', name, n])
            i = self.nsusp
            self.nsusp += 1
            for _ in range(rng.choice([0, 1, 1, 2, 3])):
                ops.append(['next', i])
            for _ in range(rng.choice([1, 1, 1, 2])):
                r = rng.random()
                if r < 0.6:
                    ops.append(self.op_load(keys=[(name, n)], overwrite=rng.random() < 0.5, fail=False))
                elif r < 0.75:
                    ops.append(self.op_reg(name, n, rng.choice(['infer', 'explicit', 'variadic'])))
                elif r < 0.88:
                    ops.append(['assert', name, [rng.choice(ATOMS) for _ in range(n)], rng.random() < 0.5])
                else:
                    ops.append(['clear'])
            for _ in range(rng.choice([1, 2, 3])):
                ops.append(['next', i])
        elif sc < 0.7 and any(a >= 1 for n_ in self.names if n_ not in RES_NAMES for a in self.arities[n_]):
            # a directly recursive compiled definition whose key also gets facts and further (chained / overwriting) definitions: its
            # recursive calls must see all of them, at the moment each call starts
            name = rng.choice([n_ for n_ in self.names if n_ not in RES_NAMES and any(a >= 1 for a in self.arities[n_])])
            n = rng.choice([a for a in self.arities[name] if a >= 1])
            def rec_load(ow):
                return ['load', {'stmts': [['def', name, n, self.mkdef_rec(name, n)]], 'broken': False}, ow]
            pre = []
            for _ in range(rng.choice([0, 1, 2])):
                pre.append(['assert', name, [rng.choice(ATOMS) for _ in range(n)], rng.random() < 0.7])
            if rng.random() < 0.4:
                pre.append(self.op_load(keys=[(name, n)], overwrite=False, fail=False, extras=0))
            ops += pre
            ops.append(rec_load(rng.random() < 0.4))
            for _ in range(rng.choice([1, 2, 3])):
                r = rng.random()
                if r < 0.5:
                    ops.append(['assert', name, [rng.choice(ATOMS) for _ in range(n)], rng.random() < 0.7])
                elif r < 0.75:
                    ops.append(self.op_load(keys=[(name, n)], overwrite=False, fail=False, extras=0))
                elif r < 0.9:
                    ops.append(rec_load(False))
                else:
                    ops.append(self.op_reg(name, n, rng.choice(['infer', 'explicit'])))
            if rng.random() < 0.5:
                ops.append(['start', name, n])
                i = self.nsusp
                self.nsusp += 1
                ops.append(['next', i])
                ops.append(['assert', name, [rng.choice(ATOMS) for _ in range(n)], True])
                ops += [['next', i]] * rng.choice([1, 2, 3])
        elif sc < 0.8:
            # a hand-written module (predicates with constants / None / deletions between them) is loaded over
            # existing definitions, then a correct script for one of its keys
            keys = [self.name_ar() for _ in range(rng.choice([2, 2, 3]))]
            for kk in keys[:rng.choice([1, 1, 2])]:
                ops.append(self.op_load(keys=[kk], overwrite=rng.random() < 0.3, fail=False, extras=0))
                if rng.random() < 0.3:
                    ops.append(['assert', kk[0], [rng.choice(ATOMS) for _ in range(kk[1])], True])
            rng.shuffle(keys)
            ops.append(self.op_load(keys=keys, overwrite=rng.random() < 0.3, fail=rng.random() < 0.2, extras=rng.choice([1, 2, 3])))
            ops.append(self.op_load(keys=[rng.choice(keys)], overwrite=False, fail=False, extras=0))
        while len(ops) < nops:
            r = rng.random()
            if r < 0.36:
                ops.append(self.op_load())
            elif r < 0.52:
                ops.append(self.op_reg())
            elif r < 0.68:
                ops.append(self.op_assert())
            elif r < 0.72:
                ops.append(['clear'])
            elif r < 0.80:
                name, n = self.name_ar()
                ops.append(['start', name, n])
                self.nsusp += 1
            elif r < 0.97 and self.nsusp:
                ops.append(['next', rng.randrange(self.nsusp)])
            elif self.nsusp:
                ops.append(['close', rng.randrange(self.nsusp)])
        # suspended calls are eventually resumed until they end
        for i in range(self.nsusp):
            if rng.random() < 0.8:
                ops += [['next', i]] * rng.choice([2, 4, 6, 8])
        return ops

def probes_of(ops, rng=None, cap=12):
    seen = []
    def add(n, a):
        if [n, a] not in seen:
            seen.append([n, a])
    def from_def(d):
        for c in d['clauses']:
            for g in c['goals']:
                if g[0] == 'c':
                    add(g[1], len(g[2]))
    for o in ops:
        if o[0] == 'reg':
            d = o[3]
            if o[2] == 'infer':
                add(o[1], d['params'] if d['params'] is not None else 1)
            elif o[2] == 'variadic':
                add(o[1], 0); add(o[1], 1); add(o[1], 2)
            else:
                add(o[1], o[2][1])
            from_def(d)
        elif o[0] == 'load':
            for st in o[1]['stmts']:
                if st[0] == 'def':
                    add(st[1], st[2])
                    from_def(st[3])
                elif st[0] != 'fail':
                    m = KEY_RE.match(st[1])
                    if m and m.group(2) == 'n':
                        add(m.group(1), 0); add(m.group(1), 1)
                    elif m:
                        add(m.group(1), int(m.group(2)))
                    if st[0] in ('pydef', 'lam'):
                        from_def(st[2])
        elif o[0] == 'assert':
            add(o[1], len(o[2]))
        elif o[0] == 'start':
            add(o[1], o[2])
    if rng is not None and seen:
        n, a = rng.choice(seen)
        add(n, a + 1)
        if len(seen) > cap:
            keep = seen[:cap // 2] + rng.sample(seen[cap // 2:], cap - cap // 2)
            seen = [p for p in seen if p in keep]
    return seen[:cap]

ALL_ARITIES = [0, 1, 2, 3, 4]

def dress_case(case):
    """round 4: (a) the registered Python predicates become every kind of callable (CALLABLE_KINDS), under every registration
    style the history uses; (b) in part of the cases EVERY name in play is probed at ALL arities 0..4 after every operation
    (a definition must never answer, or raise, under an arity it was not registered / loaded for).  The choices come from
    a random stream of their own, derived from the history, so the histories of a seed stay what they were."""
    r2 = random.Random(zlib.crc32(json.dumps(case['ops'], sort_keys=True).encode()))
    for o in case['ops']:
        if o[0] == 'reg' and 'const' not in o[3] and r2.random() < 0.6:
            o[3]['kind'] = r2.choice(CALLABLE_KINDS[1:])
    if r2.random() < 0.4:
        names = []
        for n, a in case['probes']:
            if n not in names:
                names.append(n)
        r2.shuffle(names)
        pr = [list(p) for p in case['probes']]
        for n in names:
            for a in ALL_ARITIES:
                if [n, a] not in pr and len(pr) < 26:
                    pr.append([n, a])
        case['probes'] = pr
    return case

def gen(rng, tier):
    n = 260 if tier == 'quick' else 8000
    cases = []
    for _ in range(n):
        g = Gen(rng)
        ops = g.history()
        cases.append(dress_case({'ops': ops, 'probes': probes_of(ops, rng)}))
    return cases

# ------------------------------------------------------------------ fixed cases

def D(params, *clauses):
    return {'params': params, 'clauses': [{'nlocals': nl, 'goals': list(gs)} for nl, gs in clauses]}

def builtin_corpus():
    L = []
    u = lambda v, a: ['u', v, a]
    c = lambda n, *vs: ['c', n, list(vs)]
    cut = ['cut']
    def load(defs, ow, broken=False, **kw):
        sc = {'stmts': defs, 'broken': broken}
        sc.update(kw)
        return ['load', sc, ow]
    def df(name, n, d):
        return ['def', name, n, d]
    def case(ops, extra=()):
        pr = probes_of(ops, cap=16)
        for p in extra:
            if list(p) not in pr:
                pr.append(list(p))
        L.append({'ops': ops, 'probes': pr})
    d1 = D(1, (0, [u(0, 'x1')]), (0, [u(0, 'x2')]))
    d2 = D(1, (0, [u(0, 'y1'), cut]), (0, [u(0, 'y2')]))
    d3 = D(1, (0, [u(0, 'z1')]))
    # three combined loads, a cut in the middle one, then overwrite; facts first
    case([load([df('p', 1, d1)], False), load([df('p', 1, d2)], False), ['assert', 'p', ['f1'], True],
          load([df('p', 1, d3)], False), ['assert', 'p', ['f0'], False], load([df('p', 1, d2)], True)], [('p', 0), ('p', 2)])
    # same name, several arities across scripts; overwrite of one arity leaves the others
    case([load([df('p', 1, d1), df('p', 2, D(2, (0, [u(0, 'b2'), u(1, 'c2')])))], True),
          load([df('p', 0, D(0, (0, []), (0, []))), df('p', 1, d3)], False),
          load([df('p', 2, D(2, (0, [u(1, 'only')])))], True)], [('p', 3)])
    # exact vs variadic, both orders; *args registered with arity None goes to arity 1
    v = D(None, (0, [u(0, 'var')]))
    case([['reg', 'p', 'variadic', v], ['reg', 'p', ['explicit', 1], d1], ['reg', 'q', ['explicit', 2], D(2, (0, [u(1, 'q2')]))],
          ['reg', 'q', 'variadic', v], ['reg', 'r', 'infer', v], ['reg', 'r', 'infer', D(2, (0, [u(0, 'r2')]))]],
         [('p', 0), ('p', 2), ('q', 1), ('q', 0), ('r', 0), ('r', 2), ('r', 3)])
    # references between scripts in either order, and to a Python predicate registered later
    caller = D(1, (1, [c('q', 1), c('r', 0, 1)]))
    case([load([df('p', 1, caller)], True), load([df('q', 1, d1)], True), ['reg', 'r', 'infer', D(2, (0, [u(0, 'x2')]), (0, [u(0, 'x1')]))],
          load([df('q', 1, d3)], False), ['clear'], load([df('q', 1, d1)], True), load([df('p', 1, caller)], True)])
    # loads that raise leave everything unchanged
    case([load([df('p', 1, d1)], True), load([df('p', 1, d2), ['fail', 0], df('q', 1, d3)], True),
          load([df('p', 1, d2), df('q', 1, d3)], False, broken=True, broken_pos=2),
          load([df('q', 1, d3), ['fail', 1]], False), load([['fail', 2], df('q', 1, d3)], True),
          load([df('p', 1, d2)], False, broken=True, broken_pos=0, broken_kind=3), load([df('p', 1, d3)], False)], [('q', 1)])
    # reserved API names: facts are found, definitions never
    case([load([df('atom', 1, d1), df('query', 2, D(2, (0, [u(0, 'nope')]))), df('functor', 0, D(0, (0, [])))], True),
          ['reg', 'unify', ['explicit', 2], D(2, (0, [u(0, 'nope')]))], ['reg', 'variable', 'variadic', v],
          ['reg', 'True', 'infer', d1], ['reg', 'ATOM_NIL', 'variadic', v], ['assert', 'atom', ['fa'], True],
          ['assert', 'True', ['ft'], True], load([df('once_1', 0, D(0, (0, []))), df('atom_1', 0, D(0, (0, []), (0, [])))], True),
          load([df('p', 1, D(1, (0, [c('atom', 0)]), (0, [c('once_1'), u(0, 'viaonce')])))], True)],
         [('atom', 0), ('functor', 1), ('variable', 0), ('variable', 3), ('ATOM_NIL', 1), ('functor1', 1), ('__builtins__', 0)])
    # name/arity spelled in the key: foo/1 and foo_1/0 are different predicates
    case([load([df('foo', 1, d1)], True), load([df('foo_1', 0, D(0, (0, []), (0, [])))], True),
          ['reg', 'foo', 'variadic', v], load([df('foo_n', 0, D(0, (0, [])))], True), ['reg', 'foo_n', ['explicit', 1], d3]],
         [('foo', 0), ('foo', 2), ('foo_1', 0), ('foo_1', 1), ('foo_n', 0), ('foo_n', 1), ('foo_1_0', 0), ('foo_n_0', 0)])
    # THE witness of call-time resolution: fact, old definition, started (answers the fact), the definition is
    # replaced, resumed: must answer old (a new call answers new)
    dold, dnew = D(1, (0, [u(0, 'old')])), D(1, (0, [u(0, 'new')]))
    case([['assert', 'p', ['fact'], True], load([df('p', 1, dold)], True), ['start', 'p', 1], ['next', 0],
          load([df('p', 1, dnew)], True), ['next', 0], ['next', 0], ['next', 0]])
    # the same through register_function, a combining load, clear, and with a variadic definition becoming shadowed
    case([['assert', 'p', ['f1'], True], ['assert', 'p', ['f2'], True], ['reg', 'p', 'variadic', D(None, (0, [u(0, 'var')]))],
          ['start', 'p', 1], ['start', 'p', 1], ['start', 'p', 1], ['next', 0], ['next', 1], ['next', 1],
          ['reg', 'p', ['explicit', 1], dold], ['next', 0], load([df('p', 1, dnew)], False), ['next', 1], ['clear'],
          ['next', 2], ['next', 0], ['next', 0], ['next', 1], ['next', 1], ['next', 2], ['next', 2]])
    # nothing is fixed before the first next: created, then facts and definitions change, then started
    case([['assert', 'p', ['f'], True], load([df('p', 1, dold)], True), ['start', 'p', 1], ['start', 'q', 1],
          load([df('p', 1, dnew)], True), ['assert', 'p', ['g'], False], load([df('q', 1, d1)], True),
          ['next', 0], ['next', 0], ['next', 0], ['next', 0], ['next', 1], ['next', 1], ['next', 1]])
    # a suspended call keeps what it resolved, also one suspended in its facts
    case([['assert', 'p', ['f1'], True], load([df('p', 1, d1)], True), ['start', 'p', 1], ['start', 'p', 1],
          ['next', 0], ['next', 0], ['next', 1], load([df('p', 1, d3)], True), ['assert', 'p', ['f2'], True],
          ['next', 0], ['next', 0], ['next', 1], ['next', 1], ['next', 1], ['clear'], ['start', 'p', 1], ['next', 2]])
    # a call suspended in a chain while a further script is combined: it keeps the chain it resolved
    case([load([df('p', 1, d1)], False), load([df('p', 1, d3)], False), ['start', 'p', 1], ['next', 0],
          load([df('p', 1, d2)], False), ['next', 0], ['next', 0], ['next', 0], ['next', 0], ['start', 'p', 1]] + [['next', 1]] * 6)
    # suspended inside a body: the inner call made after the load sees the new definition
    case([load([df('q', 1, d1), df('r', 1, d3), df('p', 2, D(2, (0, [c('q', 0), c('r', 1)])))], True), ['start', 'p', 2], ['next', 0],
          load([df('r', 1, d1)], False), ['next', 0], ['next', 0], ['next', 0], ['next', 0], ['next', 0], ['close', 0], ['next', 0]])
    # wrong number of parameters: raises when the chain is called, after the facts
    case([['assert', 'p', ['f'], True], ['reg', 'p', ['explicit', 1], D(2, (0, [u(0, 'x')]))], ['start', 'p', 1], ['next', 0], ['next', 0], ['next', 0],
          ['reg', 'q', ['explicit', 1], d1], load([df('q', 1, d1)], False), ['reg', 'r', 'infer', D(1, (0, [u(0, 'a'), ['raise']]), (0, [u(0, 'b')]))],
          load([df('r', 1, d1)], False)])
    # ---- hand-written scripts: things that are not definitions between the definitions
    py = lambda key, d: ['pydef', key, d]
    const = lambda key, z: ['const', key, z]
    dred, dsq, dfour, dwhite = D(1, (0, [u(0, 'red')])), D(1, (0, [u(0, 'square')])), D(1, (0, [u(0, 'four')])), D(1, (0, [u(0, 'white')]))
    # a module with a constant in the middle, combined with existing definitions (older script refers to shape/1):
    # the load returns and EVERYTHING is merged; then a correct script is appended after it
    case([load([df('color', 1, D(1, (0, [u(0, 'blue')]))), df('uses_shape', 1, D(1, (0, [c('shape', 0)])))], False),
          ['assert', 'color', ['green'], True],
          load([py('color_1', dred), py('shape_1', dsq), const('MAX_SIZE', 0), py('size_1', dfour)], False),
          load([df('color', 1, dwhite)], False),
          load([py('color_1', dred), const('TABLE', 2), ['fail', 4], py('size_1', dfour)], False),
          load([const('Limit', 1), py('shape_1', dsq), ['fail', 5]], True),
          load([df('shape', 1, dwhite)], False)], [('size', 1), ('shape', 1), ('MAX', 0)])
    # a predicate key bound to a constant: every call that resolves to it raises after the facts; chained, replaced,
    # the same constant again (skipped by `!=`), registered constants
    case([['assert', 'p', ['f'], True], load([const('p_1', 0)], True), load([const('p_1', 0)], False), load([df('p', 1, d1)], False),
          load([const('p_1', 3)], True), load([df('p', 1, d1)], True), load([df('q', 1, d3), const('p_1', 1), df('r', 1, d3)], False),
          ['reg', 'q', ['explicit', 2], const_def(0)], ['reg', 'q', 'infer', const_def(0)], ['reg', 'q', 'variadic', const_def(5)],
          load([const('q_2', 0)], False), load([const('q_n', 5)], True), load([df('q', 2, D(2, (0, [u(0, 'q2')])))], True)],
         [('p', 0), ('q', 0), ('q', 2), ('q', 3)])
    # None: an exact key bound to None (overwrite) hides the variadic registration; None for an unbound key binds nothing;
    # combining None changes nothing
    case([['reg', 'p', 'variadic', v], load([['none', 'p_1']], True), load([df('p', 1, d1)], True), load([['none', 'p_1']], False),
          load([['none', 'p_1'], df('q', 1, d3)], True), load([['none', 'p_1']], True), load([df('p', 1, d3)], False),
          load([['none', 'p_n']], True), ['clear'], load([['none', 'q_1'], ['self', 'q_1']], True), load([['self', 'q_1']], True)],
         [('p', 0), ('p', 1), ('p', 2), ('q', 1)])
    # del / self-assignment act on the copy: the engine keeps the definition; of an unbound name: NameError, nothing loaded
    case([load([df('p', 1, d1)], True), load([['del', 'p_1'], df('q', 1, d3)], True), load([df('r', 1, d3), ['del', 'zz_1']], True),
          load([['del', 'p_1'], py('p_1', dred)], False), load([['self', 'p_1'], ['self', 'r_1']], False),
          load([py('r_1', dsq), ['del', 'r_1'], ['self', 'r_1']], True), load([['del', 'p_1'], ['del', 'p_1']], True),
          load([py('helper', dsq), ['lam', 'r_1', D(1, (0, [c('p', 0)]))], ['lam', 'r_2', D(1, (0, [u(0, 'lam')]))]], True)],
         [('r', 1), ('r', 2), ('zz', 1)])
    # ---- round 4: every kind of callable x every registration style, probed at all arities 0..4
    for params in (0, 1, 3, None):
        ops = [['assert', 'p', ['f'], True]] if params in (1, None) else []
        names = []
        for i, kind in enumerate(CALLABLE_KINDS):
            nm = ['p', 'q', 'r', 'foo', 'foo_1'][i % 5]
            dd = D(params, (0, [u(0, 'k%d' % i)] if params != 0 else []))
            dd['kind'] = kind
            style = ['infer', 'variadic', ['explicit', params if params is not None else 2]][(i + (params or 0)) % 3]
            ops.append(['reg', nm, 'infer', dict(dd)])
            ops.append(['reg', nm, style, dict(dd)])
            if nm not in names:
                names.append(nm)
        L.append({'ops': ops, 'probes': [[n, a] for n in names for a in ALL_ARITIES]})
    return L

# ------------------------------------------------------------------ reporting

def describe(case):
    out = []
    for o in case['ops']:
        if o[0] == 'load':
            sc = o[1]
            txt = []
            for st in sc['stmts']:
                if st[0] == 'def':
                    txt.append(prolog_of_def(st[1], st[2], st[3]).strip())
                elif st[0] in ('pydef', 'lam'):
                    txt.append('%s %s(<%d params>): %s' % ('def' if st[0] == 'pydef' else 'lambda', st[1], st[2]['params'],
                                                          prolog_of_def_safe(st[1], st[2])))
                elif st[0] == 'const':
                    txt.append('%s = %s' % (st[1], CONSTS[st[2] % len(CONSTS)]))
                elif st[0] == 'none':
                    txt.append('%s = None' % st[1])
                elif st[0] == 'del':
                    txt.append('del %s' % st[1])
                elif st[0] == 'self':
                    txt.append('%s = %s' % (st[1], st[1]))
                else:
                    txt.append('<raises: %s>' % FAIL_STMTS[st[1] % len(FAIL_STMTS)].strip().replace('\n', ' '))
            out.append('load(overwrite=%s%s): %s' % (o[2], ', BROKEN PYTHON' if sc.get('broken') else '', ' | '.join(txt)))
        elif o[0] == 'reg' and 'const' in o[3]:
            out.append('register_function(%s, %s, arity=%s)' % (o[1], CONSTS[o[3]['const'] % len(CONSTS)],
                       {'infer': 'None', 'variadic': '-1'}.get(o[2] if isinstance(o[2], str) else '', o[2][1] if not isinstance(o[2], str) else '')))
        elif o[0] == 'reg':
            nm = o[1] if o[3]['params'] is None else o[1]
            out.append('register_function(%s, <python [%s] %s params: %s>, arity=%s)' % (
                o[1], o[3].get('kind', 'plain'), '*args' if o[3]['params'] is None else o[3]['params'],
                prolog_of_def_safe(nm, o[3]), {'infer': 'None', 'variadic': '-1'}.get(o[2] if isinstance(o[2], str) else '', o[2][1] if not isinstance(o[2], str) else '')))
        else:
            out.append(' '.join(str(x) for x in o))
    return {'ops': out, 'probes': ['%s/%d' % (n, a) for n, a in case['probes']]}

def prolog_of_def_safe(name, d):
    n = d['params'] if d['params'] is not None else 1
    parts = []
    for c in d['clauses']:
        gs = []
        for g in c['goals']:
            gs.append({'u': lambda: '%s = %s' % (_pv(g[1], n), g[2]), 'c': lambda: '%s(%s)' % (g[1], ','.join(_pv(v, n) for v in g[2])),
                       'cut': lambda: '!', 'raise': lambda: 'RAISE'}[g[0]]())
        parts.append('%s :- %s.' % (name, ', '.join(gs) or 'true'))
    return ' '.join(parts)

def shrink(case):
    ops = case['ops']
    for i in range(len(ops) - 1, -1, -1):
        if ops[i][0] in ('start',):
            continue
        c = dict(case); c['ops'] = ops[:i] + ops[i + 1:]
        yield c
    for i in range(len(case['probes'])):
        c = dict(case); c['probes'] = case['probes'][:i] + case['probes'][i + 1:]
        yield c
    for i, o in enumerate(ops):
        if o[0] == 'load' and len(o[1]['stmts']) > 1:
            for j in range(len(o[1]['stmts'])):
                sc = dict(o[1]); sc['stmts'] = o[1]['stmts'][:j] + o[1]['stmts'][j + 1:]
                c = dict(case); c['ops'] = ops[:i] + [['load', sc, o[2]]] + ops[i + 1:]
                yield c
        d = o[3] if o[0] == 'reg' else None
        if d and d.get('kind', 'plain') != 'plain':
            d2 = dict(d); d2.pop('kind')
            c = dict(case); c['ops'] = ops[:i] + [[o[0], o[1], o[2], d2]] + ops[i + 1:]
            yield c
        if d and len(d['clauses']) > 1:
            for j in range(len(d['clauses'])):
                d2 = dict(d); d2['clauses'] = d['clauses'][:j] + d['clauses'][j + 1:]
                c = dict(case); c['ops'] = ops[:i] + [[o[0], o[1], o[2], d2]] + ops[i + 1:]
                yield c

def distribution(cases, obs):
    d = {'ops': {}, 'history_length': {}, 'loads_failing': 0, 'loads_ok': 0, 'loads_combining': 0, 'max_chain': {},
         'script_statements': {}, 'loads_raised_by_del_or_self_of_unbound_name': 0,
         'loads_ok_with_nonfunction_global': 0, 'loads_ok_combining_with_nonfunction_global_after_a_binding': 0,
         'probes_raising_on_noncallable': 0, 'exact_key_bound_to_None_hiding_variadic': 0,
         'exact_and_variadic': 0, 'suspended_resumed_after_change': 0,
         'resumed_on_fact_after_definition_change': 0, 'first_next_after_change_since_creation': 0, 'probe_end': {}, 'answers_per_probe': {}, 'model_oof_skipped': 0,
         'registered_callable_kind_x_style': {}, 'cases_probing_every_name_at_arities_0_to_4': 0, 'probes_per_case': {}}
    for c, o in zip(cases, obs):
        k = str(len(c['ops']))
        pn = {}
        for n_, a_ in c['probes']:
            pn.setdefault(n_, set()).add(a_)
        if pn and all(set(ALL_ARITIES) <= v for v in pn.values()):
            d['cases_probing_every_name_at_arities_0_to_4'] += 1
        kk = str(len(c['probes']) // 4 * 4)
        d['probes_per_case'][kk] = d['probes_per_case'].get(kk, 0) + 1
        for op in c['ops']:
            if op[0] == 'reg' and 'const' not in op[3]:
                kk = '%s %s %s' % (op[3].get('kind', 'plain'), op[2] if isinstance(op[2], str) else 'explicit',
                                   '*args' if op[3]['params'] is None else 'fixed')
                d['registered_callable_kind_x_style'][kk] = d['registered_callable_kind_x_style'].get(kk, 0) + 1
        d['history_length'][k] = d['history_length'].get(k, 0) + 1
        started = set(); changed_since = {}
        for i, op in enumerate(c['ops']):
            d['ops'][op[0]] = d['ops'].get(op[0], 0) + 1
            if op[0] == 'load':
                if load_should_fail(op[1]):
                    d['loads_failing'] += 1
                else:
                    d['loads_ok'] += 1
                    if not op[2]:
                        d['loads_combining'] += 1
            if op[0] in ('load', 'reg', 'assert', 'clear'):
                for s in changed_since:
                    changed_since[s] = True
            if op[0] == 'start':
                changed_since[len(changed_since)] = False
            if op[0] == 'next' and changed_since.get(op[1]):
                d['suspended_resumed_after_change'] += 1
                changed_since[op[1]] = False
        if isinstance(o, dict):
            of, un = suspended_stats(c, o)
            d['resumed_on_fact_after_definition_change'] += of
            d['first_next_after_change_since_creation'] += un
            spec = Spec()
            for op, (res, probes) in zip(c['ops'], o['steps']):
                if op[0] == 'load':
                    for st in op[1]['stmts']:
                        d['script_statements'][st[0]] = d['script_statements'].get(st[0], 0) + 1
                    if not load_should_fail(op[1]) and res[0] == 'raised':
                        d['loads_raised_by_del_or_self_of_unbound_name'] += 1
                    kinds = [st[0] for st in op[1]['stmts']]
                    if res[0] == 'ok' and ('const' in kinds or 'none' in kinds):
                        d['loads_ok_with_nonfunction_global'] += 1
                        first = min(i for i, kd in enumerate(kinds) if kd in ('const', 'none'))
                        if not op[2] and first > 0:
                            d['loads_ok_combining_with_nonfunction_global_after_a_binding'] += 1
                spec.apply(op, res[0] == 'ok')
                for (pn, pa) in c['probes']:
                    ds = spec.call_defs(pn, pa)
                    if any('const' in x for x in ds):
                        d['probes_raising_on_noncallable'] += 1
                    if pn not in RESERVED and spec.ctx.get(_key(pn, pa)) == [] and spec.ctx.get(_key(pn, None)):
                        d['exact_key_bound_to_None_hiding_variadic'] += 1
                for p in probes:
                    e = p[1][0]
                    if e == 'oof':
                        d['model_oof_skipped'] += 1
                    d['probe_end'][e] = d['probe_end'].get(e, 0) + 1
                    a = str(min(len(p[0]), 8))
                    d['answers_per_probe'][a] = d['answers_per_probe'].get(a, 0) + 1
            mc = str(spec.maxchain)
            d['max_chain'][mc] = d['max_chain'].get(mc, 0) + 1
            if spec.exact_and_variadic:
                d['exact_and_variadic'] += 1
    return d
