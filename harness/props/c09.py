"""C09 - call/N, once/1, findall/3, = and \\= agree with their standard definitions."""
from lib import semcheck, progs, progs_shapes
from lib.semcheck import IMPORTS as _SEM_IMPORTS
from props import c09_api as API

IMPORTS = list(_SEM_IMPORTS) + ['Unify.RunUnify']

def _api(case):
    return case.get('kind') == 'api'

def model_expr(case, io=None):
    return API.model_expr(case, io) if _api(case) else semcheck.model_expr(case, io)

def describe(case):
    return API.describe(case) if _api(case) else semcheck.describe(case)

def shrink(case):
    yield from (API.shrink(case) if _api(case) else semcheck.shrink(case))

ID = 'C09'
THEOREMS = ['C09_compiled_program_computes_reference', 'C09_builtin_extensional', 'C09_call_spec_compound', 'C09_call_spec_atom', 'C09_once_spec', 'C09_findall_spec', 'C09_findall_one_instance_per_answer', 'C09_findall_instances', 'C09_findall_at_most_once', 'C09_findall_bag_after_enumeration', 'C09_findall_is_collect_then_match', 'C09_findall_copies_are_fresh', 'C09_findall_copies_are_disjoint', 'C09_findall_copies_instances', 'C09_eq_spec',
            'C09_condition_failure_discards_bindings', 'C09_after_failed_condition', 'C09_negation_discards_bindings', 'C09_branch_failure_discards_bindings', 'C09_neq_spec']
CASE_TIMEOUT = 60
MODEL_NEEDS_IMPL = True
COQ_CHUNK = 20
RULE = ('random programs whose bodies use call/1..N (extra arguments), once/1, findall/3, = and \\= with goals written inline or arriving '
        'through one or two bound variables, atoms or compound goals, with 0/1/many solutions, as first/middle/last goal, under \\+ and inside '
        'if-then-else, with templates that share variables with the goal and repeated variables in \\= ; compared as C01 (the builtins are part '
        'of both Coq semantics); half of the findall/3 goals get a non-variable bag; a second family (progs.gen_meta_program) applies the builtins to '
        'binding-sensitive goals with bags / extra arguments / terms that share the caller\'s variables with the goal, and queries the builtins '
        'themselves through YP.query. Non-trivial: a builtin is called with a goal that arrives through a variable or has extra arguments or has no '
        'solution, and some query has an answer. Intrinsic oracle: the program with every builtin call replaced by its standard '
        'definition (findall(T,G,B) => findall(T,G,L), L = B; X \\= Y => \\+ X = Y; inline once(G) => (G -> true); inline call(G,A..) => the goal) gives the same answers. '
        "Round 4, family 'api' (props/c09_api.py): = and \\= on API-built terms (None, bools, floats, bytes, tuples ... of lib/pyconsts.py) asked directly through YP.query, through call/N, a goal "
        'variable, once/1, findall/3 and in a compiled program fed by a registered Python predicate; \\= must be the failure of = in every form (oracle), outcome also from a reference unifier '
        '(constants by ==) and the Coq unification model.')
TRUSTED_BASE = []

N_FIRST = {'quick': 40, 'thorough': 400}
N_BAG = {'quick': 30, 'thorough': 300}

SLD_MSG = 'compiled-code model and SLD reference differ'
HIGH_RECURSION_LIMIT = 30000

def _impl_high_limit(case):
    import sys
    lim = sys.getrecursionlimit()
    try:
        sys.setrecursionlimit(HIGH_RECURSION_LIMIT)
        return semcheck.impl(case)
    finally:
        sys.setrecursionlimit(lim)

def rerun_with_high_recursion_limit(case):
    """the engine walks a list recursively (get_value, unify), so a findall/3 result of about a thousand instances hits CPython's
    default recursion limit - a resource limit of the host that the model does not have.  A query that ended by RecursionError
    although the model finishes is run once more, in a process of its own, with a 30x limit before the difference is believed;
    an unbounded recursion still ends by RecursionError there."""
    import multiprocessing, concurrent.futures as cf
    try:
        with cf.ProcessPoolExecutor(1, mp_context=multiprocessing.get_context('fork')) as ex:
            return ex.submit(_impl_high_limit, case).result(timeout=120)
    except Exception:
        return None

def compare(case, io, mo):
    """semcheck.compare, query by query; a difference between the two Coq semantics (compiled-code model vs the auxiliary SLD
    reference - the implementation has already been found equal to the compiled-code model at that point) is not reported for a
    query in which findall/3 collected an instance that contains an unbound variable of the caller (lib/findall_diag.py)"""
    if _api(case):
        return API.compare(case, io, mo)
    if not (isinstance(io, dict) and 'queries' in io and isinstance(mo, list) and not (mo and mo[0] in ('front-rejects', 'too-large'))):
        return semcheck.compare(case, io, mo)
    idx = semcheck.compared_queries(case, io)
    for k, qi in enumerate(idx):
        if k >= len(mo):
            break
        iq = io['queries'][qi]
        sub = dict(case, queries=[case['queries'][qi]])
        r = semcheck.compare(sub, {'queries': [iq]}, [mo[k]])
        if r and 'raised RecursionError' in r and 'the model finishes normally' in r:
            io2 = rerun_with_high_recursion_limit(sub)
            if isinstance(io2, dict) and 'queries' in io2 and io2['queries'][0]['end'] != 'raised RecursionError':
                iq2 = dict(io2['queries'][0], findall_outer=iq.get('findall_outer'))
                if iq2['end'] in ('cap', 'budget'):
                    continue            # the search is too long to be compared with the eagerly evaluated model
                iq = iq2
                r = semcheck.compare(sub, {'queries': [iq]}, [mo[k]])
        if r:
            return r
    return None

def gen(rng, tier):
    n = 240 if tier == 'quick' else 5000
    cases = []
    for _ in range(n):
        o = progs.Opts(open_leaves=0.5 if rng.random() < 0.6 else 0.0, control=rng.random() < 0.5, cut=rng.random() < 0.2, opaque_cut=False, builtins=True,
                       bag_shapes=0.5)
        p = progs.gen_program(rng, o)
        c = {'clauses': p['clauses'], 'queries': p['queries']}
        if any('call:findall' in progs.constructs(b) for _, _, b in p['clauses']):
            c['sld_aux_only'] = True      # see semcheck.compare: Sld.solve is no reference for the identity of collected variables
        cases.append(c)
    # builtins whose other arguments (bag, extra arguments, terms of = and \=) share variables with a goal whose answers
    # depend on the binding state of those variables (progs.gen_meta_program)
    for _ in range(150 if tier == 'quick' else 2500):
        p = progs.gen_meta_program(rng)
        cases.append({'clauses': p['clauses'], 'queries': p['queries'], 'origin': 'meta-shared', 'three_views': True})
    # clause-local variables that occur first in an = goal inside a scope whose bindings must be undone (lib/progs_shapes.py)
    for _ in range(N_FIRST[tier]):
        cases.append(progs_shapes.gen_first_binding_program(rng))
    # findall/3 whose bag is already (partly) instantiated and shares variables with the goal / the instances
    for _ in range(N_BAG[tier]):
        cases.append(progs_shapes.gen_findall_bag_program(rng))
    # round 4: = and \\= (direct, through call/once/findall, in a program fed by a Python predicate) on API-built constants
    cases.extend(API.gen(rng, tier))
    return cases

def builtin_corpus():
    from lib.progs import V, A, F
    L = []
    def prog(clauses, queries): L.append({'clauses': clauses, 'queries': queries})
    call = lambda f, *a: ['call', f, list(a)]
    foo = [['foo', [['num', '1']], ['true']], ['foo', [['num', '2']], ['true']], ['e', [A('a'), A('b')], ['true']], ['e', [A('b'), A('c')], ['true']], ['z', [], ['true']]]
    prog([['t', [V('X')], ['and', call('=', V('G'), F('foo', V('X'))), call('call', V('G'))]]] + foo, [['t', [V('Q0')]]])
    prog([['t', [V('L')], call('findall', A('x'), A('z'), V('L'))], ['u', [V('L')], ['and', call('=', V('G'), F('foo', V('X'))), call('findall', V('X'), V('G'), V('L'))]],
          ['v', [V('L')], call('findall', V('X'), F('nope', V('X')), V('L'))]] + foo, [['t', [V('Q0')]], ['u', [V('Q0')]], ['v', [V('Q0')]]])
    prog([['t', [], call('once', F('nope', V('_')))], ['u', [V('X')], call('once', F('foo', V('X')))]] + foo, [['t', []], ['u', [V('Q0')]]])
    # the same goal term called with extra arguments more than once (backtracking, recursion)
    prog([['t', [V('X'), V('Y')], ['and', call('=', V('G'), F('e', V('X'))), ['and', call('foo', V('_')), call('call', V('G'), V('Y'))]]],
          ['m', [V('G'), ['list', []]], ['true']], ['m', [V('G'), ['pair', V('H'), V('T')]], ['and', call('call', V('G'), V('H')), call('m', V('G'), V('T'))]]] + foo,
         [['t', [V('Q0'), V('Q1')]], ['m', [F('e', A('a')), ['list', [V('Q0'), V('Q0')]]]], ['m', [A('foo'), ['list', [V('Q0'), V('Q1')]]]]])
    # \= with repeated / aliased variables
    prog([['n1', [], call('\\=', F('f', V('X'), V('X')), F('f', A('a'), A('b')))], ['n2', [], ['and', call('=', V('Y'), V('X')), call('\\=', F('f', V('X'), V('Y')), F('f', A('a'), A('b')))]],
          ['n3', [V('X')], call('\\=', V('X'), A('a'))], ['n4', [], call('\\=', ['list', [V('X'), V('X')]], ['list', [['num', '1'], ['num', '2']]])]],
         [['n1', []], ['n2', []], ['n3', [V('Q0')]], ['n3', [A('b')]], ['n4', []]])
    # round 3: a non-variable bag that shares variables with a goal whose later answers depend on them; the bag is matched
    # only after the enumeration (r(V,X) on its own: X = V, then V = b, X = c)
    r = [['r', [V('V'), V('X')], call('=', V('X'), V('V'))], ['r', [V('V'), V('X')], ['and', call('=', V('V'), A('b')), call('=', V('X'), A('c'))]],
         ['e', [A('a'), A('b')], ['true']], ['e', [A('b'), A('c')], ['true']]]
    bagT = ['pair', A('a'), V('T')]
    prog([['t1', [V('V'), V('T')], call('findall', V('X'), F('r', V('V'), V('X')), bagT)],
          ['t2', [V('G'), V('T')], call('findall', V('X'), F('call', V('G'), V('X')), bagT)],
          ['t3', [V('V')], call('findall', V('X'), F('r', V('V'), V('X')), ['list', [V('_')]])],
          ['t4', [V('V'), V('P'), V('Q')], call('findall', V('X'), F('r', V('V'), V('X')), ['list', [V('P'), V('Q')]])],
          ['t5', [V('V'), V('T')], call('findall', V('X'), F('r', V('V'), V('X')), ['pair', V('V'), V('T')])],
          ['u', [V('N'), V('T')], call('findall', F('p', V('X'), V('N')), F('e', V('X'), V('N')), ['pair', F('p', A('a'), V('N')), V('T')])],
          ['o', [V('V'), V('X')], ['and', call('once', F('r', V('V'), V('X'))), call('=', V('V'), A('b'))]],
          ['c', [V('V'), V('X')], ['and', call('call', F('r', V('V')), V('X')), call('\\=', V('V'), A('a'))]]] + r,
         [['t1', [V('Q0'), V('Q1')]], ['t1', [A('b'), V('Q0')]], ['t1', [A('c'), V('Q0')]], ['t2', [F('r', V('Q0')), V('Q1')]], ['t3', [V('Q0')]],
          ['t4', [V('Q0'), V('Q1'), V('Q2')]], ['t4', [V('Q0'), V('Q0'), V('Q1')]], ['t5', [V('Q0'), V('Q1')]], ['u', [V('Q0'), V('Q1')]],
          ['o', [V('Q0'), V('Q1')]], ['c', [V('Q0'), V('Q1')]],
          ['findall', [V('Q0'), F('r', V('Q1'), V('Q0')), ['pair', A('a'), V('Q2')]]], ['findall', [V('Q0'), F('e', V('Q0'), V('Q1')), ['pair', A('a'), V('Q1')]]]])
    L[-1]['three_views'] = True
    return L

def nontrivial(case, io):
    if _api(case):
        return API.nontrivial(case, io)
    if not isinstance(io, dict) or 'queries' not in io or not any(q['count'] >= 1 for q in io['queries']):
        return False
    cs = set()
    for _, _, b in case['clauses']:
        progs.constructs(b, cs)
    return bool(cs & {'call:call', 'call:once', 'call:findall'})

def _bags(b, acc):
    if b[0] in ('and', 'or', 'if'):
        _bags(b[1], acc); _bags(b[2], acc)
    elif b[0] == 'not':
        _bags(b[1], acc)
    elif b[0] == 'call' and b[1] == 'findall' and len(b[2]) == 3:
        t = b[2][2]
        k = 'variable' if t[0] == 'var' else 'closed list' if t[0] == 'list' else 'partial list' if t[0] == 'pair' else 'not a list'
        acc[k] = acc.get(k, 0) + 1

def distribution(cases, obs):
    api = [i for i, c in enumerate(cases) if _api(c)]
    n_api = len(api)
    keep = [i for i, c in enumerate(cases) if not _api(c)]
    cases, obs = [cases[i] for i in keep], [obs[i] for i in keep]
    d = semcheck.stats(cases, obs)
    d['cases_api_constants_family'] = n_api
    d['cases_meta_shared_family'] = sum(1 for c in cases if c.get('origin') == 'meta-shared')
    bags = {}
    for c in cases:
        for _, _, b in c['clauses']:
            _bags(b, bags)
        for q in c['queries']:
            if q[0] == 'findall' and len(q[1]) == 3:
                _bags(['call', 'findall', q[1]], bags)
    d['findall_bag_shapes'] = bags
    d['cases_with_twin_oracle'] = sum(1 for o in obs if isinstance(o, dict) and 'twin' in o)
    shapes = {}
    for c in cases:
        k = c.get('shape', 'layered')
        shapes[k] = shapes.get(k, 0) + 1
    d['program_shapes'] = shapes
    d['queries_where_findall_collected_an_unbound_variable_of_the_caller'] = sum(
        1 for o in obs if isinstance(o, dict) and 'queries' in o for q in o['queries'] if q.get('findall_outer'))
    return d

# ---- intrinsic oracle (implementation alone, no model): every builtin call is replaced by its standard definition
#   findall(T,G,B)      =>  findall(T,G,L'), L' = B        (L' a new variable: the bag is matched AFTER the enumeration)
#   X \= Y              =>  \+ X = Y
#   once(G)             =>  ( G -> true ), true             (G written inline)
#   call(G,A1..An)      =>  name(args ++ A1..An)            (G written inline)
# and the rewritten program must give the same answers to the same queries on the implementation.
def _twin_body(b, n):
    k = b[0]
    if k in ('and', 'or', 'if'):
        return [k, _twin_body(b[1], n), _twin_body(b[2], n)]
    if k == 'not':
        return ['not', _twin_body(b[1], n)]
    if k != 'call':
        return b
    f, args = b[1], b[2]
    if f == 'findall' and len(args) == 3:
        n[0] += 1
        lv = ['var', 'Twin%d' % n[0]]
        return ['and', ['call', 'findall', [args[0], args[1], lv]], ['call', '=', [lv, args[2]]]]
    if f == '\\=' and len(args) == 2:
        n[0] += 1
        return ['not', ['call', '=', args]]
    if f == 'once' and len(args) == 1 and args[0][0] in ('fun', 'atom'):
        n[0] += 1
        g = args[0]
        # `, true`: an if-then directly to the left of a `;` would be read as if-then-else
        return ['and', ['if', ['call', g[1], g[2] if g[0] == 'fun' else []], ['true']], ['true']]
    if f == 'call' and args and args[0][0] in ('fun', 'atom'):
        g = args[0]
        name = g[1]
        if name in ('true', 'fail', '!', ',', ';', '->', '\\+'):
            return b
        n[0] += 1
        return ['call', name, (g[2] if g[0] == 'fun' else []) + args[1:]]
    return b

def twin(case):
    n = [0]
    cl = [[name, args, _twin_body(body, n)] for name, args, body in case['clauses']]
    if not n[0]:
        return None
    return {'clauses': cl, 'queries': case['queries']}

def impl(case):
    if _api(case):
        return API.impl(case)
    io = semcheck.impl(case)
    if isinstance(io, dict) and 'queries' in io and 'findall' in semcheck.source_of(case):
        # see lib/findall_diag.py: does some collected instance contain an unbound variable of the caller?
        from lib import findall_diag
        try:
            for iq, f in zip(io['queries'], findall_diag.outer_flags(case)):
                iq['findall_outer'] = f
        except Exception:
            pass
    if isinstance(io, dict) and 'queries' in io and not case.get('source'):
        tw = twin(case)
        if tw is not None:
            t = semcheck.impl(tw)
            # a rewritten program that the compiler refuses (it is larger: CPython's nesting limits, D13) says nothing
            if isinstance(t, dict) and 'queries' in t:
                io['twin'] = t['queries']
    return io

def oracle(case, io):
    if _api(case):
        return API.oracle(case, io)
    r = semcheck.oracle(case, io)
    if r or not isinstance(io, dict) or 'twin' not in io:
        return r
    tw = io['twin']
    from lib import ast_io
    for q, a, b in zip(case['queries'], io['queries'], tw):
        if a['end'] != 'done' or b['end'] != 'done':
            continue
        x, y = a['answers'], b['answers']
        if x != y or a['count'] != b['count']:
            qtxt = ast_io.term_text(['fun', q[0], q[1]]) if q[1] else q[0]
            return ('query %s: %d answers, but %d answers when every findall(T,G,B) is written findall(T,G,L), L = B, every X \\= Y as \\+ X = Y, '
                    'every inline once(G) as (G -> true) and every inline call(G,A..) as the goal itself' % (qtxt, a['count'], b['count']))
    return None
