"""C09 - call/N, once/1, findall/3, = and \\= agree with their standard definitions."""
from lib import semcheck, progs, progs_shapes
from lib.semcheck import impl, model_expr, compare, oracle, describe, shrink, IMPORTS

ID = 'C09'
THEOREMS = ['C09_compiled_program_computes_reference', 'C09_builtin_extensional', 'C09_call_spec_compound', 'C09_call_spec_atom', 'C09_once_spec', 'C09_findall_spec', 'C09_findall_one_instance_per_answer', 'C09_findall_instances', 'C09_findall_at_most_once', 'C09_findall_shares_caller_variables', 'C09_eq_spec', 'C09_condition_failure_discards_bindings', 'C09_after_failed_condition', 'C09_negation_discards_bindings',
            'C09_branch_failure_discards_bindings', 'C09_neq_spec']
CASE_TIMEOUT = 60
MODEL_NEEDS_IMPL = True
COQ_CHUNK = 20
RULE = ('random programs whose bodies use call/1..N (extra arguments), once/1, findall/3, = and \\= with goals written inline or arriving '
        'through one or two bound variables, atoms or compound goals, with 0/1/many solutions, as first/middle/last goal, under \\+ and inside '
        'if-then-else, with templates that share variables with the goal and repeated variables in \\= ; compared as C01 (the builtins are part '
        'of both Coq semantics). Non-trivial: a builtin is called with a goal that arrives through a variable or has extra arguments or has no '
        'solution, and some query has an answer. Plus program shapes of lib/progs_shapes.py: clause-local variables that occur first in an = goal '
        '(either side) inside a condition / negation / disjunction branch / once / call / findall, followed there by a goal that may fail, and '
        'used again in the else branch or after the construct (all locals exported through the head); findall/3 with a closed or partial '
        'list as bag that shares variables with the goal, the template or an instance.')
TRUSTED_BASE = []

N_FIRST = {'quick': 40, 'thorough': 400}
N_BAG = {'quick': 30, 'thorough': 300}

def impl(case):
    io = semcheck.impl(case)
    if isinstance(io, dict) and 'queries' in io and 'findall' in semcheck.source_of(case):
        # see lib/findall_diag.py: does some collected instance contain an unbound variable of the caller?
        from lib import findall_diag
        try:
            for iq, f in zip(io['queries'], findall_diag.outer_flags(case)):
                iq['findall_outer'] = f
        except Exception:
            pass
    return io

SLD_MSG = 'compiled-code model and SLD reference differ'
HIGH_RECURSION_LIMIT = 30000

def _impl_high_limit(case):
    import sys
    lim = sys.getrecursionlimit()
    try:
        sys.setrecursionlimit(HIGH_RECURSION_LIMIT)
        return semcheck.impl(case)
    finally:
        sys.setrecursionlimit(lim)

def rerun_with_high_recursion_limit(case):
    """the engine walks a list recursively (get_value, unify), so a findall/3 result of about a thousand instances hits CPython's
    default recursion limit - a resource limit of the host that the model does not have.  A query that ended by RecursionError
    although the model finishes is run once more, in a process of its own, with a 30x limit before the difference is believed;
    an unbounded recursion still ends by RecursionError there."""
    import multiprocessing, concurrent.futures as cf
    try:
        with cf.ProcessPoolExecutor(1, mp_context=multiprocessing.get_context('fork')) as ex:
            return ex.submit(_impl_high_limit, case).result(timeout=120)
    except Exception:
        return None

def compare(case, io, mo):
    """semcheck.compare, query by query; a difference between the two Coq semantics (compiled-code model vs the auxiliary SLD
    reference - the implementation has already been found equal to the compiled-code model at that point) is not reported for a
    query in which findall/3 collected an instance that contains an unbound variable of the caller (lib/findall_diag.py)"""
    if not (isinstance(io, dict) and 'queries' in io and isinstance(mo, list) and not (mo and mo[0] == 'front-rejects')):
        return semcheck.compare(case, io, mo)
    idx = semcheck.compared_queries(case, io)
    for k, qi in enumerate(idx):
        if k >= len(mo):
            break
        iq = io['queries'][qi]
        sub = dict(case, queries=[case['queries'][qi]])
        r = semcheck.compare(sub, {'queries': [iq]}, [mo[k]])
        if r and 'raised RecursionError' in r and 'the model finishes normally' in r:
            io2 = rerun_with_high_recursion_limit(sub)
            if isinstance(io2, dict) and 'queries' in io2 and io2['queries'][0]['end'] != 'raised RecursionError':
                iq2 = dict(io2['queries'][0], findall_outer=iq.get('findall_outer'))
                if iq2['end'] in ('cap', 'budget'):
                    continue            # the search is too long to be compared with the eagerly evaluated model
                iq = iq2
                r = semcheck.compare(sub, {'queries': [iq]}, [mo[k]])
        if r and SLD_MSG in r and iq.get('findall_outer'):
            continue
        if r:
            return r
    return None

def gen(rng, tier):
    n = 240 if tier == 'quick' else 5000
    cases = []
    for _ in range(n):
        o = progs.Opts(open_leaves=0.5 if rng.random() < 0.6 else 0.0, control=rng.random() < 0.5, cut=rng.random() < 0.2, opaque_cut=False, builtins=True)
        p = progs.gen_program(rng, o)
        cases.append({'clauses': p['clauses'], 'queries': p['queries']})
    # clause-local variables that occur first in an = goal inside a scope whose bindings must be undone (lib/progs_shapes.py)
    for _ in range(N_FIRST[tier]):
        cases.append(progs_shapes.gen_first_binding_program(rng))
    # findall/3 whose bag is already (partly) instantiated and shares variables with the goal / the instances
    for _ in range(N_BAG[tier]):
        cases.append(progs_shapes.gen_findall_bag_program(rng))
    return cases

def builtin_corpus():
    from lib.progs import V, A, F
    L = []
    def prog(clauses, queries): L.append({'clauses': clauses, 'queries': queries})
    call = lambda f, *a: ['call', f, list(a)]
    foo = [['foo', [['num', '1']], ['true']], ['foo', [['num', '2']], ['true']], ['e', [A('a'), A('b')], ['true']], ['e', [A('b'), A('c')], ['true']], ['z', [], ['true']]]
    prog([['t', [V('X')], ['and', call('=', V('G'), F('foo', V('X'))), call('call', V('G'))]]] + foo, [['t', [V('Q0')]]])
    prog([['t', [V('L')], call('findall', A('x'), A('z'), V('L'))], ['u', [V('L')], ['and', call('=', V('G'), F('foo', V('X'))), call('findall', V('X'), V('G'), V('L'))]],
          ['v', [V('L')], call('findall', V('X'), F('nope', V('X')), V('L'))]] + foo, [['t', [V('Q0')]], ['u', [V('Q0')]], ['v', [V('Q0')]]])
    prog([['t', [], call('once', F('nope', V('_')))], ['u', [V('X')], call('once', F('foo', V('X')))]] + foo, [['t', []], ['u', [V('Q0')]]])
    # the same goal term called with extra arguments more than once (backtracking, recursion)
    prog([['t', [V('X'), V('Y')], ['and', call('=', V('G'), F('e', V('X'))), ['and', call('foo', V('_')), call('call', V('G'), V('Y'))]]],
          ['m', [V('G'), ['list', []]], ['true']], ['m', [V('G'), ['pair', V('H'), V('T')]], ['and', call('call', V('G'), V('H')), call('m', V('G'), V('T'))]]] + foo,
         [['t', [V('Q0'), V('Q1')]], ['m', [F('e', A('a')), ['list', [V('Q0'), V('Q0')]]]], ['m', [A('foo'), ['list', [V('Q0'), V('Q1')]]]]])
    # \= with repeated / aliased variables
    prog([['n1', [], call('\\=', F('f', V('X'), V('X')), F('f', A('a'), A('b')))], ['n2', [], ['and', call('=', V('Y'), V('X')), call('\\=', F('f', V('X'), V('Y')), F('f', A('a'), A('b')))]],
          ['n3', [V('X')], call('\\=', V('X'), A('a'))], ['n4', [], call('\\=', ['list', [V('X'), V('X')]], ['list', [['num', '1'], ['num', '2']]])]],
         [['n1', []], ['n2', []], ['n3', [V('Q0')]], ['n3', [A('b')]], ['n4', []]])
    return L

def nontrivial(case, io):
    if not isinstance(io, dict) or 'queries' not in io or not any(q['count'] >= 1 for q in io['queries']):
        return False
    cs = set()
    for _, _, b in case['clauses']:
        progs.constructs(b, cs)
    return bool(cs & {'call:call', 'call:once', 'call:findall'})

def distribution(cases, obs):
    d = semcheck.stats(cases, obs)
    shapes = {}
    for c in cases:
        k = c.get('shape', 'layered')
        shapes[k] = shapes.get(k, 0) + 1
    d['program_shapes'] = shapes
    d['queries_where_findall_collected_an_unbound_variable_of_the_caller'] = sum(
        1 for o in obs if isinstance(o, dict) and 'queries' in o for q in o['queries'] if q.get('findall_outer'))
    return d
