"""C09 - call/N, once/1, findall/3, = and \\= agree with their standard definitions."""
from lib import semcheck, progs
from lib.semcheck import impl, model_expr, compare, oracle, describe, shrink, IMPORTS

ID = 'C09'
THEOREMS = ['C09_compiled_program_computes_reference', 'C09_builtin_extensional', 'C09_call_spec_compound', 'C09_call_spec_atom', 'C09_once_spec', 'C09_findall_spec', 'C09_findall_one_instance_per_answer', 'C09_findall_instances', 'C09_findall_at_most_once', 'C09_findall_bag_after_enumeration', 'C09_eq_spec', 'C09_neq_spec']
CASE_TIMEOUT = 60
MODEL_NEEDS_IMPL = True
COQ_CHUNK = 20
RULE = ('random programs whose bodies use call/1..N (extra arguments), once/1, findall/3, = and \\= with goals written inline or arriving '
        'through one or two bound variables, atoms or compound goals, with 0/1/many solutions, as first/middle/last goal, under \\+ and inside '
        'if-then-else, with templates that share variables with the goal and repeated variables in \\= ; compared as C01 (the builtins are part '
        'of both Coq semantics). Non-trivial: a builtin is called with a goal that arrives through a variable or has extra arguments or has no '
        'solution, and some query has an answer.')
TRUSTED_BASE = []

def gen(rng, tier):
    n = 240 if tier == 'quick' else 5000
    cases = []
    for _ in range(n):
        o = progs.Opts(open_leaves=0.5 if rng.random() < 0.6 else 0.0, control=rng.random() < 0.5, cut=rng.random() < 0.2, opaque_cut=False, builtins=True,
                       bag_shapes=0.5)
        p = progs.gen_program(rng, o)
        cases.append({'clauses': p['clauses'], 'queries': p['queries']})
    # builtins whose other arguments (bag, extra arguments, terms of = and \=) share variables with a goal whose answers
    # depend on the binding state of those variables (progs.gen_meta_program)
    for _ in range(110 if tier == 'quick' else 3000):
        p = progs.gen_meta_program(rng)
        cases.append({'clauses': p['clauses'], 'queries': p['queries'], 'origin': 'meta-shared', 'three_views': True})
    return cases

def builtin_corpus():
    from lib.progs import V, A, F
    L = []
    def prog(clauses, queries): L.append({'clauses': clauses, 'queries': queries})
    call = lambda f, *a: ['call', f, list(a)]
    foo = [['foo', [['num', '1']], ['true']], ['foo', [['num', '2']], ['true']], ['e', [A('a'), A('b')], ['true']], ['e', [A('b'), A('c')], ['true']], ['z', [], ['true']]]
    prog([['t', [V('X')], ['and', call('=', V('G'), F('foo', V('X'))), call('call', V('G'))]]] + foo, [['t', [V('Q0')]]])
    prog([['t', [V('L')], call('findall', A('x'), A('z'), V('L'))], ['u', [V('L')], ['and', call('=', V('G'), F('foo', V('X'))), call('findall', V('X'), V('G'), V('L'))]],
          ['v', [V('L')], call('findall', V('X'), F('nope', V('X')), V('L'))]] + foo, [['t', [V('Q0')]], ['u', [V('Q0')]], ['v', [V('Q0')]]])
    prog([['t', [], call('once', F('nope', V('_')))], ['u', [V('X')], call('once', F('foo', V('X')))]] + foo, [['t', []], ['u', [V('Q0')]]])
    # the same goal term called with extra arguments more than once (backtracking, recursion)
    prog([['t', [V('X'), V('Y')], ['and', call('=', V('G'), F('e', V('X'))), ['and', call('foo', V('_')), call('call', V('G'), V('Y'))]]],
          ['m', [V('G'), ['list', []]], ['true']], ['m', [V('G'), ['pair', V('H'), V('T')]], ['and', call('call', V('G'), V('H')), call('m', V('G'), V('T'))]]] + foo,
         [['t', [V('Q0'), V('Q1')]], ['m', [F('e', A('a')), ['list', [V('Q0'), V('Q0')]]]], ['m', [A('foo'), ['list', [V('Q0'), V('Q1')]]]]])
    # \= with repeated / aliased variables
    prog([['n1', [], call('\\=', F('f', V('X'), V('X')), F('f', A('a'), A('b')))], ['n2', [], ['and', call('=', V('Y'), V('X')), call('\\=', F('f', V('X'), V('Y')), F('f', A('a'), A('b')))]],
          ['n3', [V('X')], call('\\=', V('X'), A('a'))], ['n4', [], call('\\=', ['list', [V('X'), V('X')]], ['list', [['num', '1'], ['num', '2']]])]],
         [['n1', []], ['n2', []], ['n3', [V('Q0')]], ['n3', [A('b')]], ['n4', []]])
    return L

def nontrivial(case, io):
    if not isinstance(io, dict) or 'queries' not in io or not any(q['count'] >= 1 for q in io['queries']):
        return False
    cs = set()
    for _, _, b in case['clauses']:
        progs.constructs(b, cs)
    return bool(cs & {'call:call', 'call:once', 'call:findall'})

def distribution(cases, obs):
    return semcheck.stats(cases, obs)
