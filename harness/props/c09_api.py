"""C09, family 'api' (round 4): = and \\= (directly and through call/N, once/1, findall/3, a goal bound at run time, and
inside a compiled program whose values arrive from a registered Python predicate) on terms that only the Python API can
build - the constants of lib/pyconsts.py (None, bools, ints, floats, bytes, tuples, strings spelled like atoms ...), alone,
under a variable that occurs twice, inside compound terms and lists, under earlier still active bindings.

A case: {'kind': 'api', 'stack': [[a, b] ...], 't1': a, 't2': b, 'nvars': n} (the shape of a C02 'pair' case).  The
implementation side holds the unifications of the stack open (so the values also arrive through bound variables) and
then asks EVERY form below about t1 and t2; per form: number of answers, at every answer the dereferenced t1 / t2 / variables
and the bound flags, and whether the bindings are as before afterwards.

Judged by (1) the intrinsic oracle, implementation alone: in every form `X \\= Y` has exactly one answer, binding nothing,
iff `X = Y` (form 'eq') has none, else none; all forms of `=` agree with 'eq'; at an answer of `=` both terms dereference
alike; findall's list has one instance per answer; nothing stays bound; (2) the reference unifier of lib/pyconsts.py
(constants by Python == on the real values: the rule of the unchanged engine.unify); (3) the Coq model: Unify.unify through
RunUnify.run_unify on the ==-classes of the constants (C09_eq_spec / C09_neq_spec: the builtins = and \\= of Sem/Machine.v
ARE Unify.unify / its failure), cases with a NaN excepted (no equality-based model fits a value that differs from itself).
"""
from lib import terms, pyconsts
from lib.terms import g_term, g_list, g_pair, g_nat
from lib.pyconsts import to_model

PROGRAM = '''
v_eq(I, J)         :- val(I, A), val(J, B), A = B.
v_neq(I, J)        :- val(I, A), val(J, B), A \\= B.
v_nprov(I, J)      :- val(I, A), val(J, B), \\+ A = B.
v_neq_var(I, J)    :- val(I, A), val(J, B), G = (A \\= B), call(G).
v_neq_var2(I, J)   :- val(I, A), val(J, B), G = (A \\= B), H = G, \\+ \\+ call(H).
v_neq_once(I, J)   :- val(I, A), val(J, B), once(A \\= B).
v_eq_once(I, J)    :- val(I, A), val(J, B), once(A = B).
v_neq_bag(I, J, L) :- val(I, A), val(J, B), findall(x, A \\= B, L).
v_eq_bag(I, J, L)  :- val(I, A), val(J, B), findall(x, A = B, L).
v_ite(I, J, R)     :- val(I, A), val(J, B), ( A \\= B -> R = differ ; R = same ).
'''
_COMPILED = [None]

class Ctx:
    debug_filename = ''
    debug_parser = False
    debug_generator = False

EQ_FORMS = ['eq', 'call_eq', 'call_eq_part', 'var_eq', 'once_eq', 'v_eq', 'v_eq_once']
NEQ_FORMS = ['neq', 'call_neq', 'call_neq_part', 'var_neq', 'once_neq', 'v_neq', 'v_nprov', 'v_neq_var', 'v_neq_var2', 'v_neq_once']

def impl(case):
    try:
        return _impl(case)
    except RecursionError:
        return ['cyc-or-deep']

def _impl(case):
    from yldprolog import engine as E, compiler
    if _COMPILED[0] is None:
        _COMPILED[0] = compiler.compile_prolog_from_string(PROGRAM, Ctx)
    yp = E.YP()
    nv = case['nvars']
    T = pyconsts.make_impl_terms([yp], nv)
    held = []
    for a, b in case['stack']:
        g = iter(E.unify(T.build(a), T.build(b)))
        try:
            next(g)
        except StopIteration:
            for h in reversed(held):
                h.close()
            return ['stack']
        held.append(g)
    A = T.build(case['t1']); B = T.build(case['t2'])
    cell = [A, B]
    def val(i, v):
        for _ in E.unify(v, cell[E.get_value(i)]):
            yield False
    yp.register_function('val', val)
    yp.load_script_from_string(_COMPILED[0])
    vars_ = T.vars[:nv]
    def state():
        return [terms.term_obs(T.read(v)) for v in vars_]
    before = state()
    F = yp.functor
    out = {}
    def run(form, name, args, extra=None):
        try:
            ans = []
            xs = list(extra or [])
            for _ in yp.query(name, args):
                ans.append({'t1': terms.term_obs(T.read(A)), 't2': terms.term_obs(T.read(B)), 'vars': state(),
                            'x': [terms.term_obs(T.read(x)) for x in xs]})
                if len(ans) > 3:
                    break
            out[form] = {'n': len(ans), 'ans': ans, 'restored': state() == before}
        except RecursionError:
            out[form] = {'raised': 'RecursionError'}
        except Exception as e:          # noqa
            out[form] = {'raised': type(e).__name__}
    def goalvar(g):
        G = yp.variable()
        h = iter(E.unify(G, g))
        next(h)
        return G, h
    run('eq', '=', [A, B])
    run('neq', '\\=', [A, B])
    run('call_eq', 'call', [F('=', [A, B])])
    run('call_neq', 'call', [F('\\=', [A, B])])
    run('call_eq_part', 'call', [F('=', [A]), B])
    run('call_neq_part', 'call', [F('\\=', [A]), B])
    for form, op in (('var_eq', '='), ('var_neq', '\\=')):
        G, h = goalvar(F(op, [A, B]))
        run(form, 'call', [G])
        h.close()
    run('once_eq', 'once', [F('=', [A, B])])
    run('once_neq', 'once', [F('\\=', [A, B])])
    for form, op in (('bag_eq', '='), ('bag_neq', '\\=')):
        L = yp.variable()
        run(form, 'findall', [yp.atom('x'), F(op, [A, B]), L], [L])
        L = yp.variable()
        G, h = goalvar(F('call', [F(op, [A]), B]))
        run(form + '_var', 'findall', [F('t', [A, B]), G, L], [L])
        h.close()
    for form in ('v_eq', 'v_neq', 'v_nprov', 'v_neq_var', 'v_neq_var2', 'v_neq_once', 'v_eq_once'):
        run(form, form, [0, 1])
    for form in ('v_neq_bag', 'v_eq_bag', 'v_ite'):
        L = yp.variable()
        run(form, form, [0, 1, L], [L])
    for h in reversed(held):
        h.close()
    return {'forms': out, 'final_unbound': not any(T.bound_state()), 'before': before}

def model_expr(case, io=None):
    if any(pyconsts.has_nan(t) for p in case['stack'] for t in p) or pyconsts.has_nan(case['t1']) or pyconsts.has_nan(case['t2']):
        return None
    stk = g_list([g_pair(g_term(to_model(a)), g_term(to_model(b))) for a, b in case['stack']])
    return '(run_unify 200 %s %s %s %s)' % (stk, g_term(to_model(case['t1'])), g_term(to_model(case['t2'])), g_nat(case['nvars']))

def _reference(case):
    return pyconsts.ref_outcome([tuple(p) for p in case['stack']] + [(case['t1'], case['t2'])])

X_LIST = [4, '.', [[0, 'x'], [0, '[]']]]
NIL = [0, '[]']

def _judge(case, io, want, who):
    """want: 'ok' | 'clash' for the pair under the stack, decided by `who`"""
    forms = io['forms']
    uni = want == 'ok'
    for form, r in sorted(forms.items()):
        what = 'form %s' % form
        if 'raised' in r:
            return '%s raised %s' % (what, r['raised'])
        if not r['restored']:
            return '%s: the bindings after the enumeration are not those before it' % what
        if form in EQ_FORMS:
            if r['n'] != (1 if uni else 0):
                return '%s: %d answers, but the terms %s (%s)' % (what, r['n'], 'unify' if uni else 'do not unify', who)
            for a in r['ans']:
                if a['t1'] != a['t2']:
                    return '%s: at the answer the two terms do not dereference to the same term' % what
        elif form in NEQ_FORMS:
            if r['n'] != (0 if uni else 1):
                return '%s: %d answers, but the terms %s (%s)' % (what, r['n'], 'unify' if uni else 'do not unify', who)
            for a in r['ans']:
                if a['vars'] != io['before']:
                    return '%s: \\= bound a variable' % what
        elif form in ('bag_eq', 'v_eq_bag', 'bag_neq', 'v_neq_bag'):
            yes = uni == (form in ('bag_eq', 'v_eq_bag'))
            if r['n'] != 1 or r['ans'][0]['x'] != [X_LIST if yes else NIL]:
                return '%s: findall/3 must succeed once with %s (%s)' % (what, '[x]' if yes else '[]', who)
            if r['ans'][0]['vars'] != io['before']:
                return '%s: findall/3 left a binding of its goal' % what
        elif form in ('bag_eq_var', 'bag_neq_var'):
            yes = uni == (form == 'bag_eq_var')
            if r['n'] != 1:
                return '%s: findall/3 must succeed exactly once' % what
            lst = r['ans'][0]['x'][0]
            n = 0
            while lst[0] == 4 and lst[1] == '.' and len(lst[2]) == 2:
                inst = lst[2][0]
                if form == 'bag_eq_var' and not (inst[0] == 4 and inst[1] == 't' and inst[2][0] == inst[2][1]):
                    return '%s: the instance collected for an answer of = does not have two equal arguments' % what
                n += 1
                lst = lst[2][1]
            if lst != NIL or n != (1 if yes else 0):
                return '%s: findall/3 collected %d instances, expected %d (%s)' % (what, n, 1 if yes else 0, who)
            if r['ans'][0]['vars'] != io['before']:
                return '%s: findall/3 left a binding of its goal' % what
        elif form == 'v_ite':
            if r['n'] != 1 or r['ans'][0]['x'] != [[0, 'same' if uni else 'differ']]:
                return '%s: ( A \\= B -> R = differ ; R = same ) must answer %s (%s)' % (what, 'same' if uni else 'differ', who)
    return None

def oracle(case, io):
    want = _reference(case)
    if io == ['stack']:
        return None if want in ('stack', 'cyc') else 'a unification of the stack does not yield although its terms are unifiable'
    if want == 'cyc':
        return None
    if io == ['cyc-or-deep']:
        return 'RecursionError although no binding needs a cyclic term'
    if not isinstance(io, dict):
        return None
    if want == 'stack':
        return 'every unification of the stack yields although one of them has no unifier'
    forms = io['forms']
    # intrinsic: whatever the reference says, \= must be the failure of = (form 'eq')
    if 'n' in forms['eq']:
        r = _judge(case, io, 'ok' if forms['eq']['n'] >= 1 else 'clash', 'the goal X = Y asked directly')
        if r:
            return r
    r = _judge(case, io, want, 'reference: constants by Python ==')
    if r:
        return r
    if not io['final_unbound']:
        return 'a variable is still bound after everything was closed'
    return None

def compare(case, io, mo):
    if mo[0] == 'oof':
        return 'model ran out of fuel (harness problem)'
    if mo[0] == 'cyc':
        return None
    if mo[0] == 'stack':
        return None if io == ['stack'] else 'model: a stacked unification fails, implementation: it succeeds'
    if io == ['stack']:
        return 'implementation: a stacked unification fails, model: it succeeds'
    if not isinstance(io, dict):
        return None
    r = _judge(case, io, 'ok' if mo[0] == 'ok' else 'clash', 'Coq model Unify.unify')
    if r:
        return r
    if mo[0] == 'ok':
        a = io['forms']['eq']['ans'][0]
        if [mo[0], a['t1'], a['t2'], a['vars']] != mo:
            return 'the answer of X = Y differs from the model\'s unifier'
    return None

def nontrivial(case, io):
    return isinstance(io, dict) and (pyconsts.has_const(case['t1']) or pyconsts.has_const(case['t2']) or
                                     any(pyconsts.has_const(t) for p in case['stack'] for t in p))

def describe(case):
    return {'active': ['%s = %s' % (pyconsts.show_term(a), pyconsts.show_term(b)) for a, b in case['stack']],
            'X': pyconsts.show_term(case['t1']), 'Y': pyconsts.show_term(case['t2']),
            'asked': 'X = Y and X \\= Y directly (YP.query), through call/1, call/2, a goal variable, once/1, findall/3, and in a compiled '
                     'program that gets X and Y from a registered Python predicate'}

def shrink(case):
    for i in range(len(case['stack'])):
        yield dict(case, stack=case['stack'][:i] + case['stack'][i + 1:])
    for key in ('t1', 't2'):
        t = case[key]
        if t[0] == 'f':
            for a in t[2]:
                yield dict(case, **{key: a})

def gen(rng, tier):
    from props import c02
    out = []
    n = 160 if tier == 'quick' else 1200
    for _ in range(n):
        c = c02.const_shape(rng)
        out.append(c)
    for _ in range(n // 2):
        nv = rng.choice([2, 3, 4])
        t1 = terms.rand_term(rng, nv, rng.choice([1, 2, 3]), pvar=0.35)
        t2 = terms.mutate_term(rng, t1, nv) if rng.random() < 0.6 else terms.rand_term(rng, nv, 2, pvar=0.35)
        stack = []
        for _ in range(rng.choice([0, 0, 1, 2])):
            stack.append([['v', rng.randrange(nv)], terms.rand_term(rng, nv, 1, pvar=0.3)])
        pal = pyconsts.palette(rng)
        p = rng.choice([0.0, 0.5, 0.9])
        stack = [[a, pyconsts.sprinkle(rng, b, pal, p)] for a, b in stack]
        out.append({'stack': stack, 't1': pyconsts.sprinkle(rng, t1, pal, p), 't2': pyconsts.sprinkle(rng, t2, pal, p), 'nvars': nv})
    pairs = c02.const_pairs(tier)
    out.extend(pairs)
    res = []
    for c in out:
        res.append({'kind': 'api', 'stack': c['stack'], 't1': c['t1'], 't2': c['t2'], 'nvars': c['nvars'], 'origin': 'api-' + c.get('origin', 'random')})
    return res
