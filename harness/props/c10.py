"""C10 - text outside the grammar is rejected, never partially compiled.

Model: Lang/Front.v  (maximal-munch lexer of prolog.g4, precedence-climbing parser, visitor).
Every case is a source text.  The implementation is observed three ways: its token stream
(prologLexer with the raising listener), the AST its front end builds (ast_io.impl_parse) and
the public compile_prolog_from_string.  The model (evaluated inside Coq) returns its token stream
and either the stage that refuses the text or the AST."""
import re, random
from lib import ast_io
from lib import emitcheck as E
from lib.terms import g_str
from props.cli_gen import split_text, open_ended_sources

ID = 'C10'
IMPORTS = ['Lang.Ast', 'Lang.Front', 'Comp.RunCompile']
THEOREMS = ['C10_rule_scan_exact', 'C10_rule_scan_none', 'C10_lex_maximal_munch', 'C10_lex_exact', 'C10_lex_error_spec',
            'C10_lex_complete', 'C10_parse_yield', 'C10_ast_clause_count', 'C10_front_whole_input',
            'C10_parse_complete', 'C10_parse_complete_fuel', 'C10_parse_spec', 'C10_parse_none_spec', 'C10_parse_unambiguous',
            'C10_front_rejects_non_sentences', 'C10_front_spec', 'C10_front_none_spec', 'C10_canonical_tree_exists', 'C10_parse_canonical_exact', 'C10_canonical_unique',
            'C10_term_fuel_monotone', 'C10_compile_whole_program', 'C10_front_compile_whole',
            'C10_compile_front_rejects_non_sentences', 'C10_compile_front_whole',
            'C10_quoted_atom_opaque', 'C10_quoted_body_irrelevant', 'C10_cli_sources_are_sentences', 'C10_cli_non_sentence_fails']
RULE = ('source texts: (a) sentences derived at random from the grammar prolog.g4 itself (every alternative, including '
        '=(a,b), unary operators, name/arity, numeral-named compounds, foo(), [a,|T], nested parentheses, directives), '
        '(b) programs printed from random ASTs, both rendered with random spacing, line breaks and % comments, and (c) every '
        'single-edit corruption class of such texts: token deletion / insertion / duplication / swap, truncation at token '
        'boundaries and inside tokens, character deletion / replacement, foreign characters (# " { NUL non-ASCII) outside and '
        'inside quotes, unterminated quoted atoms (at the end and at a clause boundary), trailing garbage after the last full '
        'stop, garbage before the first clause, a comment without line break at the end, a missing final full stop; '
        '(d) quoted atoms that span lines, whose lines start with what means something outside an atom (% /* // # :- . , brackets, '
        'quotes, clause text) and end with every kind of line end, comments that contain quotes, and the single edits placed directly '
        'before / after a quoted atom, on its quotes, and at the line boundaries inside it. '
        '(e) SIZE CLASSES: texts of 8-10 kB (thorough: up to 40 kB) made of hundreds of small clauses - tables of ground facts with atomic '
        'arguments, such tables with a few other clauses, clauses printed from ASTs with many clauses per predicate - and single-edit '
        'corruptions of them (one name becomes a reserved word, one token becomes another, one character changes, ...), judged by the '
        'whole-pipeline model; (f) SEQUENCES of 2-3 source texts given to one run of the command line (a sentence cut into pieces '
        'inside a comment / quoted atom / clause / bracket / operator / name, open-ended texts followed by their completion, valid and '
        'corrupted texts mixed): every text is judged alone (library = model), the run must exit 0 iff every text is accepted alone and '
        'its output must be the concatenation of the texts of the sources before the first refused one (single-edit kinds also: token substitution, name -> reserved word). '
        'Non-trivial: a corruption of a text with >= 2 clauses, or an accepted text with >= 2 clauses; a source sequence in which a source is refused. Distinct by hash of the text.')
TRUSTED_BASE = [
    'Coq 8.16.1 kernel (coqc); vm_compute for the in-Coq evaluation of the model on every case',
    'no axioms: all C10 theorems are closed under the global context',
    'hand-written model Cli/Cli.v of the command line main() (shared with C19) for the two theorems about source sequences; the real '
    'command line is observed on sequences of sources (each text alone vs. the run) by this check',
    'hand-written model Lang/Lexer.v, Parser.v, Unquote.v of the ANTLR-generated lexer/parser (prolog.g4) and of yp_prolog_visitor.py; '
    'tied to /repo by this differential run (token streams, accept/reject, ASTs), not by translation',
    'the ANTLR 4.9.1 runtime is modelled (maximal munch, rule order, precedence climbing, lowest viable alternative), not verified',
    'harness: generators, driver of the implementation (harness/props/c10.py, harness/lib/ast_io.py), parser of the printed observations',
]
ASSUMPTIONS = ['texts whose compiled form is too large for CPython (CompilerError "program too large") may be refused by the implementation although they are sentences of the grammar',
               'inputs are Python str (sequences of code points); decoding of files is outside C10']
CASE_TIMEOUT = 20
COQ_CHUNK = 60

# ------------------------------------------------------------------ a tokenizer used ONLY to build test inputs

_LITS = ['.', ':-', '\\+', ',', '->', ';', '(', ')', '/', '|', 'true', 'fail', '!']
_RULES = [('lit', re.compile('|'.join(re.escape(l) for l in sorted(_LITS, key=len, reverse=True)))),
          ('VARIABLE', re.compile(r'[A-Z_][A-Za-z0-9_]*')),
          ('ATOM', re.compile(r'[a-z_][A-Za-z0-9_]*')),
          ('NUMERAL', re.compile(r'[0-9]+')),
          ('UNOP', re.compile(r'[-+]')),
          ('BINOP', re.compile(r'\\==|\\=|==|=<|>=|=|<|>')),
          ('STRING', re.compile(r"'(?:\\'|[^'])*'")),
          ('LBRACK', re.compile(r'\[')), ('RBRACK', re.compile(r'\]')),
          ('WS', re.compile(r'[ \t\r\n]')),
          ('COMMENT', re.compile(r'%[^\r\n]*[\r\n]'))]

def tokenize(text, keep_skipped=False):
    """maximal munch over the rules of prolog.g4 (test-input construction only); None if some position matches nothing."""
    out = []
    i = 0
    while i < len(text):
        best = None
        for name, rx in _RULES:
            m = rx.match(text, i)
            if m and m.end() > i and (best is None or m.end() > best[1]):
                best = (name, m.end())
        if best is None:
            return None
        if keep_skipped or best[0] not in ('WS', 'COMMENT'):
            out.append(text[i:best[1]])
        i = best[1]
    return out

def _safe_adjacent(a, b):
    return tokenize(a + b) == [a, b]

_SEPS = [' ', ' ', ' ', '  ', '\n', '\t', '\r\n', ' % a comment\n', '%\n', '\n% c, d. )\n  ', ' %% x \' y\r',
         # comments that contain what means something OUTSIDE a comment: quotes (odd and even numbers), escaped quotes, clause text
         " % it's\n", "%'\n", " % 'a' 'b\n", "\n%'\n%'\n", " % \\'\r\n", "% p('a\n", " %% 'x', \"y\" /* z */\n", '\t%\r', ' \r% c\r\n\t']

def render(tokens, rng, style):
    """style 0: single spaces; 1: as tight as possible; 2: random separators and comments."""
    parts = []
    for i, t in enumerate(tokens):
        if i > 0:
            prev = tokens[i - 1]
            if style == 0:
                sep = ' '
            elif style == 1:
                sep = '' if _safe_adjacent(prev, t) else ' '
            else:
                r = rng.random()
                if r < 0.35 and _safe_adjacent(prev, t):
                    sep = ''
                else:
                    sep = rng.choice(_SEPS)
            parts.append(sep)
        parts.append(t)
    s = ''.join(parts)
    if style == 2 and rng.random() < 0.5:
        s = rng.choice(['', ' ', '\n', '% header\n']) + s + rng.choice(['', '\n', ' ', ' % trailing comment\n'])
    return s

# ------------------------------------------------------------------ sentences derived from the grammar

ATOMS = ['a', 'b', 'c', 'foo', 'bar_1', 'x1', 'trueish', 'failx', 'aB', 'p', 'q', 'r']
NUMERALS = ['0', '1', '42', '007']
STRINGS = ["'hello world'", "'it\\'s'", "''", "'A'", "'éß'", "'line\nbreak'", "'%not a comment'", "'a.b'", "'[]'",
           "'1'", "'_x'", "'foo'", "'\\'q\\''", "'\U0001F600'", "'a,b'", "'don\\'t (stop)'", "':-'", "'true'"]
VARIABLES = ['X', 'Y', 'Z', '_', '_', '_G1', 'Abc', '_x', 'X1']
UNOPS = ['-', '+']
BINOPS = ['=', '\\=', '==', '\\==', '<', '>', '=<', '>=']

_CP_RANGES = [(0x20, 0x7e), (0x20, 0x7e), (0xa0, 0xff), (0x100, 0x24f), (0x370, 0x3ff), (0x400, 0x4ff), (0x300, 0x36f), (0x4e00, 0x4fff),
              (0x1f600, 0x1f64f), (0x1, 0x1f), (0x7f, 0x9f), (0x2000, 0x206f), (0xfe00, 0xfe0f), (0xfff0, 0xffff), (0x10000, 0x1007f),
              (0xe0000, 0xe007f), (0x10fff0, 0x10ffff), (0x5d0, 0x5ea), (0x600, 0x6ff)]

def rnd_cp(rng):
    lo, hi = rng.choice(_CP_RANGES)
    return chr(rng.randint(lo, hi))

def rnd_quoted(rng):
    """a quoted atom with random content: any code points except backslash (and no surrogates), quotes written as \\'"""
    n = rng.choice([0, 1, 1, 2, 3, 5, 8])
    body = ''
    for _ in range(n):
        c = rnd_cp(rng)
        if c == '\\': c = '/'
        body += c
    return "'" + body.replace("'", "\\'") + "'"

# Quoted atoms that run over several lines.  Inside the quotes EVERYTHING is atom text; the lines of these atoms start with what
# means something outside an atom (comment openers of this and other languages, separators, brackets, clause text, quotes) and
# end with every kind of line end, so that a text-level treatment of the source (before or beside the lexer) shows.
_Q_FIRST = ['', '', 'see', 'a', ' ', '% c', "\\'", 'p(a).', 'x ', 'e\u0301', '\ufeff', '\t']
_Q_STARTS = ['%', '%', '%', '% ', '%%', '%', '%', '% ', '%', '% ', "%\\'", '/*', '*/', '//', '#', '--', ':-', '.', ',', ')', '(', ';', '->', '|', ']', '[', "\\'", '"',
             '\\+', '!', '=', 'p(a).', ':- q.', 'X', 'a', '0', '']
_Q_RESTS = ['', '', '', ' chapter 2', ' c, d. )', 'more', ' p(a).', " it\\'s", ' /* c */', ' % x', ' .', "\\'", ' :- q', '.', ')',
            ' \xa0', 'e\u0301', '"', ' ', '\t', ',']
_Q_INDENT = ['', '', '', ' ', '  ', '\t', ' \t']
_Q_BREAKS = ['\n', '\n', '\n', '\n', '\r\n', '\r', '\n\n', ' \n', '\t\n', '\n\r', '\x0c\n', '\\\n']
_MULTILINE_DEFAULT = 0.04
_BIAS = {'multiline': _MULTILINE_DEFAULT}

def multiline_quoted(rng):
    """a quoted atom of 2..4 lines; no backslash stands in front of the closing quote or of another backslash, so the token ends
    at its first quote that is not preceded by a backslash"""
    body = rng.choice(_Q_FIRST)
    for _ in range(rng.choice([1, 1, 1, 2, 3])):
        body += rng.choice(_Q_BREAKS) + rng.choice(_Q_INDENT) + rng.choice(_Q_STARTS) + rng.choice(_Q_RESTS)
    return "'" + body + "'"

def multiline_value(rng):
    """the same as the atom's value (for programs printed from ASTs)"""
    while True:
        v = multiline_quoted(rng)[1:-1].replace("\\'", "'")
        if '\\' not in v:       # a bare backslash cannot be printed by ast_io.atom_text
            return v

def g_atom(rng, callable_bias=False):
    if rng.random() < _BIAS['multiline']: return multiline_quoted(rng)
    r = rng.random()
    if r < 0.7: return rng.choice(ATOMS)
    if r < 0.80: return rng.choice(STRINGS)
    if r < 0.88: return rnd_quoted(rng)
    if r < 0.98: return rng.choice(ATOMS)
    return rng.choice(NUMERALS)

def g_termlist(rng, depth, maxn=3):
    n = rng.choice([0, 1, 1, 2, 2, 3][:maxn + 3])
    out = []
    for i in range(n):
        if i: out.append(',')
        out += g_term(rng, depth)
    return out

def g_term(rng, depth, callable_bias=False):
    """one sentence of `term` (the ambiguous rule as written in the grammar)."""
    if depth <= 0:
        r = rng.random()
        if r < 0.5: return [g_atom(rng, callable_bias)]
        if r < 0.8 and not callable_bias: return [rng.choice(VARIABLES)]
        if r < 0.9 and not callable_bias: return [rng.choice(NUMERALS)]
        return [rng.choice(ATOMS)]
    r = rng.random()
    if callable_bias:
        if r < 0.25: return [rng.choice(ATOMS)]
        if r < 0.80: return [g_atom(rng, True), '('] + g_termlist(rng, depth - 1) + [')']
        if r < 0.90: return g_term(rng, depth - 1) + [rng.choice(BINOPS)] + g_term(rng, depth - 1)
        if r < 0.94: return ['('] + g_term(rng, depth - 1, True) + [')']
        return g_term(rng, depth)
    if r < 0.18: return [g_atom(rng)]
    if r < 0.40: return [g_atom(rng), '('] + g_termlist(rng, depth - 1) + [')']
    if r < 0.41: return [rng.choice(ATOMS), '/', rng.choice(NUMERALS)]
    if r < 0.58: return [rng.choice(VARIABLES)]
    if r < 0.64: return [rng.choice(UNOPS)] + g_term(rng, depth - 1)
    if r < 0.72: return g_term(rng, depth - 1) + [rng.choice(BINOPS)] + g_term(rng, depth - 1)
    if r < 0.76: return [rng.choice(BINOPS), '('] + g_term(rng, depth - 1) + [','] + g_term(rng, depth - 1) + [')']
    if r < 0.81: return ['('] + g_term(rng, depth - 1) + [')']
    if r < 0.92: return ['['] + g_termlist(rng, depth - 1) + [']']
    out = ['['] + g_term(rng, depth - 1)
    if rng.random() < 0.6:
        out += [','] + g_termlist(rng, depth - 1, 2)
    return out + ['|', rng.choice(VARIABLES), ']']

def g_simple(rng, depth, head=False):
    r = rng.random()
    if not head:
        if r < 0.08: return ['true']
        if r < 0.14: return ['fail']
        if r < 0.22: return ['!']
    elif r < 0.02:
        return [rng.choice(['true', 'fail', '!'])]
    return g_term(rng, depth, callable_bias=rng.random() < 0.93)

def g_pe(rng, depth):
    if depth <= 0:
        return g_simple(rng, 1)
    r = rng.random()
    if r < 0.04: return ['fail', ','] + g_pe(rng, depth - 1)        # dead code: the compiler drops what follows `fail`
    if r < 0.35: return g_simple(rng, rng.choice([1, 2]))
    if r < 0.45: return ['\\+'] + g_pe(rng, depth - 1)
    if r < 0.65: return g_pe(rng, depth - 1) + [','] + g_pe(rng, depth - 1)
    if r < 0.75: return g_pe(rng, depth - 1) + ['->'] + g_pe(rng, depth - 1)
    if r < 0.87: return g_pe(rng, depth - 1) + [';'] + g_pe(rng, depth - 1)
    return ['('] + g_pe(rng, depth - 1) + [')']

def g_cord(rng):
    r = rng.random()
    if r < 0.12:
        return [':-'] + g_simple(rng, 2) + ['.']
    head = g_simple(rng, rng.choice([1, 2, 2, 3]), head=True)
    if r < 0.45:
        return head + ['.']
    return head + [':-'] + g_pe(rng, rng.choice([0, 1, 2, 3])) + ['.']

def g_text_clause(rng):
    """a clause of the kind that stores text: flat goals whose arguments are mostly quoted atoms running over several lines"""
    def goal():
        out = [rng.choice(ATOMS), '(']
        for i in range(rng.choice([1, 2, 2, 3, 4])):
            if i: out.append(',')
            r = rng.random()
            if r < 0.7: out.append(multiline_quoted(rng))
            elif r < 0.8: out.append(rng.choice(STRINGS))
            elif r < 0.9: out += ['[', multiline_quoted(rng), '|', rng.choice(VARIABLES), ']']
            else: out.append(rng.choice(VARIABLES + ATOMS + NUMERALS))
        return out + [')']
    out = goal()
    if rng.random() < 0.3:
        out.append(':-')
        for i in range(rng.choice([1, 2])):
            if i: out.append(rng.choice([',', ';', '->']))
            out += goal()
    return out + ['.']

def g_program_tokens(rng, nmax=5):
    clauses = [g_cord(rng) for _ in range(rng.choice(list(range(1, nmax + 1))))]
    return clauses

# ------------------------------------------------------------------ programs printed from random ASTs

def a_term(rng, depth):
    r = rng.random()
    if depth <= 0 or r < 0.25:
        r = rng.random()
        if r < 0.4:
            if rng.random() < 3 * _BIAS['multiline']: return ['atom', multiline_value(rng)]
            return ['atom', rng.choice(ATOMS + ["it's", 'hello world', '', 'A', '[]', 'é', 'two\nlines'])]
        if r < 0.55: return ['num', rng.choice(NUMERALS)]
        return ['var', rng.choice(['X', 'Y', 'Z', '_G1', 'Abc'])]
    if r < 0.55:
        return ['fun', rng.choice(ATOMS + ['hello world', "it's"]), [a_term(rng, depth - 1) for _ in range(rng.choice([0, 1, 2, 3]))]]
    if r < 0.62:
        return ['fun', rng.choice(BINOPS), [a_term(rng, depth - 1), a_term(rng, depth - 1)]]
    if r < 0.67:
        return ['fun', rng.choice(UNOPS), [a_term(rng, depth - 1)]]
    if r < 0.85:
        return ['list', [a_term(rng, depth - 1) for _ in range(rng.choice([0, 1, 2, 3]))]]
    items = [a_term(rng, depth - 1) for _ in range(rng.choice([1, 2, 3]))]
    t = ['var', rng.choice(['T', 'Rest', 'X'])]
    for x in reversed(items):
        t = ['pair', x, t]
    return t

def a_body(rng, depth):
    r = rng.random()
    if depth <= 0 or r < 0.3:
        r = rng.random()
        if r < 0.1: return ['true']
        if r < 0.18: return ['fail']
        if r < 0.28: return ['cut']
        if r < 0.4: return ['call', rng.choice(BINOPS), [a_term(rng, 1), a_term(rng, 1)]]
        return ['call', rng.choice(ATOMS + ['hello world']), [a_term(rng, 2) for _ in range(rng.choice([0, 1, 2]))]]
    if r < 0.4: return ['not', a_body(rng, depth - 1)]
    k = 'and' if r < 0.7 else ('if' if r < 0.8 else 'or')
    return [k, a_body(rng, depth - 1), a_body(rng, depth - 1)]

def a_program(rng):
    prog = []
    for _ in range(rng.choice([1, 2, 3, 4, 5])):
        name = rng.choice(['p', 'q', 'r', 'foo', 'bar_1', 'aB'])
        args = [a_term(rng, rng.choice([0, 1, 2, 3])) for _ in range(rng.choice([0, 1, 1, 2, 3]))]
        body = ['true'] if rng.random() < 0.35 else a_body(rng, rng.choice([0, 1, 2, 3]))
        prog.append([name, args, body])
    return prog

def group(prog):
    d = {}
    for c in prog:
        d.setdefault((c[0], len(c[1])), []).append(c)
    return [[k[0], k[1], v] for k, v in d.items()]

# ------------------------------------------------------------------ corruptions

FOREIGN = ['\xa0', '\u2028', '\x0b', '\x85', '\ufeff', '\u3000', '\u200b', 'É', 'ß', 'ａ', '１', '＿', '’', '‘', '«', '\u0301', '\U0001F600',
           '#', '"', '{', '}', '\x00', 'é', 'λ', '\U0001F600', '$', '&', '~', '^', '*', '?', '@', '`', '\\', ':', '\x0c', ' ', ' ']
INSERTABLE = ['.', ':-', '\\+', ',', '->', ';', '(', ')', '/', '|', 'true', 'fail', '!', 'X', '_', 'a', 'foo', '7', '-', '=',
              "'s'", '[', ']', ',', ',', ')', '.', '(']

_KINDS = ['delete', 'insert', 'duplicate', 'swap', 'truncate-token', 'truncate-char', 'char-delete',
          'char-replace', 'foreign', 'foreign', 'unterminated-end', 'unterminated-boundary', 'trailing',
          'trailing', 'leading', 'leading', 'comment-eof', 'no-final-dot', 'double-sep', 'slash-star',
          'insert', 'delete', 'near-quoted', 'quote-lost', 'inside-quoted', 'substitute', 'keyword']
# large texts: single edits that keep the text's shape (one token becomes a keyword / another token, one character changes)
_LARGE_KINDS = ['keyword', 'keyword', 'keyword', 'substitute', 'char-replace', 'char-delete', 'delete', 'insert', 'swap', 'foreign',
                'duplicate', 'no-final-dot', 'comment-eof', 'quote-lost', 'double-sep', 'unterminated-end']
KEYWORDS = ['true', 'fail', '!', 'true', 'fail']
_NAME = re.compile(r"[A-Za-z_][A-Za-z0-9_]*|[0-9]+|'(?:\\'|[^'])*'", re.S)
_QUOTED_KINDS = ['near-quoted', 'near-quoted', 'near-quoted', 'quote-lost', 'inside-quoted', 'inside-quoted']
_BREAK = re.compile(r'\r\n|\n\r|\r|\n')

def _pick_quoted(rng, t):
    """index of a quoted atom among the token texts, preferably one that spans lines"""
    q = [i for i, x in enumerate(t) if len(x) >= 2 and x[0] == "'"]
    ml = [i for i in q if '\n' in t[i] or '\r' in t[i]]
    if ml and (rng.random() < 0.8 or not q): return rng.choice(ml)
    return rng.choice(q) if q else None

def _edit_inside_quoted(rng, tok):
    """one edit at a line boundary inside a quoted atom (the text of the token is returned)"""
    brs = [m for m in _BREAK.finditer(tok)]
    if not brs:
        i = rng.randrange(1, len(tok))
        return tok[:i] + rng.choice(["'", '\n', "\n'", '\n%', "\n% '", "'\n"]) + tok[i:]
    m = rng.choice(brs)
    a, b = m.start(), m.end()
    nxt = _BREAK.search(tok, b)
    eol = nxt.start() if nxt else len(tok) - 1        # end of the line that starts at b (the closing quote is not part of it)
    op = rng.choice(['quote-at-line-start', 'quote-at-line-end', 'join-lines', 'drop-line', 'comment-line', 'quote-before-break',
                     'separator-at-line-start', 'dup-line'])
    if op == 'quote-at-line-start': return tok[:b] + "'" + tok[b:]
    if op == 'quote-at-line-end': return tok[:eol] + "'" + tok[eol:]
    if op == 'join-lines': return tok[:a] + rng.choice(['', ' ']) + tok[b:]
    if op == 'drop-line': return tok[:b] + tok[eol:]
    if op == 'comment-line': return tok[:b] + rng.choice(['%', '% ', ' %']) + tok[b:]
    if op == 'quote-before-break': return tok[:a] + "'" + tok[a:]
    if op == 'separator-at-line-start': return tok[:b] + rng.choice(["',", "')", "').", "' ,", "', '"]) + tok[b:]
    return tok[:eol] + tok[a:eol] + tok[eol:]

def corruptions(rng, clauses, n, kinds=_KINDS):
    """n corrupted variants of a program given as a list of clauses (lists of token texts)."""
    toks = [t for c in clauses for t in c]
    out = []
    base = ' '.join(toks)
    for _ in range(n):
        k = rng.choice(kinds)
        t = list(toks)
        src = None
        qi = _pick_quoted(rng, t) if k in ('near-quoted', 'quote-lost', 'inside-quoted') else None
        if k in ('near-quoted', 'quote-lost', 'inside-quoted') and qi is None:
            k = rng.choice(['insert', 'delete', 'duplicate', 'foreign'])
        if k == 'near-quoted':
            # the same single edits, applied directly before / after a quoted atom (on the line of its opening / closing quote)
            op = rng.choice(['insert-after', 'insert-after', 'insert-before', 'dup-next', 'dup-prev', 'del-next', 'del-prev', 'dup-self',
                             'foreign-after', 'foreign-before', 'swap-next'])
            if op == 'insert-after': t.insert(qi + 1, rng.choice(INSERTABLE))
            elif op == 'insert-before': t.insert(qi, rng.choice(INSERTABLE))
            elif op == 'dup-next' and qi + 1 < len(t): t.insert(qi + 1, t[qi + 1])
            elif op == 'dup-prev' and qi > 0: t.insert(qi, t[qi - 1])
            elif op == 'del-next' and qi + 1 < len(t): del t[qi + 1]
            elif op == 'del-prev' and qi > 0: del t[qi - 1]
            elif op == 'swap-next' and qi + 1 < len(t): t[qi], t[qi + 1] = t[qi + 1], t[qi]
            elif op == 'foreign-after': t[qi] = t[qi] + rng.choice(['', ' ']) + rng.choice(FOREIGN)
            elif op == 'foreign-before': t[qi] = rng.choice(FOREIGN) + rng.choice(['', ' ']) + t[qi]
            else: t.insert(qi, t[qi])
        elif k == 'quote-lost':
            t[qi] = t[qi][1:] if rng.random() < 0.5 else t[qi][:-1]
        elif k == 'inside-quoted':
            t[qi] = _edit_inside_quoted(rng, t[qi])
        elif k == 'keyword':
            # one name (atom, variable, numeral, quoted atom: functor, argument, goal) becomes a reserved word of the grammar
            idx = [i for i, x in enumerate(t) if _NAME.fullmatch(x) and x not in ('true', 'fail')]
            if idx:
                t[rng.choice(idx)] = rng.choice(KEYWORDS)
        elif k == 'substitute':
            # one token is replaced by another token
            i = rng.randrange(len(t)); t[i] = rng.choice([x for x in INSERTABLE if x != t[i]])
        elif k == 'delete' and len(t) > 1:
            del t[rng.randrange(len(t))]
        elif k == 'insert':
            t.insert(rng.randrange(len(t) + 1), rng.choice(INSERTABLE))
        elif k == 'duplicate':
            i = rng.randrange(len(t)); t.insert(i, t[i])
        elif k == 'swap' and len(t) > 1:
            i = rng.randrange(len(t) - 1); t[i], t[i + 1] = t[i + 1], t[i]
        elif k == 'truncate-token':
            t = t[:rng.randrange(len(t))]
        elif k == 'truncate-char':
            src = base[:rng.randrange(len(base))]
        elif k == 'char-delete':
            i = rng.randrange(len(base)); src = base[:i] + base[i + 1:]
        elif k == 'char-replace':
            i = rng.randrange(len(base)); src = base[:i] + rng.choice(list(".,()'|[]:-;\\% aX_1") + FOREIGN) + base[i + 1:]
        elif k == 'foreign':
            i = rng.randrange(len(base) + 1); src = base[:i] + (rng.choice(FOREIGN) if rng.random() < 0.7 else rnd_cp(rng)) + base[i:]
        elif k == 'unterminated-end':
            src = base + rng.choice([" 'unterminated", " foo('abc", "'", " 'it\\'", "\n'x\n"])
        elif k == 'unterminated-boundary':
            i = rng.randrange(len(clauses))
            pre = [x for c in clauses[:i] for x in c]; post = [x for c in clauses[i:] for x in c]
            src = ' '.join(pre) + rng.choice([" '", " 'oops ", " foo('a "]) + ' '.join(post)
        elif k == 'trailing':
            src = base + rng.choice([' )', ' garbage', ' foo(', ' :-', ' .', ' ,', ' ) garbage', ' X', ' ]', ' foo', ' p :- q', ' 1', ' |',
                                     ' p(a)', '\n\n)', ' % c\n )', ' ;', ' ->', " 'q'", ' p. )', ' !', ' true'])
        elif k == 'leading':
            src = rng.choice([') ', ', ', '. ', '| ', '] ', '; ', '-> ', '/ ', 'garbage ', '= ', '( ', '\\+ ', ':- . ', '.', ')']) + base
        elif k == 'comment-eof':
            src = base + rng.choice([' % no line break', '%', ' % p(a).'])
        elif k == 'no-final-dot' and t and t[-1] == '.':
            t = t[:-1]
        elif k == 'double-sep':
            idx = [i for i, x in enumerate(t) if x in (',', ';', '->', ':-', '.', '|')]
            if idx:
                i = rng.choice(idx); t.insert(i, t[i])
        elif k == 'slash-star':
            i = rng.randrange(len(t) + 1); t.insert(i, '/* c */')
        noop = src is None and t == toks
        if src is None:
            # token-level edits: mostly one line with single blanks (everything that follows a quoted atom's closing quote is
            # then on the line of that quote), otherwise the random layout with line breaks and comments
            src = ' '.join(t) if rng.random() < 0.7 else render(t, rng, 2)
        case = {'src': src, 'kind': k, 'base_clauses': len(clauses)}
        sure = k in ('trailing', 'unterminated-end', 'comment-eof', 'no-final-dot') or \
            (k == 'leading' and not src.startswith(('garbage', '=', '(')))   # `garbage ((c)) :- ...` can be a clause
        if src != base and not noop and (sure or tokenize(src) is None):
            case['must_reject'] = True       # not a sentence by construction (or not even lexable)
        out.append(case)
    return out

# ------------------------------------------------------------------ size classes: texts of 8-40 kB made of many small clauses

FACT_NAMES = ['edge', 'setting', 'row', 'item', 'n', 'color_of', 'kv', 'aB', 'x1', 'p', 'q']
_FACT_QUOTED = ["'hello world'", "'A'", "'éß'", "'true'", "'fail'", "''", "'a.b'", "'%not a comment'", "'[]'", "'1'", "'_x'", "'x, y'", "'two\nlines'"]

def g_fact(rng, k):
    """a ground fact with atomic arguments (unquoted atoms, numerals, quoted atoms without backslash)"""
    out = [rng.choice(FACT_NAMES), '(']
    for i in range(rng.choice([1, 2, 2, 3, 3, 4])):
        if i: out.append(',')
        r = rng.random()
        if r < 0.35: out.append('n%d' % (k + i))
        elif r < 0.6: out.append(str(rng.choice([k, i, 0, 7, 42, 1000 + k])))
        elif r < 0.8: out.append(rng.choice(ATOMS + ['verbose', 'on', 'off', 'red', 'trueish', 'failx', 'truE', 'fail_']))
        else: out.append(rng.choice(_FACT_QUOTED))
    return out + [')', '.']

_CLAUSE_ENDS = ['\n', '\n', '\n', '\n', '   % arc\n', '\r\n', ' ', '\n\n', '\t% c, d. )\n', " % it's\n", '\n  ']

def g_large(rng, style, target):
    """(text, clauses as token lists) of at least `target` characters.  Styles: `facts` - nothing but ground facts with atomic
    arguments (tables written by other tools); `facts+` - such a table with a few other clauses in it (variables, lists,
    zero-arity facts, rules); `clauses` - small clauses printed from random ASTs, many clauses per predicate."""
    clauses, parts, size, k = [], [], 0, 0
    while size < target:
        k += 1
        if style == 'facts' or (style == 'facts+' and rng.random() < 0.97):
            c = g_fact(rng, k)
        elif style == 'facts+':
            c = rng.choice([['on'], ['p', '(', 'X', ',', 'X', ')'], ['row', '(', '[', 'a', ',', 'b', ']', ')'], ['p', '(', '-', '1', ')'],
                            ['q', '(', 'f', '(', 'a', ')', ')'], ['p', '(', 'X', ')', ':-', 'q', '(', 'X', ')'], ['p', ':-', 'true'],
                            ['p', '(', "'it\\'s'", ')'], [':-', 'init']]) + ['.']
        else:
            try:
                c = tokenize(ast_io.clause_text(rng.choice(a_program(rng))))
            except (AssertionError, ValueError):
                c = None
            if c is None:
                continue
        t = render(c, rng, rng.choice([0, 0, 1])) + rng.choice(_CLAUSE_ENDS)
        clauses.append(c); parts.append(t); size += min(len(t), len(' '.join(c)) + 1)      # this text and its single-blank rendering are at least `target` long
    head = rng.choice(['', '', '% generated table\n', '\n'])
    return head + ''.join(parts), clauses

def gen_large(rng, tier, i):
    """one valid large text and single-edit corruptions of it"""
    sizes = [8200, 8500, 9000, 10000] if tier == 'quick' else [8200, 9000, 12000, 16400, 20000, 25000, 32800, 40000]
    style = ['facts', 'clauses', 'facts', 'facts+'][i % 4]
    target = rng.choice(sizes if style != 'clauses' else sizes[:3 if tier == 'quick' else 5])
    text, clauses = g_large(rng, style, target)
    out = [{'src': text, 'kind': 'large-' + style, 'base_clauses': len(clauses), 'large': True}]
    # always one name -> reserved word, then 1 (thorough: 3) edits drawn from the kinds for large texts
    for c in corruptions(rng, clauses, 1, ['keyword']) + corruptions(rng, clauses, 1 if tier == 'quick' else 3, _LARGE_KINDS):
        c['kind'] = 'large-' + style + ':' + c['kind']
        c['large'] = True
        out.append(c)
    return out

# ------------------------------------------------------------------ sequences of sources: each text alone, and the command line on all

def gen_multi(rng):
    """2-3 source texts for ONE run of the command line: a sentence cut into pieces (every piece ends inside a construct that the
    next piece would complete), open-ended texts followed by their completion, valid and corrupted texts mixed"""
    r = rng.random()
    clauses = g_program_tokens(rng, 3)
    base = render([t for c in clauses for t in c], rng, rng.choice([0, 2, 2]))
    if r < 0.45 and len(base) > 1:
        files, how = split_text(rng, base)
        how = 'split:' + '+'.join(how)
    elif r < 0.8:
        more = render([t for c in g_program_tokens(rng, 2) for t in c], rng, rng.choice([0, 2])) + rng.choice(['\n', ''])
        a, b = open_ended_sources(rng, base if rng.random() < 0.7 else '', more if rng.random() < 0.7 else '')
        files, how = [a, b], 'open-end'
        if rng.random() < 0.3:
            files.insert(rng.choice([0, 2]), more)
    else:
        files = [base]
        for _ in range(rng.choice([1, 2])):
            c2 = g_program_tokens(rng, 2)
            files.append(corruptions(rng, c2, 1)[0]['src'] if rng.random() < 0.5 else render([t for c in c2 for t in c], rng, 2))
        rng.shuffle(files)
        how = 'mixed'
    return {'kind': 'multi', 'how': how, 'files': files, 'src': ''.join(files), 'base_clauses': len(clauses)}

# ------------------------------------------------------------------ cases

def gen(rng, tier):
    cases = _gen_small(rng, tier)
    # the large texts and the source sequences are spread evenly over the run (every worker / every coqc file gets its share)
    nlarge, nmulti = (3, 60) if tier == 'quick' else (12, 800)
    extra = []
    for i in range(nlarge):
        extra.extend(gen_large(rng, tier, i))
    multi = [gen_multi(rng) for _ in range(nmulti)]
    step = max(1, len(cases) // (len(extra) + 1))
    out = []
    mi = 0
    per = (len(multi) + len(cases) - 1) // max(1, len(cases))
    for j, c in enumerate(cases):
        if j % step == step // 2 and extra:
            out.append(extra.pop())
        out.append(c)
        if j * len(multi) // len(cases) >= mi and mi < len(multi):
            out.append(multi[mi]); mi += 1
    return out + extra + multi[mi:]

def _gen_small(rng, tier):
    n = 260 if tier == 'quick' else 4000
    cases = []
    for i in range(n):
        kinds = _KINDS
        if i % 3 == 2:
            prog = a_program(rng)
            try:
                text = ast_io.program_text(prog)
            except (AssertionError, ValueError):
                continue
            clauses_txt = [ast_io.clause_text(c) for c in prog]
            tl = [tokenize(c) for c in clauses_txt]
            if any(t is None for t in tl):
                continue
            expect = number_anon(prog)
            cases.append({'src': text, 'kind': 'valid-ast', 'expect_ast': group(expect), 'base_clauses': len(prog)})
            cases.append({'src': render([t for c in tl for t in c], rng, 2), 'kind': 'valid-ast-spaced', 'expect_ast': group(expect), 'base_clauses': len(prog)})
            clauses = tl
        elif i % 6 == 1:
            # programs in which many atoms are quoted atoms that span lines, and corruptions placed at / inside those atoms
            _BIAS['multiline'] = 0.4
            try:
                clauses = g_program_tokens(rng, 3)
            finally:
                _BIAS['multiline'] = _MULTILINE_DEFAULT
            if i % 12 == 1:
                clauses = [g_text_clause(rng) if rng.random() < 0.7 else c for c in clauses]
            toks = [t for c in clauses for t in c]
            cases.append({'src': render(toks, rng, rng.choice([0, 1, 2, 2])), 'kind': 'grammar', 'base_clauses': len(clauses)})
            kinds = _QUOTED_KINDS * 3 + _KINDS
        else:
            clauses = g_program_tokens(rng)
            toks = [t for c in clauses for t in c]
            cases.append({'src': render(toks, rng, rng.choice([0, 1, 2, 2])), 'kind': 'grammar', 'base_clauses': len(clauses)})
        cases.extend(corruptions(rng, clauses, 3 if tier == 'quick' else 4, kinds))
    return cases

def number_anon(prog):
    return prog     # the AST generator uses no anonymous variables

def builtin_corpus():
    srcs = [
        "a(X) :- b(X),, c(X).\n", "foo(a). ) garbage\n", "foo(a). 'unterminated \n", "foo(a).\nbar(b)\n", "foo(a). bar(b",
        "p :- \\+ a, b.", "p :- (a), b.", "p :- (a = b).", "p :- (X).", "p([a,|T]).", "p(foo()).", "p([]).", "p :- a, b -> c ; d.",
        "p(- a = b).", "p(a = b = c).", "p :- true.", "p(true).", "true.", "p('a\\' b'). q('c').", "p('a\\'). q(c).",
        "p('a\\\\'). q('c').", "p. % c", "p. % c\n", "p(-1).", "p(- - 1).", "p(a/1).", "p(1(a)).", "'hello'(a).",
        "p(_,_). :- q(_). r(_).", "p(=(a,b)).", "p :- =(a,b).", "p(X) :- X.", "p :- 1.", "3.", "p(é).", "p('é\U0001F600').",
        "p :- ((a)).", "p :- ((a), b).", "p :- (a) = b.", "p :- (a ; b) = c.", "foo (a).", "p :- \\+ \\+ a.", "p :- \\+ (a, b) ; c.",
        "p(_x, _).", "p(trueish, true_, failx).", "p :- a , , b.", "p :- a -> b -> c.", "p :- a ; b ; c.", "p(X/2).", "p([a|b]).",
        ":- q(a/1).", ":- a/1.", ":- 1(a).", "1(a).", "p :- 1(a).", "p :- q(1(a)).", ":- X.", ":- true.", "!.", "fail.",
        "foo().", "'a b'.", "p :- 'a b'.", "- a.", "a = b.", ":- [].", ":- q([a/1|T]).", "p:- x, :- y.", "P.", "_.", "''.", "'1'.",
        "", " ", "\n", "% only a comment\n", "%", ".", ":-", "p", "p.", "p..", "p. .", "p :- .", ":- .", "p :- q :- r.",
        "p(a)(b).", "p(a) (b).", "p((a,b)).", "p(a;b).", "p :- [a|T] = X.", "p :- X = [a|T], \\+ X == Y.", "p:-q.r:-s.",
        "p(a).q(b).", "p(1.5).", "p(1 . 5).", "p(a):-q(b);r(c)->s;t.", "p :- (a,b;c->d).", "p :- (((a,b))).", "p :- ((a,b)) = c.",
        "p(\"dq\").", "p(#).", "p({a}).", "p(a) :- b\x00.", "p('a\x00b').", "p(a). ﻿", "﻿p(a).", "p(a).\x0c", "p('tab\there').",
        "p(a):-\\+b.", "p(a):- \\ + b.", "p :- a - > b.", "p :- a = = b.", "p :- a == b.", "p :- a =< b, c >= d, e \\== f.",
        "p :- a => b.", "p :- a =\\= b.", "p(A,B) :- A<B.", "p(A,B) :- A<-B.", "p(A) :- A=-1.", "p(A) :- A=\\+b.",
        "p(a|b).", "p([a|T|U]).", "p([|T]).", "p([a,b|]).", "p([a|T]).", "p([a|[b]]).", "p([a|_]).", "p([a,b,|T]).", "p([,a]).",
        "p :- !, q ; r.", "p :- !.", "p :- fail ; true.", "p(fail).", "p :- failx.", "p :- true_x.", "true_x.", "p :- truely, failing.",
        "x :- 'it\\'s'('a\\'b').", "p('').", "p('\\'').", "p(''').", "p('a''b').", "p('\\\\').", "p('a\nb').", "p('%').", "p('a' 'b').",
        "p(a). % c1\n% c2\nq(b). % c3\n", "p(a). %\nq(b).", "p(a). % c1\r q(b).", "p(a). % c1\r\nq(b).\r\n", "p(%c\na).", "p('%c\na').",
        "p :- q, % c\n r.", "p(007).",
        # a compound term / goal named by a numeral is refused only where the compiler reaches it (dead code after fail is dropped)
        "p:-fail,failx,failx(c),42(),!.failx.", "p :- fail, q(1(a)).", "p :- fail, 1(a).", "p :- (a -> fail), 1(a).", "p :- (fail ; a), 1(a).",
        "p :- \\+ fail, 1(a).", "p :- fail ; 1(a).", "p :- (fail, 1(a)) ; b.", "p :- fail, X = 1(a).", "p :- fail, a/1.", "p :- fail, q(a/1).",
        "p(1(a)) :- fail.", "p :- fail, (1(a) -> b ; c).", "p :- a, fail, 1(b).", "p :- !, fail, 1(b).", "p :- (a, fail), 1(b).",
        "p :- fail -> 1(a) ; b.", "p :- (fail -> a ; b), 1(a).", "p :- fail, 1.", "p :- fail, X.", "p :- fail, q(1(a/2)).", "p :- fail, 007(_).",
        "p :- fail, q(_, 1(_)). r(_).", "p :- true, 1(a).", "p :- fail, fail, 1(a).", "p :- (fail, a ; fail, 2(b)), c.", "p(0). p(00).", "p(1a).", "p(1A).", "p(1_).", "p(a1B_2).", "p(_1).", "p(__).", "p(_a_).",
        # quoted atoms that span lines: inside the quotes a % at the start of a line, a full stop, clause text are atom text, and
        # what follows the closing quote on the same line counts
        "p('a\n% b').", "p('a\n% b', 'c\nd').", "p('a\n% b', , 'c\nd').", "p('a\n% b') , 'c\nd').", "p('a\n% b', c\nd').",
        "p('a\n% b' # , 'c\nd').", "p('a\n%'). q('b').", "p('a\n%' q('b\n').", "p('a\n  % b') :- q. % c\n", "p('\n%\n').", "p('a\r% b').",
        "p('a\r\n% b\r\n').", "p('a\n% b\n', 'c').\n% d\nq.", "p('a\n:- b.\n').", "p('a\n').\n%').\n", "p('a\n% \\' b').", "p('a\n% \\').  q('b').",
        "p('a \n').", "p('a\t\n b').", "% 'a\np('b\n% c').", "% it's\np. % 'x\nq('\n% y').",
    ]
    L = [{'src': s, 'kind': 'corpus', 'base_clauses': 1} for s in srcs]
    # source sequences: every open end, followed by the text that would complete it (bare, and between other clauses)
    from props.cli_gen import OPEN_ENDS
    for i, (a, b) in enumerate(OPEN_ENDS):
        files = [a, b] if i % 2 else ['k(0).\n' + a, b + 'z(9).\n']
        L.append({'kind': 'multi', 'how': 'open-end', 'files': files, 'src': ''.join(files), 'base_clauses': 2})
    L.append({'kind': 'multi', 'how': 'mixed', 'files': ['p(a).\n', '', 'q(b).'], 'src': 'p(a).\nq(b).', 'base_clauses': 2})
    L.append({'kind': 'multi', 'how': 'mixed', 'files': ['p(a).\n', 'q(b)', 'r(c).\n'], 'src': 'p(a).\nq(b)r(c).\n', 'base_clauses': 3})
    return L

def model_expr(case):
    # token stream and front end (Lang/Front.v); verdict and emitted text of the whole pipeline (Comp/RunCompile.v: compile_text =
    # front, compile_program, the compiler's own refusals, emit_program with the model of repr(), CPython's size limits)
    from lib.pyrepr_check import cps, g_cps, printable_table
    if case['kind'] == 'multi':
        # every source text alone through the whole pipeline model
        return '(OL [%s])' % '; '.join(E.model_text_expr(t) for t in case['files'])
    if case.get('large'):
        # large texts: the whole pipeline model only (its front end is `front`; the token stream is not printed)
        return '(OL [%s])' % E.model_text_expr(case['src'])
    c = cps(case['src'])
    tbl = '; '.join('%d%%N' % x for x in printable_table(c))
    return '(let s0 := %s in OL [run_lex s0; run_front s0; run_compile_text [%s] s0])' % (g_cps(c), tbl)

# ------------------------------------------------------------------ implementation

def _exc(e):
    return ['raised', type(e).__name__]

def _scratch_dir():
    import os
    d = os.path.join(os.path.dirname(os.path.dirname(os.path.dirname(os.path.abspath(__file__)))), '.work', 'c10files')
    os.makedirs(d, exist_ok=True)
    return d

def _impl_multi(case):
    """every text alone through the library; then ONE run of the command line on all of them (to stdout and with -o)"""
    import os, click.testing
    from yldprolog import compiler as C
    out = {'files': []}
    for t in case['files']:
        iv, text, cls = E.compile_verdict(t)
        if iv == 'resource':
            raise RecursionError()
        out['files'].append([iv, text if iv == 'text' else cls])
    d = _scratch_dir()
    paths = []
    try:
        for i, t in enumerate(case['files']):
            path = os.path.join(d, 'multi-%d-%d.pl' % (os.getpid(), i))
            with open(path, 'wb') as f:
                f.write(t.encode('utf-8'))
            paths.append(path)
        res = click.testing.CliRunner().invoke(C.main, paths)
        out['cli'] = [res.exit_code, res.stdout]
        opath = os.path.join(d, 'multi-%d-out.py' % os.getpid())
        res = click.testing.CliRunner().invoke(C.main, ['-o', opath] + paths)
        try:
            with open(opath, 'rb') as f:
                out['cli_o'] = [res.exit_code, f.read().decode('utf-8')]
            os.unlink(opath)
        except OSError:
            out['cli_o'] = [res.exit_code, None]
    except UnicodeEncodeError:
        out['cli'] = out['cli_o'] = None
    finally:
        for path in paths:
            try: os.unlink(path)
            except OSError: pass
    return out

def _expected_run(verdicts):
    """(exit status is 0, output) of a run over sources with these [verdict, text] pairs: the texts of the sources before the
    first one that is refused"""
    texts = []
    for v, t in verdicts:
        if v != 'text':
            return False, ''.join(texts)
        texts.append(t)
    return True, ''.join(texts)

def _judge_run(verdicts, io, who):
    ok, want = _expected_run(verdicts)
    for key, what in (('cli', 'to stdout'), ('cli_o', 'with -o')):
        if io.get(key) is None:
            continue
        code, text = io[key]
        if ok and code != 0:
            return 'the command line (%s) exits with %r although %s accepts every source alone' % (what, code, who)
        if not ok and code == 0:
            return 'the command line (%s) exits with 0 although %s refuses source %d (of %d) alone' % (
                what, who, [v for v, _ in verdicts].index(next(v for v, _ in verdicts if v != 'text')) + 1, len(verdicts))
        if text != want:
            return 'the output of the command line (%s) is not the concatenation of the texts that %s gives for the sources %s' % (
                what, who, 'alone' if ok else 'before the refused one')
    return None

def impl(case):
    if case['kind'] == 'multi':
        return _impl_multi(case)
    import antlr4
    from yldprolog import compiler as C
    from yldprolog.prologLexer import prologLexer
    src = case['src']
    out = {}
    try:
        lexer = prologLexer(antlr4.InputStream(src))
        lexer.removeErrorListeners(); lexer.addErrorListener(C._RaisingErrorListener(''))
        toks = []
        while True:
            t = lexer.nextToken()
            if t.type == antlr4.Token.EOF:
                break
            toks.append([t.type, t.text])
        out['tokens'] = ['ok', toks]
    except RecursionError:
        raise
    except Exception as e:
        out['tokens'] = _exc(e)
    # what the pipeline behind compile_prolog_from_string really works on is recorded while it runs: the token stream its parser
    # reads and the AST it hands to the code generator (the classes are looked up in the compiler module's globals at call time)
    seen = {}
    saved = {}
    try:
        class _Stream(C.CommonTokenStream):
            def __init__(self, *a, **k):
                super().__init__(*a, **k); seen['stream'] = self
        class _Compiler(C.YPPrologCompiler):
            def compile_program(self, program):
                try:        # read before the code generator touches it
                    seen['ast'] = [[k[0], k[1], [ast_io.read_clause(c) for c in cl]] for k, cl in program.items()]
                except Exception as e:
                    seen['ast_error'] = type(e).__name__
                return super().compile_program(program)
        saved = {'CommonTokenStream': C.CommonTokenStream, 'YPPrologCompiler': C.YPPrologCompiler}
        C.CommonTokenStream, C.YPPrologCompiler = _Stream, _Compiler
    except Exception:
        saved = {}
    try:
        code = C.compile_prolog_from_string(src)
        out['compile'] = ['ok', sorted(set(re.findall(r'^def (\w+)\(', code, re.M))), code]
        out['verdict'] = 'text'
        if 'stream' in seen:
            out['pipe_tokens'] = [[t.type, t.text] for t in seen['stream'].tokens if t.type != antlr4.Token.EOF]
        if 'ast' in seen:
            out['pipe_ast'] = seen['ast']
    except RecursionError:
        raise
    except Exception as e:
        out['compile'] = _exc(e) + ['too large' in str(e)]
        cls, msg = type(e).__name__, str(e)
        out['verdict'] = ('too-large' if cls == 'CompilerError' and 'program too large for Python' in msg else
                          'reject-numeral' if cls == 'ValueError' and 'integer string conversion' in msg else 'reject-front')
    finally:
        for k, v in saved.items():
            setattr(C, k, v)
    # the other public entry points of the same pipeline: compile_prolog_from_file and the command line (yldpc)
    try:
        import os, click.testing
        d = os.path.join(os.path.dirname(os.path.dirname(os.path.dirname(os.path.abspath(__file__)))), '.work', 'c10files')
        os.makedirs(d, exist_ok=True)
        path = os.path.join(d, 'case-%d.pl' % os.getpid())
        with open(path, 'wb') as f:
            f.write(src.encode('utf-8'))
        try:
            out['file'] = ['ok', C.compile_prolog_from_file(path)]
        except RecursionError:
            raise
        except Exception as e:
            out['file'] = _exc(e)
        res = click.testing.CliRunner().invoke(C.main, [path])
        out['cli'] = [res.exit_code, res.output if res.exit_code == 0 else ('def ' in (res.output or ''))]
        os.unlink(path)
    except RecursionError:
        raise
    except UnicodeEncodeError:
        out['file'] = out['cli'] = None
    try:
        out['ast'] = ['ok', ast_io.impl_parse(src)]
    except RecursionError:
        raise
    except Exception as e:
        out['ast'] = _exc(e)
    # keep the observation small: what the pipeline worked on is stored only where it differs from the lexer / front end run alone
    if out.get('pipe_tokens') is not None and out['tokens'] == ['ok', out['pipe_tokens']]:
        out['pipe_tokens'] = 'same'
    if out.get('pipe_ast') is not None and out['ast'] == ['ok', out['pipe_ast']]:
        out['pipe_ast'] = 'same'
    return out

def allow_harness_raise(case, io):
    return io[1] == 'RecursionError'

def _accepted(io):
    return io['compile'][0] == 'ok'

def compare(case, io, mo):
    if not isinstance(io, dict):
        return None
    if case['kind'] == 'multi':
        mv = []
        for i, (t, (iv, itext)) in enumerate(zip(case['files'], io['files'])):
            r = E.compare_verdicts(t, iv, itext if iv == 'text' else None, mo[i])
            if r:
                return 'source %d alone: %s' % (i + 1, r)
            v, mt = E.model_verdict(mo[i])
            mv.append([v, mt])
        return _judge_run(mv, io, 'the model')
    if case.get('large'):
        r = E.compare_verdicts(case['src'], io['verdict'], io['compile'][2] if _accepted(io) else None, mo[0])
        if r:
            return 'whole pipeline: ' + r
        if _accepted(io):
            _STATS['text_compared'] += 1
        return None
    mlex, mfront, mtext = mo
    if case['kind'] in ('grammar', 'valid-ast', 'valid-ast-spaced') and mfront[0] in ('lex-error', 'parse-error'):
        return 'tie: the model refuses a sentence derived from the grammar (%s)' % mfront[0]
    # token streams
    if mlex[0] == 'lex-error':
        if io['tokens'][0] == 'ok':
            return 'the lexer model rejects this text, the implementation lexes it'
    else:
        if io['tokens'][0] != 'ok':
            return 'tie: the implementation lexer refuses a text that the lexer model accepts'
        if io['tokens'][1] != mlex[1]:
            return 'token streams differ'
    # accept / reject
    if mfront[0] != 'ok':
        if _accepted(io):
            return 'the model refuses this text (%s) but compile_prolog_from_string returns code' % mfront[0]
        if mfront[0] in ('lex-error', 'parse-error') and io['ast'][0] == 'ok':
            return 'the model refuses this text (%s) but the implementation front end builds an AST' % mfront[0]
        if mfront[0] in ('lex-error', 'parse-error') and io['compile'][1] != 'CompilerSyntaxError':
            return 'tie: a text outside the grammar (%s) is refused with %s instead of CompilerSyntaxError' % (mfront[0], io['compile'][1])
        if mfront[0] == 'refused' and io['ast'] == ['raised', 'CompilerSyntaxError']:
            return 'tie: the implementation reports a syntax error for a sentence of the grammar (which the visitor refuses)'
        if mtext[0] != 'reject-front':
            return 'tie: the front end model refuses the text, the pipeline model does not (%s)' % mtext[0]
        return None
    prog = group(mfront[1])
    if io['ast'][0] != 'ok':
        return 'tie: the model front end has an AST for this text, the implementation front end raises %s' % io['ast'][1]
    if io['ast'][1] != prog:
        return 'the AST built by the implementation differs from the model AST (clauses omitted, altered or reordered)'
    # the whole pipeline (Comp/CompileText.compile_text): verdict -- text / refused by the compiler itself (a compound term named
    # by a numeral that the compiler reaches; a numeral beyond int()'s limit) / too large for CPython -- and, when text is
    # returned, the text itself, byte for byte: every clause of the source, in order, nothing else
    r = E.compare_verdicts(case['src'], io['verdict'], io['compile'][2] if _accepted(io) else None, mtext)
    if r:
        return 'whole pipeline: ' + r
    if _accepted(io):
        _STATS['text_compared'] += 1
        want = sorted({'%s_%d' % (g[0], g[1]) for g in prog})
        if io['compile'][1] != want:
            return 'the compiled code defines %r, the model program has the predicates %r' % (io['compile'][1], want)
    return None

_STATS = {'text_compared': 0}

def _plain(st):
    return all(32 <= ord(ch) < 127 and ch not in "'\\" for ch in st)

def _repr_simple(prog):
    def term(t):
        k = t[0]
        if k in ('atom',): return _plain(t[1])
        if k in ('num', 'var'): return True
        if k == 'fun': return _plain(t[1]) and all(term(a) for a in t[2])
        if k == 'list': return all(term(a) for a in t[1])
        if k == 'pair': return term(t[1]) and term(t[2])
        return False
    def body(b):
        k = b[0]
        if k == 'call': return _plain(b[1]) and all(term(a) for a in b[2])
        if k in ('and', 'or', 'if'): return body(b[1]) and body(b[2])
        if k == 'not': return body(b[1])
        return True
    return all(_plain(c[0]) and all(term(a) for a in c[1]) and body(c[2]) for c in prog)

def oracle(case, io):
    """conditions that need no model"""
    if not isinstance(io, dict):
        return None
    if case['kind'] == 'multi':
        # the run accepts iff every source is accepted alone; its output is the concatenation of their texts
        return _judge_run(io['files'], io, 'the library')
    if _accepted(io):
        if io['ast'][0] != 'ok':
            return 'compile_prolog_from_string returns code for a text for which the front end (lexer, parser with end-of-input test, visitor) raises %s' % io['ast'][1]
        if io['tokens'][0] != 'ok':
            return 'compile_prolog_from_string returns code for a text that the lexer refuses'
        want = sorted({'%s_%d' % (g[0], g[1]) for g in io['ast'][1]})
        if io['compile'][1] != want:
            return 'compiled code defines %r but the text has clauses for %r' % (io['compile'][1], want)
        # the accepted text is compiled as it stands: the tokens the pipeline's parser read are the tokens of the text, the
        # program handed to the code generator is the front end's AST of the text
        if io.get('pipe_tokens', 'same') != 'same':
            return 'compile_prolog_from_string returns code, but its parser read a token stream that is not the token stream of the text'
        if io.get('pipe_ast', 'same') != 'same':
            return 'compile_prolog_from_string returns code for a program that is not the AST of the text (clauses omitted or altered)'
    # one pipeline behind every entry point: same verdict, same text; a refused text leaves no compiled output at all
    if io.get('file') is not None:
        if _accepted(io):
            if io['file'] != ['ok', io['compile'][2]]:
                return 'compile_prolog_from_file disagrees with compile_prolog_from_string on an accepted text: %r' % (io['file'][:2],)
            if io['cli'] != [0, io['compile'][2]]:
                return 'the command line compiler does not print the library\'s text for an accepted text (exit code %r)' % (io['cli'][0],)
        else:
            if io['file'][0] == 'ok':
                return 'compile_prolog_from_file returns code for a text that compile_prolog_from_string refuses (%s)' % io['compile'][1]
            if io['cli'][0] == 0 or io['cli'][1]:
                return 'the command line compiler exits with %r / emits definitions for a text that the library refuses (%s)' % (io['cli'][0], io['compile'][1])
    if 'expect_ast' in case:
        if io['ast'][0] != 'ok':
            return 'a program printed from an AST is refused (%s)' % io['ast'][1]
        if io['ast'][1] != case['expect_ast']:
            return 'a program printed from an AST is read back as a different AST'
        if not _accepted(io) and not (io['compile'][1] == 'CompilerError' and io['compile'][2]):
            return 'a program printed from an AST does not compile (%s)' % io['compile'][1]
    if case['kind'] == 'grammar' and (io['tokens'][0] != 'ok' or io['ast'] == ['raised', 'CompilerSyntaxError']):
        return 'a sentence derived from the grammar is reported as a syntax error'
    if case.get('must_reject') and _accepted(io):
        return 'a text that is not a sentence of the grammar by construction is compiled'
    return None

def nontrivial(case, io):
    if not isinstance(io, dict):
        return False
    if case['kind'] == 'multi':
        return len(case['files']) >= 2 and any(v != 'text' for v, _ in io['files'])
    if case['kind'] in ('grammar', 'valid-ast', 'valid-ast-spaced', 'corpus') or (case.get('large') and ':' not in case['kind']):
        return _accepted(io) and sum(len(g[2]) for g in io['ast'][1]) >= 2
    return case.get('base_clauses', 0) >= 2

def describe(case):
    if case['kind'] == 'multi':
        return {'sources': case['files'], 'kind': 'multi:' + case.get('how', '')}
    return {'source': case['src'], 'kind': case['kind']}

def _shrunk(case, src):
    """a smaller text is no longer what the generator promised (grammar-derived, printed from an AST, a non-sentence by
    construction): it is re-labelled, so that only the conditions that hold for ANY text are applied to it"""
    c = {k: v for k, v in case.items() if k not in ('expect_ast', 'must_reject')}
    c['src'] = src
    c['kind'] = 'shrunk'
    c['shrunk_from'] = case.get('shrunk_from', case['kind'])
    return c

def shrink(case):
    if case['kind'] == 'multi':
        fs = case['files']
        for i in range(len(fs)):
            if len(fs) > 1:
                yield dict(case, files=fs[:i] + fs[i + 1:], src=''.join(fs[:i] + fs[i + 1:]))
        for i, t in enumerate(fs):
            for cut in (t[:len(t) // 2], t[len(t) // 2:]):
                if cut != t:
                    nf = fs[:i] + [cut] + fs[i + 1:]
                    yield dict(case, files=nf, src=''.join(nf))
        return
    src = case['src']
    if case.get('large') and len(src) > 4000:
        # large texts: few, coarse candidates (a third of the lines removed); every evaluation costs seconds
        lines = src.splitlines(True)
        if len(lines) < 3:
            lines = [src[i:i + 200] for i in range(0, len(src), 200)]
        n = len(lines)
        for a, b in ((0, n // 3), (n // 3, 2 * n // 3), (2 * n // 3, n)):
            yield _shrunk(case, ''.join(lines[:a] + lines[b:]))
        return
    toks = tokenize(src, keep_skipped=True)
    if toks is None:
        # cut characters from either end
        n = len(src)
        for a, b in ((0, n // 2), (n // 2, n), (0, n // 4), (n - n // 4, n)):
            if b > a:
                c = _shrunk(case, src[:a] + src[b:])
                yield c
        for i in range(min(n, 40)):
            c = _shrunk(case, src[:i] + src[i + 1:])
            yield c
        return
    # remove whole clauses (up to a full stop), then single tokens
    cuts = [i for i, t in enumerate(toks) if t == '.']
    start = 0
    for e in cuts:
        c = _shrunk(case, ''.join(toks[:start] + toks[e + 1:]))
        yield c
        start = e + 1
    for i in range(min(len(toks), 50)):
        c = _shrunk(case, ''.join(toks[:i] + toks[i + 1:]))
        yield c

def distribution(cases, obs):
    d = {'by_kind': {}, 'accepted': 0, 'rejected_by_lexer': 0, 'rejected_by_parser': 0, 'rejected_later': 0,
         'too_large': 0, 'length_hist': {}, 'clauses_hist': {}, 'emitted_text_compared_with_model': _STATS['text_compared']}
    d['source_sequences'] = {'runs': 0, 'all_sources_accepted': 0, 'first_refused_at': {}, 'how': {}}
    d['large_texts'] = {}
    for c, o in zip(cases, obs):
        if not isinstance(o, dict):
            continue
        if c['kind'] == 'multi':
            m = d['source_sequences']
            m['runs'] += 1
            vs = [v for v, _ in o['files']]
            if all(v == 'text' for v in vs):
                m['all_sources_accepted'] += 1
            else:
                k = str(1 + [v == 'text' for v in vs].index(False))
                m['first_refused_at'][k] = m['first_refused_at'].get(k, 0) + 1
            for h in c.get('how', '').replace('split:', '').split('+'):
                m['how'][h] = m['how'].get(h, 0) + 1
            continue
        acc = _accepted(o)
        if c.get('large'):
            b = '%d-%d kB' % (len(c['src']) // 4096 * 4, len(c['src']) // 4096 * 4 + 4)
            e = d['large_texts'].setdefault(b, {'accepted': 0, 'rejected': 0})
            e['accepted' if acc else 'rejected'] += 1
        k = d['by_kind'].setdefault(c['kind'], {'accepted': 0, 'rejected': 0})
        k['accepted' if acc else 'rejected'] += 1
        if acc:
            d['accepted'] += 1
            n = sum(len(g[2]) for g in o['ast'][1])
            n = str(n) if n < 20 else '20-99' if n < 100 else '100+'
            d['clauses_hist'][n] = d['clauses_hist'].get(n, 0) + 1
        elif o['tokens'][0] != 'ok':
            d['rejected_by_lexer'] += 1
        elif o['ast'] == ['raised', 'CompilerSyntaxError']:
            d['rejected_by_parser'] += 1
        else:
            d['rejected_later'] += 1
            if o['compile'][0] != 'ok' and o['compile'][2]:
                d['too_large'] += 1
        b = str(min(len(c['src']) // 40 * 40, 400))
        d['length_hist'][b] = d['length_hist'].get(b, 0) + 1
    return d
