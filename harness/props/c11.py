"""C11 - whatever the compiler accepts loads and defines exactly the program's predicates."""
import ast as pyast
from lib import progs, ast_io
from lib.terms import g_str

ID = 'C11'
IMPORTS = ['Lang.Ast', 'Comp.RunCompile']
THEOREMS = []
RULE = ('random programs (2-5 predicates + leaf fact predicates + list-recursion templates; heads with repeated, nested and anonymous '
        'variables; bodies over calls, =, \\=, true, fail, cut, ;, ->, \\+, call/once/findall) printed to Prolog text; plus boundary forms: '
        'numeral spellings, variable names that are Python keywords/builtins/names of the generated code, bodies that can never succeed, '
        'long clauses, deep terms. Compared: emitted text equal to the Coq model\'s text (compile_program + emit_program evaluated in Coq). '
        'Oracle on the implementation alone: the text byte-compiles, is a module of FunctionDefs named exactly <name>_<arity> of the head '
        'keys in first-occurrence order, every function is a generator function, loading adds exactly those keys, every key is callable '
        'through query. Non-trivial: the program has a rule with a body goal and >= 2 head keys.')
TRUSTED_BASE = []
CASE_TIMEOUT = 20
COQ_CHUNK = 25

class Ctx:
    debug_filename = ''
    debug_parser = False
    debug_generator = False

def gen(rng, tier):
    n = 250 if tier == 'quick' else 4000
    cases = []
    for i in range(n):
        o = progs.Opts(control=rng.random() < 0.6, cut=rng.random() < 0.5, opaque_cut=rng.random() < 0.2,
                       builtins=rng.random() < 0.3, deep=rng.random() < 0.15)
        p = progs.gen_program(rng, o)
        cases.append({'kind': 'ast', 'clauses': p['clauses']})
    # clause-head names of every lexical form: quoted names that are / are not identifiers, non-ASCII
    # letters (including ones that Python's identifier normalisation (NFKC) would change), digits, spaces
    pool = ['µs', 'ﬁle', 'ª', 'x²', 'Ⅸ', 'été', '中文', 'ｆｕｌｌ', 'K', 'ſ', 'a b', '1a', 'a-b', 'A', '_a', 'a_1', 'a1_', 'Ab_c', '', 'a.b', "it's", 'a\nb',
            'def', 'None', 'True', 'x' * 300, 'é', 'e\u0301', 'ǆ', 'ﬀ', '\u00aa', 'ℌ', '𝐚', 'a\u200db', 'A\u0308']
    pool = [x.encode().decode('unicode_escape') if '\\u' in x or '\\n' in x else x for x in pool]
    for i in range(24 if tier == 'quick' else 400):
        nm = rng.choice(pool)
        if "\\" in nm:
            continue
        q = "'" + nm.replace("'", "\\'") + "'"
        form = rng.choice(["%s(a).", "%s.", "%s(X) :- q(X).\nq(1).", "p(b).\n%s(a, b).\nfile(c).\nf(d).", "%s :- true."])
        cases.append({'kind': 'text', 'source': form % q})
    return cases

def builtin_corpus():
    L = []
    def src(s): L.append({'kind': 'text', 'source': s})
    for s in ["p :- q, fail.\nq.", "p :- fail.", "foo(01).", "foo(007, 00, 0, 10).", "foo(True) :- bar(True).\nbar(1).", "p(None).",
              "p(ATOM_NIL, []).", "p(__debug__).", "p(Arg1, L1, X1, CutIf1, DoBreak, _x, _1).", "p(Query, Unify, Atom) :- Query = Unify, Atom = 1.",
              "p :- ( fail -> a ; fail ).", "p(X) :- q(X), fail.\nq(1).", "n(X) :- ( q(X) -> fail ; fail ).\nq(1).", "p :- \\+ fail.",
              "p :- !, true.", "p(X) :- ( X = 2 -> ! ).", "a.\nb.\na.", "p(X,X).", "p(X, f(X)).", "p(_, _).", "p([H|T], H, T).",
              "if(a).\nwhile(b).\ndef(c).\nclass(d).", "x :- call(y).\ny.", "p :- X = 'it''s'.".replace("''", "\\'") if False else "p :- X = a.",
              "once_1 :- true.\nt :- once_1.", "p :- ((a ; b), c ; d), e.\na. b. c. d. e."]:
        src(s)
    for n in (1, 5, 10, 15, 17, 18, 19, 20, 21, 25, 40):
        src("p :- " + ", ".join(["q"] * n) + ".\nq.")
    for n in (1, 10, 50, 80, 95, 99, 100, 101, 120, 150):
        src("p(" + "f(" * n + "a" + ")" * n + ").")
    for n in (5, 10, 15, 19, 22):
        src("p :- " + "( a -> " * n + "b" + " ; c )" * n + ".\na. b. c.")
    return L

def _case_source(case):
    if case['kind'] == 'text':
        return case['source']
    return ast_io.program_text(case['clauses'])

MODEL_NEEDS_IMPL = True

def model_expr(case, io):
    if case['kind'] != 'ast':
        # text cases: the AST is the one the implementation's own front end built (the front end
        # itself is compared with its model in C10/C16)
        if not isinstance(io, dict) or 'front_ast' not in io or 'text' not in io:
            return None
        return '(run_compile %s)' % ast_io.g_program(io['front_ast'])
    return '(run_compile %s)' % ast_io.g_program(progs.number_anons(case['clauses']))

def impl(case):
    from yldprolog import compiler, engine
    source = _case_source(case)
    out = {'source': source}
    try:
        text = compiler.compile_prolog_from_string(source, Ctx)
    except RecursionError:
        return {'source': source, 'rejected': 'RecursionError'}
    except Exception as e:
        return {'source': source, 'rejected': type(e).__name__, 'msg': str(e)[:200]}
    out['text'] = text
    # front end AST (for the structural oracle)
    try:
        groups = ast_io.impl_parse(source)
        out['keys'] = [[g[0], g[1]] for g in groups]
        out['nclauses'] = [len(g[2]) for g in groups]
        out['front_ast'] = [c for g in groups for c in g[2]]
        if case['kind'] == 'ast':
            flat = []
            want = progs.number_anons(case['clauses'])
            out['front_ast_ok'] = sorted(map(repr, [c for g in groups for c in g[2]])) == sorted(map(repr, want))
    except Exception as e:
        out['front_error'] = type(e).__name__
    # oracle on the text
    try:
        compile(text, '<emitted>', 'exec')
        out['compiles'] = True
    except Exception as e:
        out['compiles'] = False
        out['compile_error'] = '%s: %s' % (type(e).__name__, e)
        return out
    mod = pyast.parse(text)
    out['defs'] = [n.name for n in mod.body if isinstance(n, pyast.FunctionDef)]
    out['only_defs'] = all(isinstance(n, pyast.FunctionDef) for n in mod.body)
    out['arities'] = [len(n.args.args) for n in mod.body if isinstance(n, pyast.FunctionDef)]
    out['generators'] = [any(isinstance(x, (pyast.Yield, pyast.YieldFrom)) for x in pyast.walk(n)) for n in mod.body if isinstance(n, pyast.FunctionDef)]
    yp = engine.YP()
    before = set(yp.eval_context.keys())
    try:
        yp.load_script_from_string(text)
        out['loads'] = True
    except Exception as e:
        out['loads'] = False
        out['load_error'] = '%s: %s' % (type(e).__name__, e)
        return out
    out['added'] = sorted(set(yp.eval_context.keys()) - before)
    out['changed'] = sorted(k for k in before if k != '__builtins__' and yp.eval_context[k] is not None and k in out['defs'])
    callable_ = []
    for name, ar in out.get('keys', []):
        vs = [yp.variable() for _ in range(ar)]
        try:
            import itertools, sys
            q = yp.query(name, vs)
            n = 0
            for _ in q:
                n += 1
                if n >= 3:
                    break
            if hasattr(q, 'close'):
                q.close()
            callable_.append(True)
        except RecursionError:
            callable_.append(True)
        except Exception as e:
            callable_.append('%s: %s' % (type(e).__name__, str(e)[:100]))
    out['callable'] = callable_
    return out

def compare(case, io, mo):
    if 'rejected' in io:
        return None          # the compiler reported it; C10/C11's "or the compiler itself reports" (size limits are not modelled exactly)
    if mo[0] != 'text':
        return 'model compiler got stuck'
    if io['text'] != mo[1]:
        a, b = io['text'].split('\n'), mo[1].split('\n')
        for i, (x, y) in enumerate(zip(a, b)):
            if x != y:
                return 'emitted text differs from the model at line %d: impl %r, model %r' % (i + 1, x, y)
        return 'emitted text differs from the model in length: %d vs %d lines' % (len(a), len(b))
    return None

def oracle(case, io):
    if 'rejected' in io:
        if case['kind'] == 'ast' and io['rejected'] not in ('CompilerError', 'RecursionError'):
            return 'a generated (valid) program was rejected with %s %s' % (io['rejected'], io.get('msg'))
        return None
    if not io['compiles']:
        return 'accepted, but the output is not loadable Python: ' + io.get('compile_error', '')
    if 'front_error' in io:
        return 'compiler accepted but the front end raised ' + io['front_error']
    if io.get('front_ast_ok') is False:
        return 'front end AST differs from the AST the text was printed from'
    want = ['%s_%d' % (k[0], k[1]) for k in io['keys']]
    if not io['only_defs']:
        return 'the module contains statements other than function definitions'
    if io['defs'] != want:
        return 'defined functions %r, head keys %r' % (io['defs'], want)
    if io['arities'] != [k[1] for k in io['keys']]:
        return 'function arities differ from the head arities'
    if not all(io['generators']):
        return 'a defined function is not a generator function'
    if not io['loads']:
        return 'accepted, but loading raised: ' + io.get('load_error', '')
    if io['added'] != sorted(set(want) - set(io['changed'])) and sorted(io['added']) != sorted(want):
        return 'loading added keys %r, expected %r' % (io['added'], sorted(want))
    for k, c in zip(io['keys'], io['callable']):
        if c is not True:
            return 'predicate %s/%d is not callable after loading: %s' % (k[0], k[1], c)
    return None

def nontrivial(case, io):
    return 'text' in io and len(io.get('keys', [])) >= 2 and 'for l1 in query' in io['text']

def describe(case):
    return {'source': _case_source(case)}

def shrink(case):
    if case['kind'] != 'ast':
        return
    cl = case['clauses']
    for i in range(len(cl)):
        yield {'kind': 'ast', 'clauses': cl[:i] + cl[i + 1:]}
    for i, (name, args, body) in enumerate(cl):
        if body[0] in ('and', 'or', 'if'):
            for sub in (body[1], body[2]):
                yield {'kind': 'ast', 'clauses': cl[:i] + [[name, args, sub]] + cl[i + 1:]}
        elif body[0] == 'not':
            yield {'kind': 'ast', 'clauses': cl[:i] + [[name, args, body[1]]] + cl[i + 1:]}
        elif body != ['true']:
            yield {'kind': 'ast', 'clauses': cl[:i] + [[name, args, ['true']]] + cl[i + 1:]}

def distribution(cases, obs):
    d = {'accepted': 0, 'rejected': {}, 'kinds': {}, 'constructs': {}, 'nkeys': {}}
    for c, o in zip(cases, obs):
        d['kinds'][c['kind']] = d['kinds'].get(c['kind'], 0) + 1
        if isinstance(o, dict) and 'rejected' in o:
            d['rejected'][o['rejected']] = d['rejected'].get(o['rejected'], 0) + 1
        elif isinstance(o, dict):
            d['accepted'] += 1
            k = str(len(o.get('keys', [])))
            d['nkeys'][k] = d['nkeys'].get(k, 0) + 1
        if c['kind'] == 'ast':
            cs = set()
            for _, _, b in c['clauses']:
                progs.constructs(b, cs)
            for x in cs:
                d['constructs'][x] = d['constructs'].get(x, 0) + 1
    return d
