"""C11 - whatever the compiler accepts loads and defines exactly the program's predicates.

Every case is a SOURCE TEXT.  Implementation: compile_prolog_from_string(text) -> Python text or an exception.
Model (evaluated inside Coq): Comp/CompileText.v compile_text = Lang/Front.v front (lexer, parser, visitor) +
compile_program + the static size limits of Comp/Limits.v + emit_program with the full repr model -> the same
Python text, or the kind of rejection.  Compared: accepted/rejected (and why), and the text, byte for byte."""
import ast as pyast
from lib import progs, ast_io
from lib import emitcheck as E

ID = 'C11'
IMPORTS = E.IMPORTS + ['Comp.ShowIR']
THEOREMS = ['C11_compile_body_total', 'C11_compile_program_total', 'C11_compile_text_cases', 'C11_emit_defs_exact', 'C11_head_keys_spec', 'C11_def_name_determines_key', 'C11_function_frame', 'C11_toplevel_defs', 'C11_text_lines', 'C11_front_lexical', 'C11_text_lines_exact', 'C11_emit_lexemes_valid', 'C11_prefixed_variable_not_reserved', 'C11_too_large_reported', 'C11_accepted_within_limits']
RULE = ('random programs (2-5 predicates + leaf fact predicates + list-recursion templates; heads with repeated, nested and anonymous '
        'variables; bodies over calls, =, \\=, true, fail, cut, ;, ->, \\+, call/once/findall; quoted atoms with quotes, line breaks, '
        'control and non-ASCII characters) printed to Prolog text; boundary forms: numeral spellings, variable names that are Python '
        'keywords/builtins/names of the generated code, bodies that can never succeed, clause-head names of every lexical form; sources '
        'whose size is at CPython\'s limits (19/20/21 nested blocks, 199/200/201 nested brackets, 4300/4301 digits). '
        'Compared: verdict (text / reject-front / reject-numeral / too-large) and emitted text equal to the Coq model compile_text '
        '(front end + compiler + limits + emitter with repr, evaluated in Coq on the source text). '
        'Oracle on the implementation alone: the text byte-compiles, is a module of FunctionDefs named exactly <name>_<arity> of the head '
        'keys in first-occurrence order with parameters arg1..argN, every function is a generator function, loading adds exactly those '
        'keys and changes no other, every key is callable through query. Non-trivial: the program is accepted and has a rule with a body '
        'goal and >= 2 head keys, or it is rejected as too large / for a numeral by both sides.')
TRUSTED_BASE = []
CASE_TIMEOUT = 30
COQ_CHUNK = 20

# ------------------------------------------------------------------ cases

HEAD_NAMES = ['µs', 'ﬁle', 'ª', 'x²', 'Ⅸ', 'été', '中文', 'ｆｕｌｌ', 'K', 'ſ', 'a b', '1a', 'a-b', 'A', '_a', '_', '__', 'a_1', 'a1_', 'Ab_c', '', 'a.b',
              "it's", 'a\nb', 'def', 'None', 'True', 'x' * 300, 'é', 'e\u0301', 'ǆ', 'ﬀ', '\u00aa', 'ℌ', '𝐚', 'a\u200db', 'A\u0308', 'a\x00',
              'p:\n  pass\ndef q', 'query', 'atom', 'unify', 'Z9', 'a\t', ' a', 'a ', '٣', 'a٣', 'a\u0660']
HEAD_FORMS = ["%s(a).", "%s.", "%s(X) :- q(X).\nq(1).", "p(b).\n%s(a, b).\nfile(c).\nf(d).", "%s :- true.", "q :- %s.", "q(%s).", "%s(%s)."]

def gen(rng, tier):
    n = 230 if tier == 'quick' else 4000
    cases = []
    for i in range(n):
        o = progs.Opts(control=rng.random() < 0.6, cut=rng.random() < 0.5, opaque_cut=rng.random() < 0.2,
                       builtins=rng.random() < 0.3, deep=rng.random() < 0.15, exotic_atoms=rng.random() < 0.4)
        p = progs.gen_program(rng, o)
        cases.append({'kind': 'ast', 'clauses': p['clauses']})
    for i in range(40 if tier == 'quick' else 600):
        nm = rng.choice(HEAD_NAMES)
        q = E.quote_atom(nm)
        form = rng.choice(HEAD_FORMS)
        cases.append({'kind': 'text', 'source': form.replace('%s', q)})
    for i in range(40 if tier == 'quick' else 600):
        cases.append({'kind': 'text', 'source': E.gen_boundary(rng), 'boundary': True})
    for i in range(30 if tier == 'quick' else 500):
        # head names that are ASCII identifiers but for one or two characters which case mapping, Unicode normalisation or
        # Python's identifier rules relate to ASCII (classes computed from the interpreter's tables: lib/emitcheck.py)
        q = E.quote_atom(E.rnd_mixed_name(rng))
        cases.append({'kind': 'text', 'source': rng.choice(HEAD_FORMS).replace('%s', q)})
    return cases

def builtin_corpus():
    L = []
    def src(s, **kw): L.append(dict({'kind': 'text', 'source': s}, **kw))
    for s in ["p :- q, fail.\nq.", "p :- fail.", "foo(01).", "foo(007, 00, 0, 10).", "foo(True) :- bar(True).\nbar(1).", "p(None).",
              "p(ATOM_NIL, []).", "p(__debug__).", "p(Arg1, L1, X1, CutIf1, DoBreak, _x, _1).", "p(Query, Unify, Atom) :- Query = Unify, Atom = 1.",
              "p :- ( fail -> a ; fail ).", "p(X) :- q(X), fail.\nq(1).", "n(X) :- ( q(X) -> fail ; fail ).\nq(1).", "p :- \\+ fail.",
              "p :- !, true.", "p(X) :- ( X = 2 -> ! ).", "a.\nb.\na.", "p(X,X).", "p(X, f(X)).", "p(_, _).", "p([H|T], H, T).",
              "if(a).\nwhile(b).\ndef(c).\nclass(d).", "x :- call(y).\ny.", "p :- X = 'it\\'s'.", "p :- X = a.",
              "once_1 :- true.\nt :- once_1.", "p :- ((a ; b), c ; d), e.\na. b. c. d. e.",
              "", "% only a comment\n", ":- initialization(main).", "'hello world'(a).", "'a\nb'(a).", "true.", "p :- 1.", "p :- X.", "1(a).", "p(a/1).", "p :- q(a/1).",
              "p('a\nb', 'it\\'s', '\"', '\\'\"', 'é\x00\x7f\u2028').", "p :- 'hello world'(x), 'A'.", "'A'(x).", "'_'.", "a_1.\na(x).\na_1(y).", "foo_1.\nfoo(a).",
              "p(X1, x1, _) :- q(_, X1).", "p(_, _, X) :- q(_), r(_, X).", "p(V_X, V_) :- q(V_X).", "p(-1, + 2, - - a).", "p :- a = b, =(a, b), a \\== b.",
              "a :- b.\n:- c(_).\nd(_).", "p :- ( a, ! ; b ).", "p :- ( a -> b ).", "p :- \\+ \\+ a.", "p :- \\+ ( a -> b ; c ).", "p :- ( ( a -> b ; c ) -> d ; e ).",
              "p :- ( a ; b -> c ; d ), e.",
              # a compound term named by a numeral is refused only where the compiler reaches it (Comp/NumeralName.v): dead code after fail is dropped
              "p :- fail, 1(a).", "p :- (a -> fail), 1(a).", "p :- fail -> 1(a) ; b.", "p :- (fail ; a), 1(a).", "p(1(a)) :- fail.", "p :- fail, X = 1(a).", "p :- a, fail, 007(_).", "p :- \\+ fail, 1(a).", "p :- fail, q(a/1)."]:
        src(s)
    for s in E.boundary_sources():
        src(s, boundary=True)
    return L

def _case_source(case):
    if case['kind'] == 'text':
        return case['source']
    return ast_io.program_text(case['clauses'])

def model_expr(case):
    # verdict + text, and the intermediate code of an accepted source (Comp/ShowIR.v)
    return E.model_text_expr(_case_source(case)).replace('(run_compile_text ', '(run_compile_text_ir ', 1)

# ------------------------------------------------------------------ implementation

def impl(case):
    import inspect
    from yldprolog import engine
    source = _case_source(case)
    out = {'source': source}
    v, text, cls = E.compile_verdict(source)
    out['verdict'] = v
    out['class'] = cls
    if v == 'text':
        from lib import py2ir
        try:
            out['ir'] = py2ir.text_to_ir(text)
        except py2ir.NotInSublanguage as e:
            out['ir_error'] = str(e)
        except RecursionError:
            out['ir_error'] = 'RecursionError while parsing'
    if v != 'text':
        out['msg'] = text
        return out
    out['text'] = text
    # what the front end saw (head keys), through the implementation's own front end
    try:
        groups = ast_io.impl_parse(source)
        out['keys'] = [[g[0], g[1]] for g in groups]
        if case['kind'] == 'ast':
            want = progs.number_anons(case['clauses'])
            out['front_ast_ok'] = sorted(map(repr, [c for g in groups for c in g[2]])) == sorted(map(repr, want))
    except Exception as e:
        out['front_error'] = type(e).__name__
        return out
    try:
        compile(text, '<emitted>', 'exec')
        out['compiles'] = True
    except Exception as e:
        out['compiles'] = False
        out['compile_error'] = '%s: %s' % (type(e).__name__, e)
        return out
    mod = pyast.parse(text)
    defs = [n for n in mod.body if isinstance(n, pyast.FunctionDef)]
    out['only_defs'] = len(defs) == len(mod.body)
    out['defs'] = [n.name for n in defs]
    out['params'] = [[a.arg for a in n.args.args] for n in defs]
    out['plain_params'] = all(not (n.args.vararg or n.args.kwarg or n.args.kwonlyargs or n.args.posonlyargs or n.args.defaults or n.decorator_list) for n in defs)
    out['yields'] = [any(isinstance(x, (pyast.Yield, pyast.YieldFrom)) for x in pyast.walk(n)) for n in defs]
    yp = engine.YP()
    before = dict(yp.eval_context)
    try:
        yp.load_script_from_string(text)
        out['loads'] = True
    except Exception as e:
        out['loads'] = False
        out['load_error'] = '%s: %s' % (type(e).__name__, e)
        return out
    after = yp.eval_context
    out['added'] = sorted(set(after) - set(before))
    out['changed'] = sorted(k for k in before if after.get(k) is not before[k])
    out['genfuncs'] = [inspect.isgeneratorfunction(after.get('%s_%d' % (k[0], k[1]))) for k in out['keys']]
    callable_ = []
    for name, ar in out['keys']:
        vs = [yp.variable() for _ in range(ar)]
        try:
            q = yp.query(name, vs)
            n = 0
            for _ in q:
                n += 1
                if n >= 3:
                    break
            if hasattr(q, 'close'):
                q.close()
            callable_.append(True)
        except RecursionError:
            callable_.append(True)
        except Exception as e:
            callable_.append('%s: %s' % (type(e).__name__, str(e)[:100]))
    out['callable'] = callable_
    return out

def compare(case, io, mo):
    r = E.compare_verdicts(io['source'], io['verdict'], io.get('text'), mo[0])
    if r:
        return r
    if io['verdict'] == 'text':
        # CPython's own parse of the emitted text, mapped back to intermediate code, must be the model's
        # intermediate code (the object whose semantics Sem/IRSem.v states and the C01/C05/C06 theorems use)
        if 'ir_error' in io:
            return 'the emitted text is outside the sub-language of the emitter as CPython parses it: ' + io['ir_error']
        if io.get('ir') != mo[1]:
            return 'CPython reads the emitted text as different intermediate code than the model compiler produced'
    return None

def oracle(case, io):
    if io['verdict'] != 'text':
        if case['kind'] == 'ast' and io['verdict'] not in ('too-large', 'resource'):
            return 'a generated (valid) program was rejected with %s %s' % (io['class'], io.get('msg'))
        return None
    if 'front_error' in io:
        return 'compiler accepted but the front end raised ' + io['front_error']
    if not io['compiles']:
        return 'accepted, but the output is not loadable Python: ' + io.get('compile_error', '')
    if io.get('front_ast_ok') is False:
        return 'front end AST differs from the AST the text was printed from'
    want = ['%s_%d' % (k[0], k[1]) for k in io['keys']]
    if not io['only_defs']:
        return 'the module contains statements other than function definitions'
    if io['defs'] != want:
        return 'defined functions %r, head keys %r' % (io['defs'], want)
    if len(set(want)) != len(want):
        return 'two head keys share one function name: %r' % (want,)
    if io['params'] != [['arg%d' % (i + 1) for i in range(k[1])] for k in io['keys']] or not io['plain_params']:
        return 'function parameters are not arg1..argN of the head arity'
    if not all(io['yields']):
        return 'a defined function contains no yield'
    if not io['loads']:
        return 'accepted, but loading raised: ' + io.get('load_error', '')
    if not all(io['genfuncs']):
        return 'a head key is not bound to a generator function after loading'
    before_keys = set(io['changed'])                     # keys that existed and were rebound
    if set(io['added']) | before_keys != set(want) or not before_keys <= set(want):
        return 'loading added keys %r and rebound %r, head keys %r' % (io['added'], io['changed'], sorted(want))
    for k, c in zip(io['keys'], io['callable']):
        if c is not True:
            return 'predicate %s/%d is not callable after loading: %s' % (k[0], k[1], c)
    return None

def nontrivial(case, io):
    if io.get('verdict') in ('too-large', 'reject-numeral'):
        return True
    return io.get('verdict') == 'text' and len(io.get('keys', [])) >= 2 and 'for l1 in query' in io['text']

def describe(case):
    return {'source': _case_source(case)}

def shrink(case):
    if case['kind'] != 'ast':
        lines = case['source'].split('\n')
        if len(lines) > 1:
            for i in range(len(lines)):
                yield {'kind': 'text', 'source': '\n'.join(lines[:i] + lines[i + 1:])}
        return
    cl = case['clauses']
    for i in range(len(cl)):
        yield {'kind': 'ast', 'clauses': cl[:i] + cl[i + 1:]}
    for i, (name, args, body) in enumerate(cl):
        if body[0] in ('and', 'or', 'if'):
            for sub in (body[1], body[2]):
                yield {'kind': 'ast', 'clauses': cl[:i] + [[name, args, sub]] + cl[i + 1:]}
        elif body[0] == 'not':
            yield {'kind': 'ast', 'clauses': cl[:i] + [[name, args, body[1]]] + cl[i + 1:]}
        elif body != ['true']:
            yield {'kind': 'ast', 'clauses': cl[:i] + [[name, args, ['true']]] + cl[i + 1:]}

def distribution(cases, obs):
    d = {'verdicts': {}, 'classes': {}, 'kinds': {}, 'constructs': {}, 'nkeys': {}, 'boundary': {}}
    for c, o in zip(cases, obs):
        d['kinds'][c['kind']] = d['kinds'].get(c['kind'], 0) + 1
        if not isinstance(o, dict):
            continue
        v = o.get('verdict')
        d['verdicts'][v] = d['verdicts'].get(v, 0) + 1
        if c.get('boundary'):
            d['boundary'][v] = d['boundary'].get(v, 0) + 1
        if o.get('class'):
            d['classes'][o['class']] = d['classes'].get(o['class'], 0) + 1
        if v == 'text':
            k = str(len(o.get('keys', [])))
            d['nkeys'][k] = d['nkeys'].get(k, 0) + 1
        if c['kind'] == 'ast':
            cs = set()
            for _, _, b in c['clauses']:
                progs.constructs(b, cs)
            for x in cs:
                d['constructs'][x] = d['constructs'].get(x, 0) + 1
    return d
