"""C12 - Prolog text cannot become Python code; loaded code sees only the engine API.

Cases are SOURCE TEXTS with hostile quoted atoms in every syntactic position (fact argument, head argument, goal name,
goal argument, list element, functor name, nested, clause-head name), hostile variable names, random programs with
exotic atoms.  For every case
  * the compiler's verdict and text are compared with the Coq model compile_text (as in C11), and
  * the REAL output is inspected on its own: token classes, `ast` node-type and name whitelist, string/int constants
    are exactly the source's atoms/numerals, loading adds only head keys, exec globals have empty __builtins__,
    hostile run-time queries (eval, exec, __import__, every API name, names with _<n> suffixes, the same from
    inside Prolog code through call/N) have no answers, raise nothing and leave a canary untouched.
The repr part of the property (string literals cannot be escaped) is check C12R."""
import ast as pyast, io, os, re, tokenize
from lib import progs, ast_io
from lib import emitcheck as E

ID = 'C12'
IMPORTS = E.IMPORTS
THEOREMS = ['C12_repr_cannot_escape', 'C12_repr_cannot_escape_before', 'C12_repr_no_newline', 'C12_source_text_positions', 'C12_lines_one_line', 'C12_front_lexical', 'C12_compile_program_shape', 'C12_emit_names_whitelisted', 'C12_no_capture', 'C12_reserved_not_local', 'C12_reserved_exact', 'C12_api_not_callable', 'C12_predicate_keys_never_api_names']
RULE = ('sources with 1-4 hostile quoted atoms (quotes of both kinds, line breaks, CR, NUL, control, #, triple quotes, Python statements, '
        'non-ASCII printable and non-printable code points, lone surrogates) placed in fact arguments, head arguments, goal names, goal '
        'arguments, list elements, functor names, nested compound terms and as clause-head names (must be rejected); variables named like '
        'Python constants / engine API / generated locals; random programs with exotic atoms; clause-head names and atoms that are ASCII identifiers '
        'but for one or two characters of nine computed classes (case mapping / re.IGNORECASE / normal form is or starts with an ASCII identifier '
        'character, identifier-legal and renamed by NFKC, decimal digits, identifier start / continue), the small classes enumerated completely; atoms of 1-8 kB with escaped '
        'characters exactly at and around multiples of 250..8192 (offset in the text, its repr, its UTF-8 bytes, its Prolog spelling) followed by Python text; atoms that spell '
        'encoding declarations (every codec name of the interpreter) and shift sequences of stateful codecs. Compared: verdict and text with the Coq model '
        'compile_text. Oracle on the real output: token classes (fixed vocabulary, V_ identifiers, argN/lN/cutIfN, canonical decimals, '
        'one-line string literals, def names = head keys), ast node-type whitelist, loaded names = API whitelist or locals, calls only to '
        'the 7 API functions, string constants = the atoms of the source in order, int constants = the numerals, loading adds only head '
        'keys, defines every head key and rebinds no API name, __builtins__ of the exec globals is empty, hostile queries have no answers / no exception / no '
        'side effect; the output (plain, all debug options, and as written by the command line for the debug-flag combinations) loaded through load_script_from_file defines exactly the head keys and answers what the text loaded from a string answers. Non-trivial: an accepted source containing an atom whose repr is not quote+text+quote, or a rejected head name.')
TRUSTED_BASE = []
CASE_TIMEOUT = 30
COQ_CHUNK = 20

API = ['__builtins__', 'variable', 'atom', 'functor', 'functor1', 'functor2', 'functor3', 'listpair', 'makelist', 'ATOM_NIL',
       'unify', 'match_dynamic', 'query', 'True', 'False']
GLOBALS_OK = {'query', 'unify', 'atom', 'functor', 'listpair', 'makelist', 'variable', 'ATOM_NIL'}
CALL_OK = {'query', 'unify', 'atom', 'functor', 'listpair', 'makelist', 'variable'}
NODE_OK = {'Module', 'FunctionDef', 'arguments', 'arg', 'For', 'If', 'Assign', 'Expr', 'Yield', 'Return', 'Break', 'Pass',
           'Call', 'Name', 'Constant', 'List', 'Load', 'Store'}
FIXED_NAMES = {'def', 'for', 'in', 'if', 'yield', 'return', 'break', 'pass', 'False', 'True', 'doBreak', '_'} | GLOBALS_OK
LOCAL_RE = re.compile(r'(V_[A-Za-z0-9_]+|arg[1-9][0-9]*|l[1-9][0-9]*|cutIf[1-9][0-9]*|doBreak|_)\Z')
GEN_LOCAL_RE = re.compile(r'(arg[1-9][0-9]*|l[1-9][0-9]*|cutIf[1-9][0-9]*)\Z')
CANARY = 'VERIF_C12_CANARY'

# ------------------------------------------------------------------ cases

POSITIONS = [
    "p(%s).", "p(%s, x) :- q(%s).", "p :- %s.", "p :- %s(a, %s).", "p :- q(%s).", "p([%s, b]).", "p([a, %s|T]).", "p(%s(a)).", "p(f(g(%s), [%s])).",
    "p(X) :- X = %s.", "p(X) :- X \\= %s, q(%s(X)).", "p :- \\+ %s.", "p :- ( %s -> %s(x) ; q(%s) ).", "p :- call(%s, x).", "p :- findall(X, %s(X), [%s]).",
    "p(- %s).", "p :- %s = %s.", ":- %s(x).\np(a).", "p(%s) :- fail, q(%s).", "p(%s).\np(%s).\nq(%s) :- p(%s).", "p(%s, %s, %s).",
]
HEAD_POSITIONS = ["%s.", "%s(a).", "%s(X) :- q(X).", "p(a).\n%s(b).\nq(c).", "%s :- true."]
VARNAMES = ['ATOM_NIL', 'True', 'False', 'None', 'Query', 'Unify', 'V_X', 'V_', '_V', 'Arg1', 'L1', 'CutIf1', 'DoBreak', '__debug__', '__builtins__',
            '__import__', '_query', 'X_1', 'Variable', 'Atom', 'Eval', 'A' * 200, '__', '_1', '_x']

# ---- round 4: long atoms with escapes at boundary offsets ----------------------------------------------------------
# characters that repr writes as an escape sequence (of 2, 4, 6 and 10 characters), and characters it leaves alone but
# that take 2-4 bytes in a file
ESCAPED_CHARS = ['\n', '\r', '\t', "'", '\x00', '\x07', '\x1b', '\x7f', '\x85', '\xa0', '\xad', '\u2028', '\u2029', '\u200b', '\ufeff', '\ud800', '\U000e0001', '\U0010ffff']
WIDE_CHARS = ['\xe9', '\u0301', '\u4e2d', '\U0001f600']
FILLERS = ['A', 'ab', 'abcdefghijklmnopqrstuvwxyz0123456789', 'x y', 'A\xe9', 'a\x85', 'a\nb', 'ab\t', '\u4e2d', '\U0001f600z', 'q"', ' ']
CONTINUATIONS = [" in [] and variable.__self__.clear()))):#", " in () or atom.__globals__)))#", " if 0 else unify.__globals__ #", ") or __import__('os').system('id') #",
                 "+variable.__self__.__dict__.__str__()+", "; import os #", " and exec('x') #", ".__class__.__mro__ #", "", " x", "):\n    import os\n", "]+[ATOM_NIL.__class__ for l1 in [1]]+["]

MAJOR_BASES = [250, 256, 500, 512, 1000, 1024, 2048, 4096]
MINOR_BASES = [64, 128, 8192, 100, 200, 2000, 2500, 4000, 5000, 72, 79, 80, 120, 132, 255, 4095, 65536 // 16 - 1]

def boundary_offset(rng, lo, limit):
    """an offset in (lo, limit] that is a multiple of a size at which software cuts text (powers of two, decimal round numbers,
    line widths): the size is chosen first, then the multiple"""
    for _ in range(20):
        b = rng.choice(MAJOR_BASES if rng.random() < 0.65 else MINOR_BASES)
        ks = [k for k in range(1, limit // b + 1) if b * k > lo]
        if ks:
            return b * rng.choice(ks)
    return None

def _measure(s, how, both_quotes):
    if how == 'raw': return len(s)
    if how == 'utf8': return len(s.encode('utf8', 'surrogatepass'))
    if how == 'source': return len(s) + s.count("'")
    # 'repr': length of the escaped text; the quote style of the whole atom is fixed by `both_quotes`
    if both_quotes: return len(repr(s + "'\"")) - 5
    return len(repr(s.replace("'", '"'))) - 2

def _keyword_tails(esc):
    """texts that complete the letter following the backslash of esc's escape sequence to a Python keyword / string prefix"""
    import keyword
    r = repr(esc + "'\"")[1:]
    if not r.startswith('\\') or len(r) < 2:
        return []
    c = r[1]
    return [k[1:] for k in keyword.kwlist if k.startswith(c) and len(k) > 1]

def long_atom(rng, limit):
    """an atom of up to `limit` characters: 1-3 stretches of filler, each ending exactly at (or 1-3 before / after) a boundary
    offset - measured in the atom's text, in its escaped (repr) text, in its UTF-8 bytes or in its Prolog spelling - where an
    escaped character (or a run of them) stands, followed by text that would be Python if it ever left the literal"""
    both = rng.random() < 0.5          # both kinds of quotes in the atom: repr then writes \' for '
    how = rng.choice(['repr', 'repr', 'raw', 'utf8', 'source'])
    s = ''
    for _seg in range(rng.choice([1, 1, 1, 2, 3])):
        cur = _measure(s, how, both)
        o = boundary_offset(rng, max(cur + 8, 900 if _seg == 0 and rng.random() < 0.8 else 0), limit)      # most atoms are 1-8 kB long
        if o is None:
            break
        target = o - 1 + rng.choice([0, 0, 0, 0, 0, -1, -2, -3, -4, -5, -9, 1, 2])
        fill = rng.choice(FILLERS)
        if not both:
            fill = fill.replace('"', 'q')
        while True:
            cur = _measure(s, how, both)
            if cur >= target:
                break
            unit = fill if _measure(s + fill, how, both) <= target else 'A'
            s += unit
        esc = ''.join(rng.choice(ESCAPED_CHARS if rng.random() < 0.85 else WIDE_CHARS) for _ in range(rng.choice([1, 1, 1, 2, 3])))
        if not both:
            esc = esc.replace("'", '\n')
        tails = _keyword_tails(esc[-1])
        s += esc + (rng.choice(tails) if tails and rng.random() < 0.7 else '') + rng.choice(CONTINUATIONS)
    if both:
        s += "'\""
    return s

# ---- round 4: texts that a file-reading layer treats specially -----------------------------------------------------
def codec_names():
    """every codec this interpreter ships (modules of the `encodings` package and their aliases), grouped by the codec they name:
    -> (groups that do not read printable ASCII as itself: stateful / shifted / EBCDIC / wide / non-text codecs, the other groups)"""
    import codecs, encodings, encodings.aliases, pkgutil
    names = sorted({m.name for m in pkgutil.iter_modules(encodings.__path__)} | set(encodings.aliases.aliases) | set(encodings.aliases.aliases.values()))
    P = bytes(range(32, 127))
    odd, plain = {}, {}
    for n in names:
        try:
            canon = codecs.lookup(n).name
        except Exception:
            continue
        try:
            same = P.decode(n) == P.decode('ascii')
        except Exception:
            same = False
        (plain if same else odd).setdefault(canon, []).append(n)
    return [odd[k] for k in sorted(odd)], [plain[k] for k in sorted(plain)]

_CODECS = []
def _codecs():
    if not _CODECS:
        _CODECS.extend(codec_names())
    return _CODECS

DECLARATIONS = ['coding:%s', 'coding=%s', 'coding: %s', '-*- coding: %s -*-', 'vim: set fileencoding=%s :', 'vim:fileencoding=%s', '# coding=%s', 'encoding: %s', 'x coding:%s y',
                '#!/usr/bin/python\n# coding: %s', 'charset=%s', '<?xml version="1.0" encoding="%s"?>', '\ufeffcoding:%s', '# -*- coding: %s -*-\n']
BREAKOUTS = ["'", "'+x+'", "' if 0 else '", "'.__class__.__name__+'", "'+variable.__self__.__class__.__name__+'", "')]):\n  pass\nimport os\n#", '"', "\n", "\\"]

def shifted_spellings(text, codec):
    """printable ASCII texts (no backslash) that a reader using `codec` (or any of the stateful 7-bit codecs) turns into `text`"""
    import base64
    out = []
    # UTF-7 (RFC 2152): + base64(UTF-16BE) -
    b = base64.b64encode(text.encode('utf-16-be')).decode('ascii').rstrip('=')
    out += ['+' + b + '-', '+' + b, 'x+' + b + '-y']
    for c in (codec, 'hz', 'iso2022_jp', 'iso2022_kr', 'utf_7', 'punycode', 'idna', 'quopri_codec', 'unicode_escape', 'raw_unicode_escape', 'rot_13', 'hex_codec', 'base64_codec', 'uu_codec'):
        for enc in (lambda: text.encode(c), lambda: __import__('codecs').encode(text, c), lambda: __import__('codecs').encode(text.encode('utf8'), c)):
            try:
                e = enc()
                if isinstance(e, bytes): e = e.decode('latin-1')
            except Exception:
                continue
            if e and e != text:
                out.append(e)
    out += ['~{' + text + '~}', '\x1b$B' + text + '\x1b(B', '\x0e' + text + '\x0f', '=27', '&#39;', '%27', '\ufeff' + text, '\ufffe' + text]
    return [o for o in out if '\\' not in o and '\x00' not in o]

def coding_case(rng):
    """a program of facts whose atoms spell encoding declarations (every way Python, Emacs, vim or XML write them, every codec name this
    interpreter knows) and texts that a stateful / shifted codec reads as quotes and Python code"""
    odd, plain = _codecs()
    codec = rng.choice(rng.choice(odd) if rng.random() < 0.75 else rng.choice(plain))
    codec_sp = rng.choice([codec, codec.replace('_', '-'), codec.upper(), codec.replace('_', '')])
    decl = rng.choice(DECLARATIONS) % codec_sp
    names = ['msg'] if rng.random() < 0.6 else ['msg', 'other', 'third']
    clauses = []
    n = rng.randrange(2, 6)
    decl_at = rng.choice([0, 0, 0, 1, n - 1])
    for i in range(n):
        if i == decl_at:
            a = decl
        else:
            sp = shifted_spellings(rng.choice(BREAKOUTS), codec)
            a = rng.choice(sp) if sp and rng.random() < 0.8 else rng.choice(E.HOSTILE)
            if rng.random() < 0.4:
                a = a + rng.choice(CONTINUATIONS) + rng.choice(sp or [''])
        q = E.quote_atom(a)
        if q is None or any(0xD800 <= ord(ch) <= 0xDFFF for ch in a):
            q, a = "'plain'", 'plain'
        name = names[0] if i == 0 or len(names) == 1 else rng.choice(names)
        shape = rng.choice(['%s(%s).', '%s(%s).', '%s(f(%s)).', '%s([%s]).', '%s(X) :- X = %s.'])
        clauses.append((name, shape % (name, q), a if shape == '%s(%s).' else None))
    if rng.random() < 0.3:
        # the declaration as the name of a goal / a compound term of the first clause instead
        clauses[0] = (names[0], "%s(X) :- %s(X), X = %s(1)." % (names[0], E.quote_atom(decl), E.quote_atom(decl)), None)
    src = '\n'.join(c[1] for c in clauses) + '\n'
    return {'kind': 'text', 'source': src, 'atoms': [], 'where': 'file', 'flags': 'all'}

def gen(rng, tier):
    quick = tier == 'quick'
    cases = []
    for _ in range(36 if quick else 300):
        # one long atom (quick: up to ~4.3 kB, now and then 8.3 kB; thorough: up to 8.3 kB) and short ones in the other places
        a = long_atom(rng, 4300 if quick and rng.random() < 0.9 else 8300)
        pos = rng.choice(POSITIONS[:17])
        k = pos.count('%s')
        atoms = [rng.choice(E.HOSTILE[:40]) for _ in range(k)]
        atoms[rng.randrange(k)] = a
        qs = [E.quote_atom(x) for x in atoms]
        if any(q is None for q in qs):
            continue
        cases.append({'kind': 'text', 'source': pos % tuple(qs), 'atoms': atoms, 'where': 'long'})
    for _ in range(30 if quick else 500):
        cases.append(coding_case(rng))
    def pick():
        if rng.random() < 0.25:
            # random text over a hostile alphabet
            alpha = ["'", '"', '\n', '\r', '\t', ' ', '#', '(', ')', '[', ']', ',', ':', ';', '=', 'a', 'Z', '_', '0', '.', '%', '\x00', '\x7f', '\x85', ' ',
                     '\xe9', '́', '\U0001f600', '\ud800', '￾', '{', '}', '`', '$', '!', '|', '-', '+', '<', '>', '@', '~', '\x1b', '\xa0', '\xad']
            return ''.join(rng.choice(alpha) for _ in range(rng.randrange(0, 12)))
        if rng.random() < 0.2:
            # an ASCII identifier with characters that case mapping, normalisation or Python's identifier rules relate to ASCII
            return E.rnd_mixed_name(rng)
        return rng.choice(E.HOSTILE)
    for _ in range(170 if quick else 3000):
        pos = rng.choice(POSITIONS)
        atoms = [pick() for _ in range(pos.count('%s'))]
        qs = [E.quote_atom(a) for a in atoms]
        if any(q is None for q in qs):
            continue
        cases.append({'kind': 'text', 'source': pos % tuple(qs), 'atoms': atoms, 'where': 'data'})
    for _ in range(40 if quick else 600):
        a = pick()
        q = E.quote_atom(a)
        if q is None:
            continue
        cases.append({'kind': 'text', 'source': rng.choice(HEAD_POSITIONS) % q, 'atoms': [a], 'where': 'head'})
    for _ in range(40 if quick else 600):
        # clause-head names that are ASCII identifiers but for one or two characters of the computed look-alike classes
        a = E.rnd_mixed_name(rng)
        cases.append({'kind': 'text', 'source': rng.choice(HEAD_POSITIONS) % E.quote_atom(a), 'atoms': [a], 'where': 'head'})
    for _ in range(25 if quick else 400):
        vs = [rng.choice(VARNAMES) for _ in range(3)]
        src = rng.choice(["p(%s, [], %s) :- q(%s, []).", "p(%s) :- %s = [], q(%s).", "p([%s|%s], %s).", "p(%s, %s) :- ( q(%s) -> r(X) ; s )."])
        cases.append({'kind': 'text', 'source': src % tuple(vs[:src.count('%s')]), 'atoms': [], 'where': 'var'})
    for _ in range(60 if quick else 1000):
        o = progs.Opts(control=rng.random() < 0.5, cut=rng.random() < 0.3, builtins=rng.random() < 0.3, exotic_atoms=True)
        p = progs.gen_program(rng, o)
        cases.append({'kind': 'text', 'source': ast_io.program_text(p['clauses']), 'atoms': [], 'where': 'program'})
    return cases

def builtin_corpus():
    L = []
    def src(s, where='data'): L.append({'kind': 'text', 'source': s, 'atoms': [], 'where': where})
    for a in E.HOSTILE:
        q = E.quote_atom(a)
        if q is None:
            continue
        src("p(%s, f(%s), [%s]) :- %s(%s), X = %s(%s)." % ((q,) * 7))
        src("%s(a)." % q, 'head')
    for i, ch in enumerate(E.identifier_lookalikes_small()):
        # every character of the small look-alike classes (computed: case mappings / re.IGNORECASE matches that are ASCII),
        # first and inside a clause-head name, and as a goal name
        for a in (ch + 'bc', 'Ab' + ch + '_1'):
            src(HEAD_POSITIONS[i % len(HEAD_POSITIONS)] % E.quote_atom(a), 'head')
            L[-1]['atoms'] = [a]
        src("p :- %s(x), %s." % (E.quote_atom(ch + 'bc'), E.quote_atom('q' + ch)))
    for d in ["p :- fail, 1(a).", "p :- (a -> fail), 1(a).", "p :- fail -> 1(a) ; b.", "p :- (fail ; a), 1(a).", "p(1(a)) :- fail.", "p :- fail, X = 1(a).", "p :- a, fail, 007(_).", "p :- \\+ fail, 1(a).", "p :- fail, q(a/1)."]:
        src(d)      # numeral-named compound terms: refused only where the compiler reaches them (Comp/NumeralName.v)
    src("p(ATOM_NIL, []).", 'var'); src("p(True, False, None) :- q(True).", 'var'); src("p(Query) :- Query = query, call(Query, x).", 'var')
    src("p(V_X, X) :- q(V_X, X).", 'var'); src("p(__builtins__, __import__).", 'var'); src("p(Arg1, Arg2, a, b).", 'var'); src("p(L1, L2) :- q(L1), r(L2).", 'var')
    src("p(CutIf1, DoBreak) :- ( q(CutIf1) -> r(DoBreak) ; s ).", 'var'); src("p(_, _x, __, _1).", 'var')
    src("eval(x).\nexec(x).\n__import__(os).", 'head'); src("atom(x).\nquery(a, b).\nunify(X, X).\nvariable.", 'head')
    src("p :- eval('1+1').\nq :- call(eval, x).\nr :- X = '__import__', call(X, os).\ns :- exec(x) ; open(f).")
    src("p :- '$CUTIF'('x = 1; y'), true."); src("p :- '$CUTIF'(a)."); src("p :- ( a -> '$CUTIF'(cutIf1), b ; c )."); src("'$CUTIF'(a).", 'head')
    src("p('''').\nq('\"\"\"').\nr('\\'').")
    src("p('a\\b').")          # a backslash in the source: dropped by the unquoter
    src("p('\\\\').")
    return L

def model_expr(case):
    return E.model_text_expr(case['source'])

# ------------------------------------------------------------------ implementation

def _source_constants(source):
    """atoms and numerals of the source in the order the compiler emits them is not reconstructed here:
    only the SETS of atom texts (everything the front end unquoted) and numerals"""
    groups = ast_io.impl_parse(source)
    atoms, nums = set(), set()
    def t(x):
        k = x[0]
        if k == 'atom': atoms.add(x[1])
        elif k == 'num': nums.add(int(x[1]))
        elif k == 'fun':
            atoms.add(x[1])
            for a in x[2]: t(a)
        elif k == 'list':
            for a in x[1]: t(a)
        elif k == 'pair':
            t(x[1]); t(x[2])
    def b(x):
        k = x[0]
        if k == 'call':
            atoms.add(x[1])
            for a in x[2]: t(a)
        elif k in ('and', 'or', 'if'):
            b(x[1]); b(x[2])
        elif k == 'not':
            b(x[1])
    for name, ar, cls in groups:
        for c in cls:
            for a in c[1]: t(a)
            b(c[2])
    return [[g[0], g[1]] for g in groups], atoms, nums

def _token_problems(text, keys):
    want_defs = {'%s_%d' % (k[0], k[1]) for k in keys}
    probs = []
    prev = None
    try:
        toks = list(tokenize.generate_tokens(io.StringIO(text).readline))
    except Exception as e:
        return ['tokenize failed: %s' % type(e).__name__]
    for tok in toks:
        ty, s = tok.type, tok.string
        if ty == tokenize.COMMENT:
            if tok.start[0] > 3:
                probs.append('comment on line %d' % tok.start[0])
        elif ty == tokenize.NAME:
            if prev == 'def':
                if s not in want_defs:
                    probs.append('def name %r is not a head key' % s)
                if not re.match(r'[A-Za-z_][A-Za-z0-9_]*_(0|[1-9][0-9]*)\Z', s):
                    probs.append('def name %r is not <identifier>_<arity>' % s)
            elif s not in FIXED_NAMES and not LOCAL_RE.match(s):
                probs.append('name %r is neither fixed vocabulary nor a local of the generated code' % s)
        elif ty == tokenize.NUMBER:
            if not re.match(r'(0|[1-9][0-9]*)\Z', s):
                probs.append('number %r is not a canonical decimal' % s)
        elif ty == tokenize.STRING:
            if s[0] not in '\'"' or s[:3] in ("'''", '"""') or tok.start[0] != tok.end[0]:
                probs.append('string token %r is prefixed, triple-quoted or spans lines' % s[:30])
        elif ty == tokenize.OP:
            if s not in '()[],:=' or len(s) != 1:
                probs.append('operator %r' % s)
        elif ty == tokenize.ERRORTOKEN:
            probs.append('error token %r' % s)
        if ty not in (tokenize.NL, tokenize.NEWLINE, tokenize.INDENT, tokenize.DEDENT, tokenize.COMMENT):
            prev = s
    return probs

def _ast_problems(text, atoms, nums):
    probs = []
    mod = pyast.parse(text)
    for node in pyast.walk(mod):
        n = type(node).__name__
        if n not in NODE_OK:
            probs.append('node type %s' % n)
    strs, ints = [], []
    for fn in mod.body:
        if not isinstance(fn, pyast.FunctionDef):
            probs.append('top-level %s' % type(fn).__name__)
            continue
        if fn.decorator_list or fn.returns or fn.args.vararg or fn.args.kwarg or fn.args.kwonlyargs or fn.args.defaults or fn.args.posonlyargs:
            probs.append('function %s has decorators / annotations / special parameters' % fn.name)
        locals_ = {a.arg for a in fn.args.args}
        for node in pyast.walk(fn):
            if isinstance(node, pyast.Name) and isinstance(node.ctx, pyast.Store):
                locals_.add(node.id)
        for x in locals_:
            if not LOCAL_RE.match(x):
                probs.append('local name %r' % x)
            if x in API or x in GLOBALS_OK:
                probs.append('local name %r captures an engine name' % x)
        for node in pyast.walk(fn):
            if isinstance(node, pyast.Name) and isinstance(node.ctx, pyast.Load):
                if node.id not in GLOBALS_OK and node.id not in locals_:
                    probs.append('free name %r' % node.id)
            if isinstance(node, pyast.Call):
                if not isinstance(node.func, pyast.Name) or node.func.id not in CALL_OK or node.func.id in locals_ or node.keywords \
                        or any(isinstance(a, pyast.Starred) for a in node.args):
                    probs.append('call of %s' % pyast.dump(node.func)[:60])
            if isinstance(node, pyast.Constant):
                v = node.value
                if isinstance(v, bool):
                    pass
                elif isinstance(v, str):
                    strs.append(v)
                elif isinstance(v, int):
                    ints.append(v)
                else:
                    probs.append('constant %r' % (v,))
            if isinstance(node, pyast.FunctionDef) and node is not fn:
                probs.append('nested def')
    for s in strs:
        if s not in atoms:
            probs.append('string constant %r is not an atom of the source' % s[:40])
    for i in ints:
        if i != 1 and i not in nums:
            probs.append('int constant %r is not a numeral of the source' % i)
    return probs, strs

HOSTILE_QUERIES = ['eval', 'exec', '__import__', 'open', 'compile', 'getattr', 'print', 'globals', 'locals', 'vars', 'dir', 'type', 'object',
                   '__builtins__', 'builtins', 'os', 'sys', 'lambda', 'self', 'yp', 'engine', 'YP', 'chain_functions', 'get_value']

def _hostile_queries(yp, keys):
    """run-time queries that must have no answers and no effect"""
    payload = "__import__('os').environ.__setitem__('%s','1')" % CANARY
    out = []
    names = list(HOSTILE_QUERIES) + list(API)
    names += [n + s for n in API for s in ('_0', '_1', '_2', '_n')]
    names += ['match', 'once_1', 'call_n', 'foo_1', 'foo']
    defined = {(k[0], k[1]) for k in keys}
    for name in names:
        for args in ([], [payload], [yp.atom(payload)], [payload, {}], [yp.atom('a'), yp.variable()], [[yp.atom('a')]], [yp.variable()] * 3):
            if (name, len(args)) in defined and name not in API:
                continue
            try:
                n = 0
                q = yp.query(name, args)
                for _ in q:
                    n += 1
                    if n > 2:
                        break
                if n:
                    out.append('query %r/%d has answers' % (name, len(args)))
            except Exception as e:
                out.append('query %r/%d raised %s' % (name, len(args), type(e).__name__))
    # the same from inside the engine: call/N with the name as an atom
    for name in HOSTILE_QUERIES[:6] + API:
        if any(k[0] == name for k in keys) and name not in API:
            continue
        for extra in ([], [yp.atom(payload)]):
            try:
                if any(True for _ in yp.query('call', [yp.atom(name)] + extra)):
                    out.append('call(%r, ..) has answers' % name)
            except Exception as e:
                out.append('call(%r, ..) raised %s' % (name, type(e).__name__))
    if os.environ.get(CANARY):
        out.append('side effect: the canary was set')
    return out

def impl(case):
    from yldprolog import engine
    source = case['source']
    out = {'source': source}
    os.environ.pop(CANARY, None)
    v, text, cls = E.compile_verdict(source)
    out['verdict'] = v
    out['class'] = cls
    if v != 'text':
        return out
    out['text'] = text
    try:
        keys, atoms, nums = _source_constants(source)
    except Exception as e:
        out['problems'] = ['front end raised %s on an accepted source' % type(e).__name__]
        return out
    out['keys'] = keys
    probs = []
    try:
        compile(text, '<emitted>', 'exec')
    except Exception as e:
        out['problems'] = ['output does not compile: %s' % type(e).__name__]
        return out
    probs += _token_problems(text, keys)
    p2, strs = _ast_problems(text, atoms, nums)
    probs += p2
    out['escaped'] = sum(1 for s in strs if repr(s) != "'" + s + "'")
    yp = engine.YP()
    before = dict(yp.eval_context)
    try:
        yp.load_script_from_string(text)
    except Exception as e:
        out['problems'] = probs + ['loading raised %s: %s' % (type(e).__name__, str(e)[:80])]
        return out
    after = yp.eval_context
    want = {'%s_%d' % (k[0], k[1]) for k in keys}
    added = set(after) - set(before)
    if not added <= want:
        probs.append('loading added names %r that are not head keys' % sorted(added - want)[:5])
    if not want <= set(after):
        probs.append('loading does not define the head keys %r' % sorted(want - set(after))[:5])
    for k in before:
        if after.get(k) is not before[k] and k not in want:
            probs.append('loading rebound %r' % k)
    for k in API:
        if k != '__builtins__' and after.get(k) is not before.get(k):
            probs.append('loading rebound API name %r' % k)
    if after.get('__builtins__') != {}:
        probs.append('__builtins__ of the context is not empty')
    for k in want:
        f = after.get(k)
        g = getattr(f, '__globals__', None)
        if g is None or g.get('__builtins__') != {}:
            probs.append('function %s does not run with empty __builtins__' % k)
        elif set(g) - set(before) - want:
            probs.append('globals of %s contain %r' % (k, sorted(set(g) - set(before) - want)[:5]))
    # run every defined predicate once (its own goals may be hostile names: no answers from them, no exception)
    for name, ar in keys:
        try:
            q = yp.query(name, [yp.variable() for _ in range(ar)])
            n = 0
            for _ in q:
                n += 1
                if n >= 3:
                    break
            if hasattr(q, 'close'):
                q.close()
        except RecursionError:
            pass
        except Exception as e:
            probs.append('running %s/%d raised %s: %s' % (name, ar, type(e).__name__, str(e)[:60]))
    probs += _hostile_queries(yp, keys)
    p3, dtext = _debug_output_problems(source, text, keys, atoms, nums)
    probs += p3
    probs += _file_problems(case, source, text, dtext, keys)
    out['problems'] = probs[:12]
    return out

def _answers(yp, keys):
    """the first answers of every predicate of the program, as Python values"""
    from yldprolog import engine
    out = {}
    for name, ar in keys:
        vs = [yp.variable() for _ in range(ar)]
        res = []
        try:
            q = yp.query(name, vs)
            for _ in q:
                try:
                    res.append(repr([engine.to_python(v) for v in vs]))
                except TypeError:
                    res.append('TypeError')
                if len(res) >= 4:
                    break
            if hasattr(q, 'close'):
                q.close()
        except RecursionError:
            res.append('RecursionError')
        except Exception as e:
            res.append('raised %s' % type(e).__name__)
        out['%s/%d' % (name, ar)] = res
    return out

FLAG_SETS = [[], ['--debug-generator'], ['--debug-parser'], ['--debug-filename'], ['--debug-generator', '--debug-filename'], ['--debug-parser', '--debug-generator'],
             ['--debug-parser', '--debug-filename'], ['--debug-parser', '--debug-generator', '--debug-filename'], ['-d'], ['--debug']]

def _file_problems(case, source, text, dtext, keys):
    """The generated text written to a file and loaded with load_script_from_file - the plain output, the output with all debug
    options, and (cases of the `file` family: every combination of the debug options; the others: one combination chosen by the
    text) what the command line writes for the source file: loading must define the head keys and nothing else, every predicate must
    answer exactly what it answers when the plain output is loaded from a string, nothing else may run (canary)."""
    import hashlib, locale, shutil
    from yldprolog import compiler, engine
    from lib import coqrun
    if any(0xD800 <= ord(ch) <= 0xDFFF for ch in source):
        return []                     # no file form
    utf8_locale = locale.getpreferredencoding(False).lower().replace('-', '').replace('_', '') == 'utf8'
    want = {'%s_%d' % (k[0], k[1]) for k in keys}
    ref = engine.YP()
    ref.load_script_from_string(text)
    ref_answers = _answers(ref, keys)
    d = os.path.join(coqrun.VERIF, '.work', 'c12-%d' % os.getpid())
    os.makedirs(d, exist_ok=True)
    probs = []
    def load_and_judge(path, what):
        with open(path, 'rb') as f:
            data = f.read()
        if not utf8_locale and any(b >= 0x80 for b in data):
            return                    # open(fn, 'r') decodes with the locale's encoding: only ASCII files are judged then
        yp = engine.YP()
        before = set(yp.eval_context)
        try:
            yp.load_script_from_file(path)
        except Exception as e:
            probs.append('%s: load_script_from_file raised %s although the same text loads from a string' % (what, type(e).__name__))
            return
        added = set(yp.eval_context) - before
        if added != want:
            probs.append('%s, loaded from the file: defines %r, the head keys are %r' % (what, sorted(added)[:5], sorted(want)[:5]))
            return
        if yp.eval_context.get('__builtins__') != {}:
            probs.append('%s, loaded from the file: __builtins__ is not empty' % what)
        a = _answers(yp, keys)
        # a RecursionError of the host interpreter depends on the depth of the caller's stack: not compared
        differ = [k for k in ref_answers if a.get(k) != ref_answers[k] and 'RecursionError' not in ref_answers[k] and 'RecursionError' not in (a.get(k) or [])]
        if differ:
            k = differ[0]
            probs.append(('%s, loaded from the file: %s answers %r, loaded from a string %r' % (what, k, a.get(k), ref_answers[k]))[:600])
        if os.environ.get(CANARY):
            probs.append('%s, loaded from the file: the canary was set' % what)
    try:
        for what, t in (('the output', text), ('the output with all debug options', dtext)):
            if t is None:
                continue
            path = os.path.join(d, 'out.py')
            with open(path, 'w', encoding='utf8', newline='') as f:
                f.write(t)
            load_and_judge(path, what)
        # the command line: yldpc <flags> -o out.py prog.pl
        h = int(hashlib.sha256(source.encode('utf8')).hexdigest(), 16)
        sets = FLAG_SETS if case.get('flags') == 'all' else [FLAG_SETS[h % len(FLAG_SETS)]]
        src_path = os.path.join(d, 'prog.pl')
        with open(src_path, 'wb') as f:
            f.write(source.encode('utf8'))
        for flags in sets:
            outp = os.path.join(d, 'cli_out.py')
            if os.path.exists(outp):
                os.unlink(outp)
            try:
                compiler.main.main(args=flags + ['-o', outp, src_path], prog_name='yldpc', standalone_mode=False)
            except RecursionError:
                continue
            except BaseException as e:
                probs.append('yldpc %s raised %s on a source compile_prolog_from_string accepts' % (' '.join(flags), type(e).__name__))
                continue
            load_and_judge(outp, 'the file written by yldpc %s' % ' '.join(flags))
    finally:
        shutil.rmtree(d, ignore_errors=True)
    return probs

class DebugCtx(E.Ctx):
    debug_filename = True
    debug_parser = True
    debug_generator = True
    current_source_file = 'hostile.pl'

def _debug_output_problems(source, text, keys, atoms, nums):
    """the same source compiled with every debug option on: the debug text (which prints source atoms) may only add
    comment lines - as Python reads lines - so the module still consists of the same definitions and nothing else"""
    from yldprolog import compiler, engine
    if any(0xD800 <= ord(ch) <= 0xDFFF for ch in source):
        # a lone surrogate cannot be read from or written to a UTF-8 file; in code it is repr-escaped (checked above),
        # in a debug comment it would appear raw: such a debug text has no file form, nothing to check
        return [], None
    class Ctx2(DebugCtx):
        outf = io.StringIO()
    try:
        # yldpc writes the debug messages to the output stream while it compiles, then the code
        code = compiler.compile_prolog_from_string(source, Ctx2)
        dtext = Ctx2.outf.getvalue() + code
    except RecursionError:
        return [], None
    except Exception as e:
        return ['with debug options on the compiler raised %s although it accepts the source without them' % type(e).__name__], None
    probs = []
    try:
        m1 = pyast.dump(pyast.parse(text)); m2 = pyast.dump(pyast.parse(dtext))
    except Exception as e:
        return ['with debug options on the output is not parsable Python: %s' % type(e).__name__], dtext
    if m1 != m2:
        probs.append('with debug options on the output is a different Python module (something other than comments was added)')
    yp = engine.YP()
    before = set(yp.eval_context)
    try:
        yp.load_script_from_string(dtext)
    except Exception as e:
        return probs + ['loading the debug output raised %s' % type(e).__name__], dtext
    want = {'%s_%d' % (k[0], k[1]) for k in keys}
    if not (set(yp.eval_context) - before) <= want:
        probs.append('loading the debug output added names %r that are not head keys' % sorted(set(yp.eval_context) - before - want)[:5])
    if os.environ.get(CANARY):
        probs.append('loading the debug output touched the canary')
    return probs, dtext

def compare(case, io, mo):
    return E.compare_verdicts(io['source'], io['verdict'], io.get('text'), mo)

def oracle(case, io):
    if io['verdict'] != 'text':
        return None
    if case.get('where') == 'head' and case.get('atoms') and not re.match(r'[A-Za-z_][A-Za-z0-9_]*\Z', case['atoms'][0]):
        return 'a clause head named %r was accepted' % case['atoms'][0][:40]
    if io.get('problems'):
        return '; '.join(io['problems'][:4])
    return None

def nontrivial(case, io):
    if io.get('verdict') == 'text':
        return io.get('escaped', 0) > 0 or case.get('where') == 'var'
    return case.get('where') == 'head' and io.get('verdict') == 'reject-front'

def describe(case):
    return {'source': case['source']}

def shrink(case):
    lines = case['source'].split('\n')
    if len(lines) > 1:
        for i in range(len(lines)):
            yield dict(case, source='\n'.join(lines[:i] + lines[i + 1:]))

def distribution(cases, obs):
    d = {'verdicts': {}, 'where': {}, 'escaped_literals': 0}
    for c, o in zip(cases, obs):
        d['where'][c.get('where')] = d['where'].get(c.get('where'), 0) + 1
        if isinstance(o, dict):
            v = o.get('verdict')
            d['verdicts'][v] = d['verdicts'].get(v, 0) + 1
            d['escaped_literals'] += o.get('escaped', 0)
    return d
