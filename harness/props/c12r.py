"""alias: bin/check C12R == bin/check C12REPR (the module is props/c12repr.py)"""
from props.c12repr import *          # noqa
from props.c12repr import _repr_case, _model_lex, _string_tokens, _no_triple   # noqa
