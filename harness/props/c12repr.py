"""C12R - helper check of C12: repr() of a str can never escape its quotes.

Three kinds of case:
  repr   a hostile string s and a hostile continuation `rest`: the model's py_repr must equal the running
         interpreter's repr(s) code point for code point, the model lexer on repr(s)+rest must give (s, rest),
         CPython's own tokenizer/decoder must give (s, rest) as well, eval(repr(s)) == s; the compiler of
         /repo must spell the string the same way (generate_expr, and - for strings that Prolog source can
         carry - end to end through compile_prolog_from_string in the atom / functor-name / goal-name positions)
  lex    a literal-like text (well-formed, nearly well-formed, or a mutated repr): the model lexer
         Comp/PyLex.v against CPython's tokenizer + escape decoder
  db     the one assumed fact about the Unicode database: no surrogate code point is printable
"""
import ast, io, tokenize
from lib import pyrepr_check as P
from lib.pyrepr_check import cps, to_s, g_cps

ID = 'C12R'
IMPORTS = ['Comp.PyRepr', 'Comp.PyLex', 'Comp.RunPyRepr']
THEOREMS = ['C12R_repr_cannot_escape', 'C12R_repr_cannot_escape_unconditional_refuted',
            'C12R_repr_cannot_escape_short', 'C12R_repr_body_any_quote', 'C12R_repr_cannot_escape_before', 'C12R_repr_prefix_free',
            'C12R_repr_no_newline', 'C12R_repr_no_control', 'C12R_repr_output_chars',
            'C12R_repr_ascii_when_nothing_printable', 'C12R_repr_delimited', 'C12R_quote_choice',
            'C12R_lex_consumes_prefix', 'C12R_lex_literal_shape', 'C12R_lex_one_line']
RULE = ('repr cases: strings of length 0-300 from 12 profiles (plain ASCII, quote-heavy, only one kind of quote, '
        'backslash-heavy, control characters, Latin-1, BMP incl. U+0085/2028/2029/combining/format/private-use/'
        'noncharacters, astral, lone surrogates, mixed, adversarial fragments such as quote-paren, backslash-quote, '
        'triple quotes, line breaks, \\N{..}) followed by a hostile continuation; plus blocks of consecutive code '
        'points (thorough tier: every code point 0..0x10FFFF). Non-trivial: repr(s) is not simply quote+s+quote '
        '(something had to be escaped or the quote had to be chosen). lex cases: literal-like texts; non-trivial: '
        'contains a backslash, the other quote, or is rejected by CPython. Distinct by hash of the case.')
TRUSTED_BASE = [
    'Coq 8.16.1 kernel (coqc); vm_compute for the in-Coq evaluation of the model on every case',
    'no axioms: all C12R theorems are closed under the global context',
    'hand-written models Comp/PyRepr.v (CPython unicode_repr) and Comp/PyLex.v (short string literals); tied to the '
    'running CPython by this differential run against repr(), eval(), tokenize and ast.literal_eval',
    'the Unicode database enters only as the oracle `printable` (universally quantified in the theorems; premise: '
    'surrogates are not printable - checked for all 2048 on every run)',
    'harness: generators, cpython_lex (classification of what CPython lexes at the front of a text), parser of the printed observations',
]
ASSUMPTIONS = ['py_lex_string models only the escapes that repr() produces; literals using other escapes (octal, \\a, \\N{..}, '
               'backslash-newline, unknown escapes), prefixes or triple quotes are answered None by the model and are only '
               'required not to be classified "short" by the reference',
               'the empty literal followed directly by a single quote is read by Python as a triple quote (no_triple premise)']
CASE_TIMEOUT = 20
COQ_CHUNK = 150

# ------------------------------------------------------------------ cases

def _repr_case(s, rest, e2e=None, profile='fixed'):
    s = list(s); rest = list(rest)
    if e2e is None:
        e2e = (92 not in s) and len(s) <= 64
    return {'kind': 'repr', 's': s, 'rest': rest, 'e2e': bool(e2e), 'profile': profile}

def _block_case(lo, hi, rest):
    """all code points lo..hi-1 in one string; the model generates the string itself (run_block)"""
    c = _repr_case(list(range(lo, hi)), rest, e2e=False, profile='block')
    c['block'] = [lo, hi - lo]
    return c

def builtin_corpus():
    L = [{'kind': 'db'}]
    fixed = ["", "a", "'", '"', "'\"", "\\", "\\'", "a'b", 'a"b', "a'b\"c", "\n", "\r", "\t", "\0", "\x7f", "\x1f", " ",
             "\x80", "\x85", "\xa0", "\xad", "\xe9", "\xff", "Ā", " ", " ", "́", "é", "﻿",
             "￿", "", "\ud800", "\udfff", "😀", "\U0001f600", "\U00010000", "\U0010ffff", "\U000e0001",
             "')", "');import os;('", "\\N{DIGIT ONE}", "'''", '"""', "''", "\\\n", "\\x27", "x\\", "\\\\'",
             "'+__import__('os').system('id')+'", "hello world", "[]", "a\nb", "tab\there", "　", "​", "‮"]
    for t in fixed:
        for rest in (")", "'", ""):
            L.append(_repr_case(cps(t), cps(rest)))
    L.append(_block_case(0, 0x300, cps("))")))
    L.append(_block_case(0xD7F0, 0xE010, cps(",")))
    L.append(_block_case(0xFFF0, 0x10010, cps(",")))
    L.append(_block_case(0x10FF00, 0x110000, cps(",")))
    for t in ["'abc' rest", "'' 'x'", "'''x'", "''", "'", '""""', "'a\\'b' + 1", "'ab\rcd' x", "'ab\ncd'", "'ab\x00cd' x",
              "'a' \x00", "'a\\q' x", "'\\x4' x", "'\\x4g'", "'\\U00110000' x", "'\\U0010FFFF' x", "'\\ud800' x", "'\ud800' x",
              "'a' \ud800", "'abc", "'abc\\", "'a\\\nb' x", "\"a'b\" 'rest", "'\\N{DIGIT ONE}'", "'\\101\\7'", "'a\x0cb' x",
              "'a b' x", "'\\XAB'", "'\\xAb\\uABcd'", "r'a'", "b'a'", " 'a'", "'\\\\' '", "'\\\\\\'' x", "", "x", "'\\"]:
        L.append({'kind': 'lex', 'text': cps(t), 'profile': 'fixed'})
    return L

def gen(rng, tier):
    quick = tier == 'quick'
    cases = []
    n_repr = 2200 if quick else 20000
    n_lex = 1400 if quick else 14000
    n_mut = 400 if quick else 4000
    for _ in range(n_repr):
        prof, s = P.rand_string(rng)
        cases.append(_repr_case(s, P.rand_rest(rng), profile=prof))
    for _ in range(n_lex):
        cases.append({'kind': 'lex', 'text': P.rand_literal_text(rng), 'profile': 'literal'})
    for _ in range(n_mut):
        _, s = P.rand_string(rng)
        cases.append({'kind': 'lex', 'text': P.mutate_repr(rng, s[:40]), 'profile': 'mutated-repr'})
    # blocks of consecutive code points: the per-code-point part of repr, exhaustively in the thorough tier
    B = 512
    starts = list(range(0, 0x110000, B))
    if quick:
        starts = rng.sample(starts, 48) + [0]
    for lo in starts:
        cases.append(_block_case(lo, min(lo + B, 0x110000), cps(")")))
    rng.shuffle(cases)          # spreads the expensive block cases over the parallel Coq jobs
    return cases

# ------------------------------------------------------------------ model

def _printable_ranges(lo, n):
    out = []
    for c in range(max(lo, 128), lo + n):
        if chr(c).isprintable():
            if out and out[-1][1] == c - 1:
                out[-1][1] = c
            else:
                out.append([c, c])
    return out

def model_expr(case):
    if case['kind'] == 'repr' and case.get('block'):
        lo, n = case['block']
        assert case['s'] == list(range(lo, lo + n))
        return '(run_block [%s] %d%%N %d%%nat %s)' % ('; '.join('(%d, %d)%%N' % (a, b) for a, b in _printable_ranges(lo, n)), lo, n, g_cps(case['rest']))
    if case['kind'] == 'repr':
        tbl = P.printable_table(case['s'])
        return '(run_repr [%s] %s %s)' % ('; '.join('%d%%N' % c for c in tbl), g_cps(case['s']), g_cps(case['rest']))
    if case['kind'] == 'lex':
        return '(run_lex %s)' % g_cps(case['text'])
    return None

def _model_lex(o):
    """() -> None, ((s rest)) -> (cps, cps)"""
    if o == []:
        return None
    return [cps(o[0][0]), cps(o[0][1])]

# ------------------------------------------------------------------ implementation

PROLOG_TEMPLATE = "t(%s) :- %s(%s(%s)).\n"

def _string_tokens(pytext):
    out = []
    for tok in tokenize.generate_tokens(io.StringIO(pytext).readline):
        if tok.type == tokenize.STRING:
            out.append(tok.string)
    return out

def impl(case):
    if case['kind'] == 'db':
        return {'printable_surrogates': sum(chr(c).isprintable() for c in range(0xD800, 0xE000))}
    if case['kind'] == 'lex':
        return P.cpython_lex(to_s(case['text']))
    s = to_s(case['s'])
    rest = to_s(case['rest'])
    r = repr(s)
    o = {'repr': cps(r)}
    try:
        o['eval'] = (eval(r, {'__builtins__': {}}) == s) and (ast.literal_eval(r) == s)
    except Exception as e:
        o['eval'] = 'raised ' + type(e).__name__
    o['isprintable'] = r.isprintable()
    o['tok'] = P.cpython_lex(r + rest)
    # the compiler's own spelling of the string
    from yldprolog import yp_generator as G
    from yldprolog import compiler as C
    g = G.YPPythonCodeGenerator(C.CompilerContext).generate_expr(G.YPCodeExpr(s))
    o['gen'] = cps(g)
    o['gen_tok'] = P.cpython_lex(g + rest) if g != r else o['tok']
    if case.get('e2e'):
        q = "'" + s.replace("'", "\\'") + "'"
        try:
            text = C.compile_prolog_from_string(PROLOG_TEMPLATE % (q, q, q, q), C.CompilerContext)
        except Exception as e:
            o['e2e'] = ['raised', type(e).__name__, str(e)[:200]]
        else:
            try:
                toks = _string_tokens(text)
                consts = [n.value for n in ast.walk(ast.parse(text)) if isinstance(n, ast.Constant) and isinstance(n.value, str)]
                o['e2e'] = ['ok', [cps(t) for t in toks], [cps(c) for c in consts]]
            except Exception as e:
                o['e2e'] = ['unparsable', type(e).__name__, str(e)[:200]]
    return o

# ------------------------------------------------------------------ verdicts

def _no_triple(case):
    return bool(case['s']) or case['rest'][:1] != [39]

def oracle(case, io_):
    if not isinstance(io_, dict):
        return None
    k = case['kind']
    if k == 'db':
        if io_['printable_surrogates']:
            return 'the Unicode database of this interpreter has printable surrogates (premise of the theorem fails)'
        return None
    if k == 'lex':
        return None
    s, rest = case['s'], case['rest']
    if io_['eval'] is not True:
        return 'eval(repr(s)) != s (%s)' % io_['eval']
    if not io_['isprintable']:
        return 'repr(s) contains a non-printable code point'
    if any(c in (10, 13) or c < 32 or c == 127 for c in io_['repr']):
        return 'repr(s) contains a control character'
    for key, lit, what in (('tok', io_['repr'], 'repr(s)'), ('gen_tok', io_['gen'], "the compiler's spelling of s")):
        t = io_[key]
        triple = len(lit) == 2 and lit[0] == lit[1] and rest[:1] == lit[:1]
        if triple:
            if t['class'] == 'short':
                return "CPython lexes two quotes followed by a third as a short literal (triple-quote rule not applied?)"
            continue
        if t['class'] != 'short':
            return 'CPython does not lex %s + rest as a short literal (%s)' % (what, t['class'])
        if t['value'] != s or t['rest'] != rest:
            return 'CPython lexes %s + rest to a different string or a different end of the literal' % what
    e = io_.get('e2e')
    if e is not None:
        if e[0] != 'ok':
            return 'compiling a quoted atom failed or gave unparsable Python: %s' % (e[1:],)
        if e[2] != [s, s, s, s]:
            return 'the string constants of the compiled program are not the source text (atom / goal name / functor name positions)'
    return None

def compare(case, io_, mo):
    k = case['kind']
    if k == 'lex':
        m = _model_lex(mo[1])
        if m is None:
            if io_['class'] == 'short':
                return 'CPython lexes a short literal of the modelled sub-language, the model rejects it'
            return None
        if io_['class'] != 'short':
            return 'the model lexes a short literal, CPython does not (%s)' % io_['class']
        if m != [io_['value'], io_['rest']]:
            return 'model and CPython lex the literal to different strings / different ends'
        return None
    if k != 'repr':
        return None
    s, rest = case['s'], case['rest']
    mrepr = cps(mo[1])
    if mrepr != io_['repr']:
        return 'model py_repr differs from repr(s)'
    full, short = mo[2], mo[3]      # 0 rejected / 1 exactly (s, rest) / 2 something else
    if short != 1:
        return 'model lexer (short) on repr(s)+rest does not return (s, rest): theorem instance fails?!'
    if _no_triple(case):
        if full != 1:
            return 'model lexer on repr(s)+rest does not return (s, rest): theorem instance fails?!'
    elif full != 0:
        return 'model lexer ignores the triple-quote rule'
    if io_['gen'] != mrepr:
        back = io_['gen_tok'].get('class') == 'short' and io_['gen_tok'].get('value') == s and io_['gen_tok'].get('rest') == rest
        return ("the compiler's spelling of the string (generate_expr) is not py_repr s: the tie between the theorem and the "
                "code is broken (CPython %s lex this spelling back to s)" % ('does' if back else 'does NOT'))
    e = io_.get('e2e')
    if e is not None and e[0] == 'ok':
        if e[1] != [mrepr] * 4:
            return 'the string literals of the compiled program are not 4 x py_repr s'
    return None

def nontrivial(case, io_):
    if not isinstance(io_, dict):
        return False
    if case['kind'] == 'repr':
        return io_['repr'] != [39] + case['s'] + [39]
    if case['kind'] == 'lex':
        t = case['text']
        return 92 in t or io_['class'] != 'short' or (len(t) > 0 and (34 if t[0] == 39 else 39) in t)
    return False

def describe(case):
    if case['kind'] == 'repr':
        return {'s': ascii(to_s(case['s']))[:400], 'rest': ascii(to_s(case['rest'])), 'python_repr': ascii(repr(to_s(case['s'])))[:400]}
    if case['kind'] == 'lex':
        return {'text': ascii(to_s(case['text']))[:400]}
    return {'kind': case['kind']}

def shrink(case):
    if case['kind'] == 'repr':
        case = {k: v for k, v in case.items() if k != 'block'}     # a shrunk block is an ordinary string
        s = case['s']
        n = len(s)
        if n > 8:
            for a, b in ((0, n // 2), (n // 2, n), (n // 4, 3 * n // 4)):
                c = dict(case); c['s'] = s[a:b]; yield c
        for i in range(min(n, 40)):
            c = dict(case); c['s'] = s[:i] + s[i + 1:]; yield c
        if case['rest']:
            c = dict(case); c['rest'] = case['rest'][:-1]; yield c
    elif case['kind'] == 'lex':
        t = case['text']
        n = len(t)
        if n > 8:
            c = dict(case); c['text'] = t[:n // 2]; yield c
        for i in range(min(n, 40) - 1, 0, -1):
            c = dict(case); c['text'] = t[:i] + t[i + 1:]; yield c

def distribution(cases, obs):
    d = {'kind': {}, 'profile': {}, 'len': {}, 'quote': {'single': 0, 'double': 0}, 'escapes': {},
         'lex_class': {}, 'lex_model_domain': 0, 'e2e_compiled': 0, 'code_points_compared': 0}
    def bump(h, k):
        h[k] = h.get(k, 0) + 1
    for c, o in zip(cases, obs):
        bump(d['kind'], c['kind'])
        bump(d['profile'], c.get('profile', '-'))
        if not isinstance(o, dict):
            bump(d['kind'], 'harness-problem')
            continue
        if c['kind'] == 'repr':
            n = len(c['s'])
            bump(d['len'], '0' if n == 0 else '1' if n == 1 else '2-4' if n <= 4 else '5-16' if n <= 16 else '17-64' if n <= 64 else '65+')
            d['code_points_compared'] += n
            r = o['repr']
            d['quote']['single' if r[0] == 39 else 'double'] += 1
            rs = to_s(r)
            for esc in ('\\\\', "\\'", '\\n', '\\r', '\\t', '\\x', '\\u', '\\U'):
                if esc in rs:
                    bump(d['escapes'], esc)
            if any(x >= 128 for x in r):
                bump(d['escapes'], 'raw non-ASCII')
            if o.get('e2e') and o['e2e'][0] == 'ok':
                d['e2e_compiled'] += 1
        elif c['kind'] == 'lex':
            bump(d['lex_class'], o['class'])
            if o['class'] == 'short':
                d['lex_model_domain'] += 1
    return d
