"""C13 - a stored fact is an independent copy of the asserted term."""
import itertools
from lib import terms
from lib.terms import g_term, g_list, g_nat, g_str, g_bool
from props import dbcommon as D

ID = 'C13'
IMPORTS = ['Engine.Db', 'Engine.DbFacts', 'Engine.DbHeap', 'Engine.RunDb', 'Engine.DbHeapRet']
THEOREMS = ['C13_stored_value_at_assert_time', 'C13_stored_independent_of_later_heap', 'C13_answer_match_independent',
            'C13_two_uses_disjoint', 'C13_fact_vars_never_bound', 'C13_heap_invariant', 'C13_uses_see_stored_value',
            'C13_compiled_invariant', 'C13_compiled_invariant_big_step', 'C13_compiled_fact_vars_never_bound',
            'C13_compiled_uses_see_stored_value', 'C13_compiled_invariant_at_query_start',
            'C13_compiled_visits_covers_solutions', 'C13_sequential_uses_fresh', 'C13_fact_vars_never_escape',
            'C13_retained_answers_invariant']
RULE = ('(a) histories over a shared heap of 3-6 program variables: unifications that stay suspended (bindings before / after '
        'the assertion, chains, bindings inside structures), asserta/assertz of terms over those variables (builtin, compiled '
        'clause, assert_fact), closing and resuming suspended goals in LIFO order (backtracking), goals on the stored facts '
        'that stay suspended (two simultaneous uses, use from the asserting context); after every step all program variables '
        'and all predicates are read; compared with the model DbHeap.v.  (b) compiled clauses `t :- pre-bindings, '
        'assertz(p(T)), post-bindings`, disjunctive bindings with failure-driven assertion, two simultaneous uses and use by '
        'the asserting clause; compared with the value T had when asserted (computed by substitution).  Non-trivial: the '
        'asserted term contains a variable that is bound at assertion time, or the fact is non-ground and a goal on it '
        'succeeds at least twice.  Distinct by hash of the case.  (c) ACROSS TIME: the driver keeps the live objects of every '
        'answer it ever obtained (engine get_value at the answer: goals, their redo answers, every row of every read-back) and '
        'renders all of them again after every step, variables numbered jointly with the program variables (sharing between '
        'answers of different uses is part of the observation); histories contain findall/3 on the facts (suspended at the '
        'unification with the bag), uses that are run to their end one after the other, steps that instantiate the answer of the '
        'latest use; the facts are read back after every step or only at the end; compared with Engine/DbHeapRet.v; oracle: the '
        'variables an answer brings in were never seen before.  Compiled templates seq_findall / seq_twice: findall, then a '
        'later use that is instantiated; two findalls instantiated differently.')
TRUSTED_BASE = [
    'Coq 8.16.1 kernel (coqc); vm_compute for the in-Coq evaluation of the model on every case',
    'no axioms: all C13 theorems are closed under the global context',
    'hand-written model Engine/DbFacts.v (copy_term / Answer.__init__ / Answer.match), Engine/DbHeap.v (shared heap, LIFO '
    'generators) and Engine/DbHeapRet.v (findall/3, retained answers) tied to /repo by this differential run',
    'harness: generators, driver of the implementation (harness/props/c13.py), expected values of the program templates',
    'modelled, not verified: CPython generator protocol and finalisation order (LIFO close of suspended generators)',
]
ASSUMPTIONS = ['suspended generators are resumed and closed in LIFO order (what compiled code does)',
               'unifications that would build a cyclic term (model: stuck) are unspecified; the comparison stops there']
CASE_TIMEOUT = 10
COQ_CHUNK = 40

# ------------------------------------------------------------------ model side

def g_op(o):
    k = o[0]
    if k == 'findall':
        return '(RFindall %s %s %s %s)' % (g_term(o[1]), g_str(o[2]), g_list([g_term(a) for a in o[3]]), g_term(o[4]))
    if k == 'kept':
        return 'RKept'
    return '(RBase %s)' % g_hop(o)

def g_hop(o):
    k = o[0]
    if k == 'unify':
        return '(HUnify %s %s)' % (g_term(o[1]), g_term(o[2]))
    if k == 'assert':
        return '(HAssert %s %s)' % (g_bool(o[1]), g_term(o[2]))
    if k == 'call':
        return '(HCall %s %s)' % (g_str(o[1]), g_list([g_term(a) for a in o[2]]))
    if k == 'redo':
        return 'HRedo'
    if k == 'pop':
        return 'HPop'
    if k == 'obs':
        return '(HObs %s)' % g_list([g_term(a) for a in o[1]])
    if k == 'read':
        return '(HRead %s %s)' % (g_str(o[1]), g_nat(o[2]))
    raise ValueError(o)

def reads_at(case, i):
    """are the stored facts read back (each key with an all-variable goal, run to exhaustion) after step i?
    'every': after every step; 'end': only after the last one (then the uses of the facts are exactly those of the history)"""
    return case.get('reads', 'every') == 'every' or i == len(case['ops']) - 1

def extra_ops(case, i):
    ex = [['obs', [['v', j] for j in range(case['nvars'])]]]
    if reads_at(case, i):
        ex += [['read', n, ar] for n, ar in case['keys']]
    return ex + [['kept']]

def model_expr(case):
    if case.get('kind') == 'prog':
        return None
    ops = []
    for i, o in enumerate(case['ops']):
        ops.append(g_op(o))
        ops.extend(g_op(x) for x in extra_ops(case, i))
    return '(run_heap_ret 200 %s %s)' % (g_nat(case['nvars']), g_list(ops))

def canon_obs(o):
    if isinstance(o, list) and o and o[0] in ('ans', 'seen'):
        return [o[0], D.canon_args(o[1])]
    if isinstance(o, list) and o and o[0] == 'all':
        return ['all', [D.canon_args(a) for a in o[1]]]
    return o

def canon_joint(seen, kept):
    """the program variables and ALL retained answers, variables renamed by first occurrence over the whole lot:
    which answers share a variable with which is part of the observation"""
    flat = list(seen) + [t for a in kept for t in a]
    c = D.canon_args(flat)
    out, k = [], len(seen)
    for a in kept:
        out.append(c[k:k + len(a)]); k += len(a)
    return c[:len(seen)], out

def split_model(case, mo):
    out = []
    stuck = None
    pos = 0
    for i in range(len(case['ops'])):
        w = 2 + len(extra_ops(case, i)) - 1
        chunk = mo[pos:pos + w]
        pos += w
        if len(chunk) < w or any(c == ['stuck'] for c in chunk):
            stuck = i
            break
        if chunk[1][0] != 'seen' or chunk[-1][0] != 'kept':
            raise ValueError('model output out of step: %r' % (chunk,))
        seen, kept = canon_joint(chunk[1][1], chunk[-1][1])
        rb = [canon_obs(c)[1] for c in chunk[2:-1]] if reads_at(case, i) else None
        out.append([canon_obs(chunk[0]), seen, rb, kept])
    return out, stuck

# ------------------------------------------------------------------ implementation side

def drive(case):
    from yldprolog import engine as E
    d = D.Driver()
    yp = d.yp
    T = terms.ImplTerms(yp, case['nvars'])     # ONE table of Variable objects for the whole history (identity of variables)
    T.reuse = case.get('id', 0) % 2 == 0         # every second history: a term that is built again is the same engine object
    stack = []
    out = []
    kept = []          # every answer ever obtained: the live objects returned by the engine's get_value at that moment
    def read_objs(objs):
        try:
            return [T.read(o) for o in objs]
        except RecursionError:
            raise D.Deep()
    def read_list(objs):
        return D.canon_args([terms.term_obs(t) for t in read_objs(objs)])
    def varset(ts):
        vs = []
        for t in ts:
            terms.term_vars(t, vs)
        return set(vs)
    def answer(objs, before, stale):
        """the goal (arguments objs, which mentioned the variables `before` when it started) is at an answer: retain it;
        the variables that the answer brought in must be variables nobody has ever seen"""
        known = len(T.vars)
        now = read_objs(objs)
        for v in sorted(varset(now) - before):
            if v < known:
                stale.append(v)
        kept.append([E.get_value(o) for o in objs])
        return D.canon_args([terms.term_obs(t) for t in now])
    def readback(keys, stale):
        res = []
        for n, ar in keys:
            ws = [yp.variable() for _ in range(ar)]
            before = varset(read_objs(ws))
            rows = []
            g = yp.query(n, ws)
            for _ in g:
                rows.append(answer(ws, before, stale))
                if len(rows) > 5000:
                    g.close()
                    raise RuntimeError('read-back does not end')
            res.append(rows)
        return res
    try:
        for i, o in enumerate(case['ops']):
            try:
                k = o[0]
                extra = None
                stale = []
                if k == 'unify':
                    g = iter(E.unify(T.build(o[1]), T.build(o[2])))
                    try:
                        next(g); stack.append((g, None, None)); r = ['ok']
                    except StopIteration:
                        r = ['fail']
                elif k == 'findall':
                    tmpl, name, args, bag = o[1], o[2], o[3], o[4]
                    objs = [T.build(a) for a in args]
                    goal = yp.functor(name, objs) if objs else yp.atom(name)
                    g = yp.query('findall', [T.build(tmpl), goal, T.build(bag)])
                    try:
                        next(g); stack.append((g, None, None)); r = ['ok']
                    except StopIteration:
                        r = ['fail']
                elif k == 'assert':
                    front, t, via = o[1], o[2], o[3]
                    obj = T.build(t)
                    # the value the term has now, read by the harness itself (not by get_value)
                    val = T.read(obj)
                    extra = None
                    if val[0] == 'f':
                        extra = [val[1], D.canon_args([terms.term_obs(a) for a in val[2]])]
                    elif val[0] == 'a':
                        extra = [val[1], []]
                    if via == 'api':
                        res = yp.assert_fact(yp.atom(t[1]), [T.build(a) for a in (t[2] if t[0] == 'f' else [])], not front)
                        r = ['ok'] if res is None else ['returned']
                    else:
                        name = ('w_' if via == 'compiled' else '') + ('asserta' if front else 'assertz')
                        r = d.once_builtin(name, obj)
                elif k == 'call':
                    name, args, via = o[1], o[2], o[3]
                    objs = [T.build(a) for a in args]
                    before = varset(read_objs(objs))
                    if via == 'api':
                        g = yp.query(name, objs)
                    elif via == 'compiled':
                        g = yp.query('wq_%s_%d' % (name, len(objs)), objs)
                    else:
                        g = yp.query('call', [yp.functor(name, objs) if objs else yp.atom(name)])
                    try:
                        next(g); stack.append((g, objs, before)); r = ['ans', answer(objs, before, stale)]
                    except StopIteration:
                        r = ['fail']
                elif k == 'redo':
                    if not stack:
                        r = ['bad']
                    else:
                        g, objs, before = stack[-1]
                        try:
                            next(g)
                            r = ['ans', answer(objs, before, stale)] if objs is not None else ['generator-yielded-twice']
                        except StopIteration:
                            stack.pop(); r = ['end']
                elif k == 'pop':
                    if not stack:
                        r = ['bad']
                    else:
                        g = stack.pop()[0]; g.close(); r = ['ok']
                else:
                    raise ValueError(o)
                seen_now = read_objs(T.vars[:case['nvars']])
                rb = readback(case['keys'], stale) if reads_at(case, i) else None
                kept_now = [read_objs(a) for a in kept]
                to_obs = lambda ts: [terms.term_obs(t) for t in ts]
                seen, keptc = canon_joint(to_obs(seen_now), [to_obs(a) for a in kept_now])
            except (D.Deep, RecursionError):
                out.append(['deep']); break
            except Exception as ex:
                out.append(['raised', type(ex).__name__, str(ex)[:200]]); break
            out.append([r, seen, rb, extra, keptc, stale])
    finally:
        for e in reversed(stack):
            try:
                e[0].close()
            except Exception:
                pass
        d.finish()
    return out

def compare(case, io, mo):
    m, stuck = split_model(case, mo)
    for i, (a, b) in enumerate(itertools.zip_longest(io, m)):
        if stuck is not None and i >= stuck:
            return None
        if a is None or b is None:
            return 'step %d: implementation produced %r, model %r' % (i, a, b)
        if a == ['deep']:
            return 'step %d: implementation built a cyclic/deep term, the model did not' % i
        if a[0] == 'raised':
            return 'step %d %r: implementation raised %s (%s)' % (i, case['ops'][i], a[1], a[2])
        if a[0] != b[0]:
            return 'step %d %s: implementation %r, model %r' % (i, show_op(case['ops'][i]), a[0], b[0])
        if a[1] != b[1]:
            return 'after step %d %s: program variables are %r, model %r' % (i, show_op(case['ops'][i]), a[1], b[1])
        if a[2] != b[2]:
            return 'after step %d %s: stored facts read back as %r, model %r' % (i, show_op(case['ops'][i]), a[2], b[2])
        if a[4] != b[3]:
            bad = [j for j, (x, y) in enumerate(itertools.zip_longest(a[4], b[3])) if x != y]
            j = bad[0]
            return ('after step %d %s: the retained answers (every answer obtained so far, kept by the caller and looked at again now) '
                    'differ from the model at answer #%d of %d: implementation %r, model %r'
                    % (i, show_op(case['ops'][i]), j, len(a[4]), a[4][j] if j < len(a[4]) else None, b[3][j] if j < len(b[3]) else None))
    return None

def heap_oracle(case, io):
    keys = [tuple(k) for k in case['keys']]
    prev = [[] for _ in keys]
    pending = [[] for _ in keys]       # asserts since the last read-back: (front, args)
    for i, (o, x) in enumerate(zip(case['ops'], io)):
        if x == ['deep']:
            return None
        if x[0] == 'raised':
            return 'step %d %s raised %s: %s' % (i, show_op(o), x[1], x[2])
        r, seen, rb, extra, kept, stale = x
        if stale:
            return ('step %d %s: an answer of a use of a stored fact brought in variables that are not new (they occur in an answer '
                    'obtained earlier or in the program\'s terms): variable(s) #%s' % (i, show_op(o), ','.join(map(str, stale))))
        for j, kk in enumerate(keys):
            if o[0] == 'assert' and extra is not None and (extra[0], len(extra[1])) == kk:
                if r != ['ok']:
                    return 'step %d: assert did not succeed exactly once' % i
                pending[j].append((o[1], extra[1]))
            if rb is None:
                continue
            want = prev[j]
            for front, args in pending[j]:
                want = [args] + want if front else want + [args]
            if rb[j] != want:
                if pending[j]:
                    return ('step %d %s: the stored facts are not the values the terms had when they were asserted: facts %r, expected %r'
                            % (i, show_op(o), rb[j], want))
                return 'step %d %s changed what the stored facts of %s/%d match: %r -> %r' % (i, show_op(o), kk[0], kk[1], prev[j], rb[j])
            pending[j] = []
        if rb is not None:
            prev = rb
    return None

# ------------------------------------------------------------------ compiled clauses with expected values

def pl_term(t, names):
    k = t[0]
    if k == 'a':
        return t[1]
    if k == 'i':
        return str(t[1])
    if k == 'v':
        return names[t[1]]
    if t[1] == '.' and len(t[2]) == 2:
        return "'.'(%s,%s)" % (pl_term(t[2][0], names), pl_term(t[2][1], names)) if False else '[%s|%s]' % (pl_term(t[2][0], names), pl_term(t[2][1], names))
    return '%s(%s)' % (t[1], ','.join(pl_term(a, names) for a in t[2]))

def subst(t, s):
    """apply a triangular substitution exhaustively"""
    if t[0] == 'v':
        return subst(s[t[1]], s) if t[1] in s else t
    if t[0] == 'f':
        return ['f', t[1], [subst(a, s) for a in t[2]]]
    return t

def occurs(v, t, s):
    t = subst(t, s)
    return v in terms.term_vars(t)

def small_term(rng, nv, depth, pvar=0.4, lists=True):
    q = rng.random()
    if depth <= 0 or q < 0.3:
        if rng.random() < pvar:
            return ['v', rng.randrange(nv)]
        return rng.choice([['a', 'a'], ['a', 'b'], ['i', 1], ['a', '[]'] if lists else ['a', 'c']])
    if q < 0.45:
        return ['v', rng.randrange(nv)]
    f, n = rng.choice([('f', 1), ('g', 2), ('f', 1), ('.', 2) if lists else ('h', 2)])
    return ['f', f, [small_term(rng, nv, depth - 1, pvar, lists) for _ in range(n)]]

def gen_bindings(rng, nv, s, count):
    """`V = term` goals that succeed and keep the substitution acyclic"""
    goals = []
    for _ in range(count):
        free = [v for v in range(nv) if v not in s]
        if not free:
            break
        v = rng.choice(free)
        t = small_term(rng, nv, rng.choice([0, 1, 1, 2]), pvar=0.5, lists=False)
        if occurs(v, t, s):
            continue
        if subst(t, s) == ['v', v]:
            continue
        s[v] = t
        goals.append((v, t))
    return goals

def gen_prog(rng):
    nv = rng.choice([2, 3, 4, 5])
    names = ['V%d' % i for i in range(nv)]
    kind = rng.choice(['assert_time', 'assert_time', 'assert_time', 'backtrack', 'two_uses', 'self_use', 'seq_findall', 'seq_twice'])
    ar = rng.choice([1, 1, 2])
    T = [small_term(rng, nv, rng.choice([0, 1, 2, 2]), pvar=0.6, lists=False) for _ in range(ar)]
    s = {}
    pre = gen_bindings(rng, nv, s, rng.choice([0, 1, 2, 3]))
    stored = [subst(t, s) for t in T]
    s2 = dict(s)
    post = gen_bindings(rng, nv, s2, rng.choice([0, 1, 2]))
    az = rng.choice(['assertz', 'assertz', 'asserta'])
    eq = lambda vt: '%s = %s' % (names[vt[0]], pl_term(vt[1], names))
    head_p = 'p(%s)' % ','.join(pl_term(t, names) for t in T)
    c = {'kind': 'prog', 'template': kind, 'nvars': nv, 'read': [['p', ar]]}
    canon = lambda row: [terms.term_obs(t) for t in terms.rename_canonical(row)]
    if kind == 'assert_time':
        body = [eq(b) for b in pre] + ['%s(%s)' % (az, head_p)] + [eq(b) for b in post]
        c['source'] = 't :- %s.\n' % ', '.join(body)
        c['query'] = ['t', 0]
        c['expect_count'] = 1
        c['expect_db'] = {'p': [canon(stored)]}
        c['bound_inside'] = any(v in s for t in T for v in terms.term_vars(t))
    elif kind == 'backtrack':
        # ( V = a ; V = b ), assertz(p(T)), fail.   each stored value reflects the binding of its own branch
        free = [v for v in range(nv) if v not in s]
        if not free:
            return gen_prog(rng)
        v = rng.choice(free)
        alts = [['a', 'a'], ['f', 'f', [['a', 'b']]], ['i', 2]][:rng.choice([2, 3])]
        body = [eq(b) for b in pre] + ['( %s )' % ' ; '.join('%s = %s' % (names[v], pl_term(a, names)) for a in alts),
                                       'assertz(%s)' % head_p, 'fail']
        c['source'] = 't :- %s.\nt.\n' % ', '.join(body)
        c['query'] = ['t', 0]
        c['expect_count'] = 1
        rows = []
        for a in alts:
            sa = dict(s); sa[v] = a
            rows.append(canon([subst(t, sa) for t in T]))
        c['expect_db'] = {'p': rows}
        c['bound_inside'] = any(v in terms.term_vars(subst(t, s)) for t in T)
    elif kind == 'two_uses':
        vs = sorted({v for t in stored for v in terms.term_vars(t)})
        ia = [subst(t, {v: ['a', 'a'] for v in vs}) for t in stored]
        ib = [subst(t, {v: ['a', 'b'] for v in vs}) for t in stored]
        use = lambda row: 'p(%s)' % ','.join(pl_term(t, names) for t in row)
        body = [eq(b) for b in pre] + ['%s(%s)' % (az, head_p), use(ia), use(ib)] + [eq(b) for b in post]
        c['source'] = 't :- %s.\n' % ', '.join(body)
        c['query'] = ['t', 0]
        c['expect_count'] = 1
        c['expect_db'] = {'p': [canon(stored)]}
        c['nonground_twice'] = bool(vs)
        c['bound_inside'] = any(v in s for t in T for v in terms.term_vars(t))
    elif kind in ('seq_findall', 'seq_twice'):
        # one use of the fact AFTER the other; the answers of the use that ended are still held (findall keeps them in its
        # list), then the later use is instantiated: the held answers must stay as they were
        vs = sorted({v for t in stored for v in terms.term_vars(t)})
        ia = [subst(t, {v: ['a', 'a'] for v in vs}) for t in stored]
        ib = [subst(t, {v: ['a', 'b'] for v in vs}) for t in stored]
        xs = ['X%d' % i for i in range(ar)]
        ys = ['Y%d' % i for i in range(ar)]
        row = lambda ts: 'r(%s)' % ','.join(ts)
        fa = lambda bag: 'findall(%s, p(%s), %s)' % (row(xs), ','.join(xs), bag)
        plrow = lambda ts: row([pl_term(t, names) for t in ts])
        body = [eq(b) for b in pre] + ['%s(%s)' % (az, head_p)]
        if kind == 'seq_findall':
            body += [fa('L'), 'p(%s)' % ','.join(ys)] + ['%s = %s' % (y, pl_term(t, names)) for y, t in zip(ys, ia)]
            c['source'] = 't(%s) :- %s.\n' % (','.join(['L'] + ys), ', '.join(body + [eq(b) for b in post]))
            c['query'] = ['t', 1 + ar]
            c['expect_answers'] = [canon([terms.mklist([['f', 'r', stored]])] + ia)]
        else:
            body += [fa('L1'), fa('L2'), 'L1 = [%s]' % plrow(ia), 'L2 = [%s]' % plrow(ib)]
            c['source'] = 't(L1,L2) :- %s.\n' % ', '.join(body + [eq(b) for b in post])
            c['query'] = ['t', 2]
            c['expect_answers'] = [canon([terms.mklist([['f', 'r', ia]]), terms.mklist([['f', 'r', ib]])])]
        c['expect_db'] = {'p': [canon(stored)]}
        c['nonground_twice'] = bool(vs)
        c['bound_inside'] = any(v in s for t in T for v in terms.term_vars(t))
    else:
        # t(V0..Vn) :- assertz(p(T)), p(T with its variables replaced by a).   The use must not bind the clause's variables
        vs = sorted({v for t in T for v in terms.term_vars(t)})
        ia = [subst(t, {v: ['a', 'a'] for v in vs}) for t in T]
        c['source'] = 't(%s) :- %s(%s), p(%s).\n' % (','.join(names), az, head_p, ','.join(pl_term(t, names) for t in ia))
        c['query'] = ['t', nv]
        c['expect_answers'] = [[terms.term_obs(['v', i]) for i in range(nv)]]
        c['expect_db'] = {'p': [canon(T)]}
        c['nonground_twice'] = bool(vs)
    return c

def run_prog(case):
    from yldprolog import engine as E, compiler
    yp = E.YP()
    yp.load_script_from_string(compiler.compile_prolog_from_string(case['source']))
    name, ar = case['query']
    T = terms.ImplTerms(yp)
    vs = [T.var(i) for i in range(ar)]
    answers = []
    for _ in yp.query(name, vs):
        answers.append(D.canon_args([terms.term_obs(T.read(v)) for v in vs]))
        if len(answers) > 50:
            return {'end': 'too-many-answers', 'answers': answers}
    db = {}
    for n, a in case['read']:
        T = terms.ImplTerms(yp)
        ws = [T.var(i) for i in range(a)]
        rows = []
        for _ in yp.query(n, ws):
            rows.append(D.canon_args([terms.term_obs(T.read(v)) for v in ws]))
        db[n] = rows
    return {'end': 'done', 'answers': answers, 'db': db}

def prog_oracle(case, io):
    if not isinstance(io, dict):
        return None
    if io['end'] != 'done':
        return io['end']
    if 'expect_answers' in case and io['answers'] != case['expect_answers']:
        return 'answers %r, expected %r (a use of the fact constrained the asserting clause or another use of the fact)' % (io['answers'], case['expect_answers'])
    if 'expect_count' in case and len(io['answers']) != case['expect_count']:
        return '%d answers, expected %d' % (len(io['answers']), case['expect_count'])
    for n, rows in case['expect_db'].items():
        if io['db'].get(n) != rows:
            return 'stored facts of %s read back as %r, expected the value at assertion time %r' % (n, io['db'].get(n), rows)
    return None

# ------------------------------------------------------------------ generation of heap histories

def ground_instance(rng, args):
    """the terms args with every variable replaced by a constant (the same variable by the same constant)"""
    vs = sorted({v for t in args for v in terms.term_vars(t)})
    m = {v: rng.choice([['a', 'a'], ['a', 'b'], ['i', 1], ['f', 'f', [['a', 'b']]]]) for v in vs}
    return [subst(t, m) for t in args]

def gen_heap(rng):
    nv = rng.choice([3, 4, 5, 6])
    keys = [('p', rng.choice([1, 1, 2]))]
    if rng.random() < 0.3:
        keys.append(('q', rng.choice([0, 1, 2])))
    ops = []
    prev_asserts = []
    last_fact = {}
    n = rng.choice([4, 6, 9, 12, 16])
    reads = 'every' if rng.random() < (0.6 if n <= 9 else 0.3) else 'end'
    # sequential: uses of a fact tend to be run to their end before the next one starts (one use after the other,
    # the answers of the finished use are still held by the caller); otherwise uses pile up (simultaneous uses)
    sequential = rng.random() < 0.5
    depth = 0          # optimistic estimate of the number of suspended generators
    dep = {}           # variable -> variables its (possible) value mentions
    last_call = None   # arguments of the most recent goal / findall template on a stored fact: (key, args)
    def note_binding(v, t):
        tv = terms.term_vars(t)
        dep.setdefault(v, set()).update(tv)
        if t[0] == 'v':
            dep.setdefault(t[1], set()).add(v)
    def closure(tv):
        clo = set(tv)
        for _ in range(nv):
            clo |= {y for x in clo for y in dep.get(x, ())}
        return clo
    guard = 0
    while len(ops) < n and guard < 400:
        guard += 1
        q = rng.random()
        k = rng.choice(keys) if rng.random() < 0.3 else keys[0]
        if q < 0.24:
            v = ['v', rng.randrange(nv)]
            t = small_term(rng, nv, rng.choice([0, 1, 1, 2]), pvar=0.5)
            if v[1] in closure(terms.term_vars(t)) and rng.random() < 0.92:
                continue          # X = f(X), possibly through earlier bindings: cyclic, unspecified
            note_binding(v[1], t)
            ops.append(['unify', v, t] if rng.random() < 0.8 else ['unify', t, v])
            depth += 1
        elif q < 0.32:
            # instantiate the answer of the most recent use: its arguments = an instance of the fact it can have matched
            if last_call is None or last_call[0] not in last_fact:
                continue
            kk, cargs = last_call
            inst = ground_instance(rng, last_fact[kk])
            if len(inst) != len(cargs):
                continue
            for a, b in zip(cargs, inst):
                if a[0] == 'v' or rng.random() < 0.7:
                    ops.append(['unify', a, b]); depth += 1
                    for v in terms.term_vars(a):
                        note_binding(v, b)
        elif q < 0.52:
            if prev_asserts and rng.random() < 0.25:
                # the caller asserts a term it has asserted before (with ImplTerms.reuse: the very same engine object), while
                # the bindings of its variables may have changed in between
                t = rng.choice(prev_asserts)
                ops.append(['assert', rng.random() < 0.3, t, rng.choice(['api', 'api', 'builtin', 'compiled'])])
                last_fact[(t[1], len(t[2]) if t[0] == 'f' else 0)] = t[2] if t[0] == 'f' else []
                continue
            args = [small_term(rng, nv, rng.choice([0, 1, 2, 2]), pvar=0.65) for _ in range(k[1])]
            t = ['f', k[0], args] if args else ['a', k[0]]
            prev_asserts.append(t)
            via = rng.choice(['builtin', 'builtin', 'compiled', 'api'])
            tv = closure(terms.term_vars(t))
            cand = [x for x in range(nv) if x not in tv and x not in dep]
            if cand and rng.random() < 0.25:
                # the goal itself arrives in a bound variable
                g = rng.choice(cand)
                dep.setdefault(g, set()).update(tv)
                ops.append(['unify', ['v', g], t]); depth += 1
                ops.append(['assert', rng.random() < 0.3, ['v', g], rng.choice(['builtin', 'compiled'])])
            else:
                ops.append(['assert', rng.random() < 0.3, t, via])
            last_fact[k] = args
        elif q < 0.78:
            if k in last_fact and rng.random() < 0.6:
                args = [terms.mutate_term(rng, a, nv, 1) if rng.random() < 0.5 else ['v', rng.randrange(nv)] for a in last_fact[k]]
                args = [a if a[0] != 's' and (a[0] != 'i' or abs(a[1]) < 100) else ['a', 'a'] for a in args]
                if len(args) != k[1]:
                    args = [['v', rng.randrange(nv)] for _ in range(k[1])]
            else:
                args = [small_term(rng, nv, rng.choice([0, 0, 1]), pvar=0.85) for _ in range(k[1])]
            if rng.random() < 0.22:
                # findall(Template, k(args), Bag): the use runs to its end inside, the answers stay in Bag
                avs = terms.term_vars(['f', 'x', args])
                free = [x for x in range(nv) if x not in closure(avs) and x not in dep]
                if not free:
                    continue
                bag = rng.choice(free)
                tq = rng.random()
                if tq < 0.5 and args:
                    tmpl = rng.choice(args)
                elif tq < 0.85:
                    tmpl = ['f', 'r', list(args)]
                else:
                    tmpl = small_term(rng, nv, 1, pvar=0.7)
                if bag in closure(terms.term_vars(tmpl)):
                    continue
                dep.setdefault(bag, set()).update(closure(terms.term_vars(tmpl)) | set(avs))
                ops.append(['findall', tmpl, k[0], args, ['v', bag]])
                depth += 1
                last_call = (k, args)
                continue
            ops.append(['call', k[0], args, rng.choice(['api', 'api', 'compiled', 'call'])])
            depth += 1
            last_call = (k, args)
            for a in args:
                for v in terms.term_vars(a):
                    dep.setdefault(v, set())
            if sequential and rng.random() < 0.7:
                # run this use to its end (every redo gives the next answer, the last one ends it)
                for _ in range(rng.choice([1, 2, 2, 3])):
                    ops.append(['redo'])
        elif q < 0.9:
            if depth > 0:
                ops.append(['pop']); depth -= 1
        else:
            if depth > 0:
                ops.append(['redo'])
    if rng.random() < 0.4:
        # the end of the history: every generator that is still suspended is closed (all bindings undone); the retained
        # answers are looked at once more after each of these steps
        for _ in range(min(depth, 8)):
            ops.append(['pop'])
    return {'kind': 'heap', 'nvars': nv, 'ops': ops, 'keys': [list(k) for k in keys], 'reads': reads}

def gen(rng, tier):
    cases = [gen_heap(rng) for _ in range(260 if tier == 'quick' else 4000)]
    cases += [gen_prog(rng) for _ in range(200 if tier == 'quick' else 3000)]
    return cases

def builtin_corpus():
    v = lambda i: ['v', i]
    f = lambda n, *xs: ['f', n, list(xs)]
    a, b = ['a', 'a'], ['a', 'b']
    L = []
    def c(nv, keys, *ops):
        L.append({'kind': 'heap', 'nvars': nv, 'keys': [list(k) for k in keys], 'ops': [list(o) for o in ops]})
    # D14: X = f(Y), Y = a, assertz(p(X)); end the query; the fact must be p(f(a))
    c(2, [('p', 1)], ['unify', v(0), f('f', v(1))], ['unify', v(1), a], ['assert', False, f('p', v(0)), 'builtin'], ['pop'], ['pop'],
      ['call', 'p', [v(0)], 'api'])
    # binding after the assertion must not reach the fact
    c(2, [('p', 1)], ['unify', v(0), f('f', v(1))], ['assert', False, f('p', v(0)), 'builtin'], ['unify', v(1), a], ['pop'], ['pop'])
    # assertz(p(_)), p(a), p(b): two simultaneous uses
    c(1, [('p', 1)], ['assert', False, f('p', v(0)), 'builtin'], ['call', 'p', [a], 'api'], ['call', 'p', [b], 'api'])
    # sharing inside the fact is kept: p(X,X)
    c(3, [('p', 2)], ['assert', False, f('p', v(0), v(0)), 'api'], ['call', 'p', [a, v(1)], 'api'], ['call', 'p', [v(2), b], 'compiled'],
      ['call', 'p', [a, b], 'api'])
    # use from the asserting context: the clause variable stays unbound
    c(2, [('p', 1)], ['assert', False, f('p', f('f', v(0))), 'compiled'], ['call', 'p', [f('f', a)], 'call'], ['call', 'p', [v(1)], 'api'],
      ['unify', v(1), f('f', b)], ['redo'])
    # goal in a bound variable, chain of variables
    c(4, [('p', 1)], ['unify', v(0), v(1)], ['unify', v(1), v(2)], ['unify', v(3), f('p', f('g', v(0), v(2)))], ['assert', False, v(3), 'builtin'],
      ['unify', v(2), a], ['pop'], ['pop'], ['pop'], ['pop'])
    # one use after the other: the first use ends, its answer is kept; the second use is instantiated
    c(3, [('p', 1)], ['assert', False, f('p', f('f', v(2))), 'builtin'], ['call', 'p', [v(0)], 'api'], ['redo'],
      ['call', 'p', [v(1)], 'api'], ['unify', v(1), f('f', a)], ['pop'], ['pop'])
    L[-1]['reads'] = 'end'
    # findall keeps the answers of a finished use; the next use is instantiated: the list must not change
    c(4, [('p', 1)], ['assert', False, f('p', f('f', v(3))), 'api'], ['findall', v(0), 'p', [v(0)], v(1)],
      ['call', 'p', [v(2)], 'compiled'], ['unify', v(2), f('f', a)], ['redo'], ['redo'], ['redo'])
    L[-1]['reads'] = 'end'
    # two findalls in sequence, instantiated differently
    c(4, [('p', 2)], ['assert', False, f('p', v(3), f('g', v(3), v(2))), 'builtin'], ['findall', f('r', v(0), v(1)), 'p', [v(0), v(1)], v(2)],
      ['findall', v(1), 'p', [a, v(1)], v(3)], ['unify', v(2), terms.mklist([f('r', a, f('g', a, b))])],
      ['unify', v(3), terms.mklist([f('g', a, a)])])
    for src, q, exp in [
        ('t :- X = f(Y), Y = a, assertz(p(X)).\n', ['t', 0], [[terms.term_obs(f('f', a))]]),
        ('t :- X = f(Y), assertz(p(X)), Y = a.\n', ['t', 0], [[terms.term_obs(f('f', v(0)))]]),
        ('t :- assertz(p(_)), p(a), p(b).\n', ['t', 0], [[terms.term_obs(v(0))]]),
    ]:
        L.append({'kind': 'prog', 'template': 'corpus', 'nvars': 2, 'source': src, 'query': q, 'read': [['p', 1]],
                  'expect_count': 1, 'expect_db': {'p': exp}, 'bound_inside': True})
    # one use after the other; findall holds the answers of the first
    fa_ = f('f', a); fb_ = f('f', b); fv = f('f', v(0))
    for src, q, ans in [
        ('t(L,Y) :- assertz(p(f(_))), findall(X, p(X), L), p(Y), Y = f(a).\n', ['t', 2], [terms.mklist([fv]), fa_]),
        ('t(L1,L2) :- assertz(p(f(_))), findall(X, p(X), L1), findall(X, p(X), L2), L1 = [f(a)], L2 = [f(b)].\n', ['t', 2],
         [terms.mklist([fa_]), terms.mklist([fb_])]),
        ('u(Y) :- p(Y), Y = f(b).\nt(L,M) :- assertz(p(f(_))), findall(X, p(X), L), findall(Y, u(Y), M).\n', ['t', 2],
         [terms.mklist([fv]), terms.mklist([fb_])]),
    ]:
        L.append({'kind': 'prog', 'template': 'corpus-seq', 'nvars': 2, 'source': src, 'query': q, 'read': [['p', 1]],
                  'expect_answers': [[terms.term_obs(t) for t in ans]], 'expect_db': {'p': [[terms.term_obs(fv)]]},
                  'nonground_twice': True})
    return L

def impl(case):
    if case.get('kind') == 'prog':
        return run_prog(case)
    return drive(case)

def oracle(case, io):
    if case.get('kind') == 'prog':
        return prog_oracle(case, io)
    return heap_oracle(case, io)

def nontrivial(case, io):
    if case.get('kind') == 'prog':
        return isinstance(io, dict) and bool(case.get('bound_inside') or case.get('nonground_twice'))
    prev_seen = None
    nonground = False
    succ = 0
    for o, x in zip(case['ops'], io):
        if len(x) != 6:
            break
        if o[0] == 'assert':
            vs = terms.term_vars(o[2])
            if prev_seen is not None:
                for v in vs:
                    if prev_seen[v][0] != 3:
                        return True
            if x[3] and any(terms.term_vars(terms.obs_term(a)) for a in x[3][1]):
                nonground = True
        if (o[0] in ('call', 'redo') and x[0][0] == 'ans' or o[0] == 'findall' and x[0] == ['ok']) and nonground:
            succ += 1
            if succ >= 2:
                return True
        # seen is canonical: a program variable that is unbound and unaliased shows as [3, n]
        prev_seen = x[1]
    return False

def show_op(o):
    st = terms.show_term
    if o[0] == 'unify':
        return '%s = %s' % (st(o[1]), st(o[2]))
    if o[0] == 'assert':
        return '%s(%s) [%s]' % ('asserta' if o[1] else 'assertz', st(o[2]), o[3])
    if o[0] == 'call':
        return '%s(%s) [%s]' % (o[1], ','.join(st(a) for a in o[2]), o[3])
    if o[0] == 'findall':
        return 'findall(%s, %s(%s), %s)' % (st(o[1]), o[2], ','.join(st(a) for a in o[3]), st(o[4]))
    return o[0]

def describe(case):
    if case.get('kind') == 'prog':
        return {'program': case['source'], 'query': case['query']}
    return [show_op(o) for o in case['ops']]

def shrink(case):
    if case.get('kind') == 'prog':
        return
    ops = case['ops']
    for cut in (len(ops) // 2, len(ops) - 1):
        if 0 < cut < len(ops):
            c = dict(case); c['ops'] = ops[:cut]
            yield c
    for i in range(len(ops)):
        c = dict(case); c['ops'] = ops[:i] + ops[i + 1:]
        yield c

def distribution(cases, obs):
    d = {'kinds': {}, 'templates': {}, 'ops': {}, 'results': {}, 'ended': {'complete': 0, 'deep': 0, 'raised': 0}}
    for c, o in zip(cases, obs):
        k = c.get('kind', 'heap')
        d['kinds'][k] = d['kinds'].get(k, 0) + 1
        if k == 'prog':
            d['templates'][c['template']] = d['templates'].get(c['template'], 0) + 1
            continue
        for op, x in zip(c['ops'], o):
            d['ops'][op[0]] = d['ops'].get(op[0], 0) + 1
            if len(x) == 6:
                key = op[0] + ':' + x[0][0]
                d['results'][key] = d['results'].get(key, 0) + 1
        if o and o[-1] == ['deep']:
            d['ended']['deep'] += 1
        elif o and o[-1][0] == 'raised':
            d['ended']['raised'] += 1
        else:
            d['ended']['complete'] += 1
    return d
