"""C14 - changing a predicate while it is being enumerated (logical update view)."""
from lib import terms
from props import dbcommon as D

ID = 'C14'
IMPORTS = ['Engine.Db', 'Engine.DbCursor', 'Engine.DbFacts', 'Engine.DbOpen', 'Engine.RunDb', 'Engine.DbProg', 'Engine.RunDbProg', 'Engine.DbProgMeta', 'Engine.RunDbProgMeta']
THEOREMS = ['C14_cursor_visits_snapshot', 'C14_query_snapshot_at_first_next', 'C14_retract_at_most_once',
            'C14_retract_at_most_once_from_init', 'C14_no_lost_update', 'C14_cursor_finite', 'C14_retract_goal_finite',
            'C14_compiled_no_lost_update', 'C14_compiled_retract_at_most_once', 'C14_retract_cursor_in_snapshot_order',
            'C14_compiled_run_is_cursor_history', 'C14_compiled_cursor_visits_snapshot', 'C14_compiled_history_no_lost_update',
            'C14_compiled_cut_not_propagated', 'C14_compiled_cut_ends_own_clause_only',
            'C14_retract_answer_is_stored', 'C14_after_clear_only_new_facts',
            'C14_meta_no_lost_update', 'C14_meta_retract_at_most_once', 'C14_meta_findall_runs_to_completion']
RULE = ('(a) event histories with 1-4 simultaneously suspended cursors (queries and retracts, started through the API, '
        'compiled clauses, call/1 and goals held in variables) mostly on ONE predicate, with asserta/assertz/retractall/'
        'clear and answers of other retract cursors between any two next(); all predicates read back after every event; '
        'compared with the model DbCursor.v.  (b) whole compiled programs (snapshot clause t(X) :- pre, p(X), post; drain, '
        'rotate, copy, counter and suspended-retract loops) with a step budget; compared with the answers and final '
        'contents that the logical update view prescribes.  Non-trivial: an update of the enumerated predicate happens '
        'while a cursor on it is suspended (a); the loop body runs at least once (b).  (c) kind dbprog: generated programs '
        '(see C07) with up to 3 nested enumerating goals (p(X), retract(p(X)), helper calls) and updates of the same '
        'predicate in the rest of the body, mostly failure-driven; half of them with !, fail, ;, -> (with / without else), \\+ '
        'around the goals and updates (cuts also in conditions, negations, helper predicates); compiled by the real compiler; compared with the model '
        'Engine/DbProg.v (answers, final facts, number of facts stored).  Non-trivial (c): an enumerating goal is followed in '
        'the same body by an update of its predicate.  (d) round 3: event histories in which 2-3 cursors (queries, retracts) '
        'on ONE predicate are started one after the other and finished in an order that is NOT last-in-first-out - an older '
        'cursor is exhausted, closed or dropped (`del` without close) while a younger one stays suspended - followed by '
        'assertz / asserta / retract / retractall (with and without other updates in between) and the younger cursor resumed '
        'to exhaustion; histories with operations whose arguments are variables of open cursors (see C07).  Intrinsic oracle '
        'for every query cursor: never more answers than its predicate had facts at its first next(); an all-variables query '
        'returns exactly those facts in order.  Distinct by hash of the case.')
TRUSTED_BASE = [
    'Coq 8.16.1 kernel (coqc); vm_compute for the in-Coq evaluation of the model on every case',
    'no axioms: all C14 theorems are closed under the global context',
    'hand-written model Engine/DbCursor.v (cursor = generator holding the list object it read at its first next(); retract '
    'tests identity in the current list and republishes the current list) tied to /repo by this differential run',
    'hand-written model Engine/DbProg.v (compiled clause bodies with database builtins, depth first, database threaded through the search)',
    'harness: generators, driver of the implementation (harness/props/dbcommon.py, c14.py), expected values of the program templates',
    'modelled, not verified: CPython generator protocol; the compiler (programs are checked with an intrinsic oracle, not a model of the compiler)',
]
ASSUMPTIONS = ['every cursor uses its own pattern variables',
               'matches that would build a cyclic term (model: stuck) are unspecified; the comparison stops there']
CASE_TIMEOUT = 8
COQ_CHUNK = 40
STEP_BUDGET = 4000

# ------------------------------------------------------------------ program templates

def _val(v):
    return str(v)

def _tv(v):
    return ['i', v] if isinstance(v, int) else ['a', v]

def _apply(lst, op):
    k, v = op
    if k == 'asserta':
        return [v] + lst
    if k == 'assertz':
        return lst + [v]
    return [x for x in lst if x != v]          # retractall(p(v))

def _goal(op):
    return '%s(p(%s))' % (op[0], _val(op[1]))

def gen_prog(rng):
    pool = ['a', 'b', 'c', 1, 2, 3, 'd']
    n = rng.choice([0, 1, 2, 3, 3, 4, 5, 6])
    distinct = rng.random() < 0.6
    if distinct:
        vals = rng.sample(pool, min(n, len(pool)))
    else:
        vals = [rng.choice(pool[:4]) for _ in range(n)]
    kind = rng.choice(['snap', 'snap', 'drain', 'drainq', 'rotate', 'copy', 'copya', 'counter', 'susp', 'renew', 'snap_retract',
                       'keyed', 'keyed', 'wipe'])
    if kind == 'keyed':
        return gen_keyed_prog(rng)
    c = {'kind': 'prog', 'template': kind, 'facts': {'p': [[_tv(v)] for v in vals]}, 'read': [['p', 1]]}
    def rop():
        return (rng.choice(['asserta', 'assertz', 'assertz', 'retractall']), rng.choice(pool[:5]))
    if kind == 'snap':
        pre = [rop() for _ in range(rng.choice([0, 1, 2]))]
        post = [rop() for _ in range(rng.choice([1, 1, 2, 3]))]
        body = ', '.join([_goal(o) for o in pre] + ['p(X)', 'tick'] + [_goal(o) for o in post])
        c['source'] = 't(X) :- %s.\n' % body
        c['query'] = ['t', 1]
        lst = list(vals)
        for o in pre:
            lst = _apply(lst, o)
        c['expect_answers'] = [[_tv(v)] for v in lst]
        for _ in range(len(c['expect_answers'])):
            for o in post:
                lst = _apply(lst, o)
        c['expect_db'] = {'p': [[_tv(v)] for v in lst]}
        c['loops'] = len(c['expect_answers'])
    elif kind == 'snap_retract':
        # a retract goal enumerates the snapshot too: r(X) :- retract(p(X)), assertz(p(new)).
        new = rng.choice(pool[:3])
        front = rng.random() < 0.5
        c['source'] = 't(X) :- retract(p(X)), tick, %s(p(%s)).\n' % ('asserta' if front else 'assertz', _val(new))
        c['query'] = ['t', 1]
        c['expect_answers'] = [[_tv(v)] for v in vals]
        c['expect_db'] = {'p': [[_tv(new)] for _ in vals]}
        c['loops'] = len(vals)
    elif kind in ('drain', 'drainq'):
        extra = ', assertz(q(new))' if kind == 'drainq' else ''
        c['source'] = 'go :- p(X), tick, retract(p(X)), assertz(seen(X))%s, fail.\ngo.\n' % extra
        c['query'] = ['go', 0]
        c['read'] = [['p', 1], ['seen', 1]]
        c['expect_answers'] = [[]]
        c['expect_db'] = {'p': []}
        if distinct:
            c['expect_db']['seen'] = [[_tv(v)] for v in vals]
        else:
            c['expect_multiset'] = {'seen': [[_tv(v)] for v in vals]}
        c['loops'] = len(vals)
    elif kind == 'rotate':
        c['source'] = 'go :- p(X), tick, retract(p(X)), assertz(p(X)), fail.\ngo.\n'
        c['query'] = ['go', 0]
        c['expect_answers'] = [[]]
        if distinct:
            c['expect_db'] = {'p': [[_tv(v)] for v in vals]}
        else:
            c['expect_db'] = {}
            c['expect_multiset'] = {'p': [[_tv(v)] for v in vals]}
        c['loops'] = len(vals)
    elif kind in ('copy', 'copya'):
        c['source'] = 'go :- p(X), tick, %s(p(X)), fail.\ngo.\n' % ('assertz' if kind == 'copy' else 'asserta')
        c['query'] = ['go', 0]
        c['expect_answers'] = [[]]
        lst = vals + vals if kind == 'copy' else list(reversed(vals)) + vals
        c['expect_db'] = {'p': [[_tv(v)] for v in lst]}
        c['loops'] = len(vals)
    elif kind == 'counter':
        k = rng.choice([1, 2, 3])
        ncount = rng.choice([1, 1, 2])
        c['facts'] = {'c': [[['i', 0]] for _ in range(ncount)]}
        c['source'] = 'bump :- retract(c(N)), tick, assertz(c(s(N))), fail.\nbump.\n'
        c['query'] = ['bump', 0]
        c['repeat'] = k
        c['read'] = [['c', 1]]
        t = ['i', 0]
        for _ in range(k):
            t = ['f', 's', [t]]
        c['expect_answers'] = [[]]
        c['expect_db'] = {'c': [[t] for _ in range(ncount)]}
        c['loops'] = 1
    elif kind == 'susp':
        # a suspended retract must skip facts that were removed meanwhile
        c['source'] = 'go :- retract(p(X)), tick, retractall(p(_)), assertz(q(X)), fail.\ngo.\n'
        c['query'] = ['go', 0]
        c['read'] = [['p', 1], ['q', 1]]
        c['expect_answers'] = [[]]
        c['expect_db'] = {'p': [], 'q': [[_tv(v)] for v in vals[:1]]}
        c['loops'] = len(vals)
    elif kind == 'wipe':
        # round 4: clear() called by a Python predicate INSIDE the loop, while the enumerating goal is suspended: a retract
        # finds none of its remaining candidates in the new store and ends; a query goes on in the list it read
        ret = rng.random() < 0.6
        again = rng.random() < 0.4
        goal = 'retract(p(X))' if ret else 'p(X)'
        c['source'] = 'go :- %s, tick, wipe, %sassertz(moved(X)), fail.\ngo.\n' % (goal, 'assertz(p(X)), ' if again else '')
        c['query'] = ['go', 0]
        c['read'] = [['p', 1], ['moved', 1]]
        c['expect_answers'] = [[]]
        seen = vals[:1] if ret else vals
        c['expect_db'] = {'p': [[_tv(v)] for v in (seen[-1:] if again else [])], 'moved': [[_tv(v)] for v in seen[-1:]]}
        c['loops'] = len(seen)
    elif kind == 'renew':
        # a suspended retract must not lose facts that were added meanwhile
        front = rng.random() < 0.5
        c['source'] = 'go :- retract(p(X)), tick, %s(p(new(X))), fail.\ngo.\n' % ('asserta' if front else 'assertz')
        c['query'] = ['go', 0]
        c['expect_answers'] = [[]]
        lst = [['f', 'new', [_tv(v)]] for v in vals]
        if front:
            lst.reverse()
        c['expect_db'] = {'p': [[t] for t in lst]}
        c['loops'] = len(vals)
    return c

def gen_keyed_prog(rng):
    """round 4: a TABLE p(Key, Value) of 3 / about 16 / 20-40 rows (keys: atoms only, or atoms, integers and a variable
    mixed) and a failure-driven loop of compiled code over the rows of ONE key, called with the key bound, that adds to /
    rotates the rows of that same key while it enumerates them:
        go(K) :- p(K, X), tick, assertz(p(K, new(X))), fail.            go(_).
        go(K) :- retract(p(K, X)), tick, assertz(p(K, X)), fail.        go(_).
    The logical update view prescribes the result (written out below); a step budget catches a loop that does not end."""
    n = rng.choice([3, 8, 15, 16, 16, 17, 20, 24, 33, 40])
    mixed = rng.random() < 0.4
    rows = []
    for i in range(n):
        q = rng.random()
        if mixed and q < 0.15:
            k = ['v', 0]
        elif mixed and q < 0.3:
            k = ['i', 1]
        else:
            k = ['a', rng.choice(['a', 'a', 'b', 'c'])]
        rows.append([k, ['i', i]])
    key = ['a', 'a'] if rng.random() < 0.8 else rng.choice([['a', 'b'], ['i', 1] if mixed else ['a', 'c']])
    hit = [r for r in rows if r[0] == key or r[0][0] == 'v']
    c = {'kind': 'prog', 'template': 'keyed', 'facts': {'p': rows}, 'read': [['p', 2]], 'query': ['go', 1], 'qargs': [key],
         'expect_answers': [[key]], 'loops': len(hit), 'rows': n, 'budget': 10 * n + 50}
    if rng.random() < 0.6:
        front = rng.random() < 0.25
        c['source'] = 'go(K) :- p(K, X), tick, %s(p(K, new(X))), fail.\ngo(_).\n' % ('asserta' if front else 'assertz')
        new = [[key, ['f', 'new', [r[1]]]] for r in hit]
        c['expect_db'] = {'p': (list(reversed(new)) + rows) if front else (rows + new)}
    else:
        c['source'] = 'go(K) :- retract(p(K, X)), tick, assertz(p(K, X)), fail.\ngo(_).\n'
        c['expect_db'] = {'p': [r for r in rows if r not in hit] + [[key, r[1]] for r in hit]}
    return c

class Budget(Exception):
    pass

def run_prog(case):
    from yldprolog import engine as E, compiler
    yp = E.YP()
    count = [0]
    def tick():
        count[0] += 1
        if count[0] > case.get('budget', STEP_BUDGET):
            raise Budget()
        yield False
    yp.register_function('tick', tick)
    def wipe():
        # an application that resets the engine from a callback; it registers its Python predicates again
        yp.clear()
        yp.register_function('tick', tick)
        yp.register_function('wipe', wipe)
        yield False
    yp.register_function('wipe', wipe)
    yp.load_script_from_string(compiler.compile_prolog_from_string(case['source']))
    T0 = terms.ImplTerms(yp)
    for name, rows in case['facts'].items():
        for row in rows:
            yp.assert_fact(yp.atom(name), [T0.build(t) for t in row])
    name, ar = case['query']
    answers = []
    limit = len(case['expect_answers']) * 3 + 20
    try:
        for _ in range(case.get('repeat', 1)):
            T = terms.ImplTerms(yp)
            vs = [T.build(t) for t in case['qargs']] if case.get('qargs') else [T.var(i) for i in range(ar)]
            g = yp.query(name, vs)
            for _ in g:
                answers.append(D.canon_args([terms.term_obs(T.read(v)) for v in vs]))
                if len(answers) > limit:
                    g.close()
                    return {'answers': answers, 'end': 'too-many-answers'}
    except Budget:
        return {'answers': answers, 'end': 'budget'}
    db = {}
    for n, a in case['read']:
        T = terms.ImplTerms(yp)
        vs = [T.var(i) for i in range(a)]
        rows = []
        for _ in yp.query(n, vs):
            rows.append(D.canon_args([terms.term_obs(T.read(v)) for v in vs]))
            if len(rows) > 10000:
                return {'answers': answers, 'end': 'read-back-does-not-end'}
        db[n] = rows
    return {'answers': answers, 'end': 'done', 'db': db, 'ticks': count[0]}

def prog_oracle(case, io):
    if not isinstance(io, dict):
        return None
    if io['end'] == 'budget':
        return 'the program did not terminate within %d steps (answers so far: %d)' % (case.get('budget', STEP_BUDGET), len(io['answers']))
    if io['end'] != 'done':
        return io['end']
    reps = case.get('repeat', 1)
    want = [[terms.term_obs(t) for t in row] for row in case['expect_answers']] * reps
    if io['answers'] != want:
        return 'answers %r, expected (facts as they were when the goal started) %r' % (io['answers'], want)
    for n, rows in case.get('expect_db', {}).items():
        w = [[terms.term_obs(t) for t in row] for row in rows]
        if io['db'].get(n) != w:
            return 'final facts of %s: %r, expected %r' % (n, io['db'].get(n), w)
    for n, rows in case.get('expect_multiset', {}).items():
        w = sorted(repr([terms.term_obs(t) for t in row]) for row in rows)
        if sorted(repr(r) for r in io['db'].get(n, [])) != w:
            return 'final facts of %s: %r, expected a permutation of %r' % (n, io['db'].get(n), w)
    return None

# ------------------------------------------------------------------ check interface

def gen(rng, tier):
    n = 220 if tier == 'quick' else 3500
    cases = []
    for i in range(n):
        nops = rng.choice([6, 10, 14, 20, 30])
        c = D.gen_history(rng, nops, rng.choice([0.7, 0.9, 1.0]), nkeys=rng.choice([1, 1, 1, 2]))
        c['kind'] = 'events'
        cases.append(c)
    for i in range(160 if tier == 'quick' else 3000):
        cases.append(gen_prog(rng))
    for i in range(220 if tier == 'quick' else 3500):
        cases.append(D.gen_dbprog(rng, loopy=0.7))
    # round 3: cursors finished in non-LIFO order (older first, younger resumed after an update); operations over the
    # variables of open cursors
    for i in range(120 if tier == 'quick' else 2500):
        c = D.gen_nonlifo(rng)
        c['kind'] = 'events'
        cases.append(c)
    for i in range(30 if tier == 'quick' else 500):
        c = D.gen_open_history(rng)
        c['kind'] = 'events'
        cases.append(c)
    for i in range(30 if tier == 'quick' else 500):
        cases.append(D.decorate_py(rng, D.gen_dbprog(rng, loopy=0.7)))
    # round 4: suspended goals on predicates of every size class (see C07) with updates in between; clear() while suspended
    extra = [D.gen_big_history(rng) for i in range(40 if tier == 'quick' else 500)]
    extra += [D.gen_clear_history(rng) for i in range(30 if tier == 'quick' else 500)]
    for c in extra:
        c['kind'] = 'events'
    if tier != 'quick':
        # thresholds beyond 64 facts (thorough tier only: the printed read-backs are large)
        big = [D.gen_big_history(rng, sizes=[100, 127, 128, 129, 200, 255, 256, 257]) for i in range(40)]
        for c in big:
            c['kind'] = 'events'
        extra += big
    extra += [D.gen_dbprog_grown(rng, loopy=0.7) for i in range(30 if tier == 'quick' else 500)]
    # round 6: the database reached through call/N, once/1, findall/3 (model: DbProgMeta)
    extra += [D.gen_dbprog_meta(rng, loopy=0.7) for i in range(70 if tier == 'quick' else 1200)]
    return D.spread(cases, extra)

def builtin_corpus():
    v = lambda i: ['v', i]
    f = lambda n, *xs: ['f', n, list(xs)]
    I = lambda n: ['i', n]
    L = []
    def c(*evs):
        evs = [list(e) for e in evs]
        L.append({'kind': 'events', 'events': evs, 'keys': D.case_keys(evs)})
    # D15: t(X) :- assertz(p(1)), p(X), assertz(p(2)).  as events
    c(['assert', False, f('p', I(1)), 'builtin'], ['start', 0, 'q', 'p', [v(0)], 'api'], ['next', 0],
      ['assert', False, f('p', I(2)), 'builtin'], ['next', 0], ['next', 0])
    # drain with two suspended cursors
    c(['assert', False, f('p', I(1)), 'api'], ['assert', False, f('p', I(2)), 'api'], ['assert', False, f('p', I(3)), 'api'],
      ['start', 0, 'q', 'p', [v(0)], 'api'], ['next', 0], ['start', 1, 'r', f('p', I(1)), 'builtin'], ['next', 1], ['next', 1],
      ['next', 0], ['start', 2, 'r', f('p', I(2)), 'builtin'], ['next', 2], ['next', 0], ['next', 0])
    # suspended retract; another retract removes its next candidate; an assert in between must survive
    c(['assert', False, f('p', I(1)), 'api'], ['assert', False, f('p', I(2)), 'api'], ['assert', False, f('p', I(3)), 'api'],
      ['start', 0, 'r', f('p', v(0)), 'builtin'], ['next', 0], ['start', 1, 'r', f('p', I(2)), 'builtin'], ['next', 1],
      ['assert', True, f('p', I(4)), 'builtin'], ['next', 0], ['next', 0], ['next', 1])
    # snapshot is taken at the first next(), not when the generator is created
    c(['start', 0, 'q', 'p', [v(0)], 'api'], ['assert', False, f('p', I(1)), 'api'], ['next', 0], ['assert', False, f('p', I(2)), 'api'],
      ['next', 0])
    # clear while suspended
    c(['assert', False, f('p', I(1)), 'api'], ['assert', False, f('p', I(2)), 'api'], ['start', 0, 'r', f('p', v(0)), 'compiled'],
      ['start', 1, 'q', 'p', [v(0)], 'compiled'], ['next', 0], ['next', 1], ['clear'], ['assert', False, f('p', I(2)), 'api'],
      ['next', 0], ['next', 1], ['next', 1])
    # two independent cursors on one predicate; the OLDER one finishes first (exhausted / closed / dropped), then a fact is
    # added, then the younger one - suspended all the time - is resumed: it must not see the new fact (non-LIFO order)
    for fin in ([['next', 0], ['next', 0]], [['close', 0]], [['drop', 0]]):
        for upd in (['assert', False, f('p', I(3)), 'builtin'], ['assert', False, f('p', I(3)), 'api'], ['assert', True, f('p', I(3)), 'builtin']):
            c(['assert', False, f('p', I(1)), 'builtin'], ['assert', False, f('p', I(2)), 'builtin'],
              ['start', 0, 'q', 'p', [v(0)], 'api'], ['start', 1, 'q', 'p', [v(0)], 'api'], ['next', 0], ['next', 1],
              *fin, upd, ['next', 1], ['next', 1], ['next', 1])
    # the same with three cursors, the middle one a retract, the youngest resumed last
    c(['assert', False, f('p', I(1)), 'api'], ['assert', False, f('p', I(2)), 'api'], ['start', 0, 'q', 'p', [v(0)], 'api'], ['next', 0],
      ['start', 1, 'r', f('p', v(0)), 'builtin'], ['start', 2, 'q', 'p', [v(0)], 'compiled'], ['next', 2], ['drop', 0], ['next', 1],
      ['close', 1], ['assert', False, f('p', I(3)), 'api'], ['assert', False, f('p', I(4)), 'builtin'], ['next', 2], ['next', 2], ['next', 2])
    for src, facts, q, ans, db in [
        ('t(X) :- assertz(p(1)), p(X), tick, assertz(p(2)).\n', [], ['t', 1], [[I(1)]], {'p': [[I(1)], [I(2)]]}),
        ('go :- p(X), tick, retract(p(X)), fail.\ngo.\n', [1, 2, 3], ['go', 0], [[]], {'p': []}),
    ]:
        L.append({'kind': 'prog', 'template': 'corpus', 'source': src, 'facts': {'p': [[I(x)] for x in facts]}, 'query': q,
                  'read': [['p', 1]], 'expect_answers': ans, 'expect_db': db, 'loops': 1})
    return L + D.dbprog_corpus()

def model_expr(case):
    if case.get('kind') == 'prog':
        return None
    if case.get('kind') == 'dbprog':
        return D.prog_model_expr(case)
    return D.model_expr(case)

def impl(case):
    if case.get('kind') == 'prog':
        return run_prog(case)
    if case.get('kind') == 'dbprog':
        return D.prog_run_impl(case)
    return D.drive_events(case)

def compare(case, io, mo):
    if case.get('kind') == 'dbprog':
        return D.prog_compare(case, io, mo)
    return D.compare_events(case, io, mo)

def oracle(case, io):
    if case.get('kind') == 'prog':
        return prog_oracle(case, io)
    if case.get('kind') == 'dbprog':
        return D.prog_oracle(case, io)
    return D.list_oracle(case, io)

def nontrivial(case, io):
    if case.get('kind') == 'dbprog':
        return D.prog_nontrivial(case, io)
    if case.get('kind') == 'prog':
        return isinstance(io, dict) and case.get('loops', 0) >= 1
    live = {}      # cursor -> key, for cursors that have been started by a next and not ended
    key_of = {}
    for e, o in zip(case['events'], io):
        if len(o) != 2:
            break
        e = D.base_event(e)
        upd = None
        if e[0] == 'start':
            key_of[e[1]] = (e[3], len(e[4])) if e[2] == 'q' else D.callable_key(e[3])
            key_of[e[1]] = (key_of[e[1]], e[2])
        elif e[0] == 'next' and e[1] in key_of:
            k, kind = key_of[e[1]]
            if o[0][0] == 'ans':
                if kind == 'r':
                    upd = (k, e[1])
                live[e[1]] = k
            else:
                live.pop(e[1], None)
        elif e[0] in ('close', 'drop'):
            live.pop(e[1], None)
        elif e[0] == 'assert':
            upd = (D.callable_key(e[2]), None)
        elif e[0] == 'retractall':
            upd = (D.callable_key(e[1]), None)
        elif e[0] == 'clear':
            if live:
                return True
        if upd and any(k == upd[0] and c != upd[1] for c, k in live.items()):
            return True
    return False

def describe(case):
    if case.get('kind') == 'dbprog':
        return D.prog_describe(case)
    if case.get('kind') == 'prog':
        return {'facts': {k: [','.join(terms.show_term(x) for x in r) for r in v] for k, v in case['facts'].items()}, 'program': case['source'],
                'query_args': [terms.show_term(t) for t in case.get('qargs', [])],
                'query': case['query'], 'repeat': case.get('repeat', 1)}
    return [D.show_event(e) for e in case['events']] + (['term objects: %r' % case['objects']] if case.get('objects') else [])

def shrink(case):
    if case.get('kind') == 'dbprog':
        yield from D.prog_shrink(case)
        return
    if case.get('kind') == 'prog':
        return
    for c in D.shrink_events(case):
        c['kind'] = 'events'
        yield c

def distribution(cases, obs):
    d = {'kinds': {}, 'templates': {}, 'events': {}, 'max_live_cursors': {}, 'prog_facts': {}, 'ended': {}}
    for c, o in zip(cases, obs):
        k = c.get('kind', 'events')
        d['kinds'][k] = d['kinds'].get(k, 0) + 1
        if k == 'prog':
            d['templates'][c['template']] = d['templates'].get(c['template'], 0) + 1
            n = str(sum(len(v) for v in c['facts'].values()))
            d['prog_facts'][n] = d['prog_facts'].get(n, 0) + 1
            e = o['end'] if isinstance(o, dict) else 'other'
            d['ended'][e] = d['ended'].get(e, 0) + 1
            continue
        if k == 'dbprog':
            if c.get('meta'):
                d['kinds']['dbprog with meta-calls'] = d['kinds'].get('dbprog with meta-calls', 0) + 1
            e = 'dbprog:' + (o['end'] if isinstance(o, dict) else 'other')
            d['ended'][e] = d['ended'].get(e, 0) + 1
            continue
        live = set(); m = 0
        sh = c.get('shape', 'random')
        d.setdefault('history_shapes', {})
        d['history_shapes'][sh] = d['history_shapes'].get(sh, 0) + 1
        for e in c['events']:
            d['events'][e[0]] = d['events'].get(e[0], 0) + 1
            if e[0] == 'start':
                live.add(e[1])
            elif e[0] in ('close', 'drop'):
                live.discard(e[1])
            m = max(m, len(live))
        d['max_live_cursors'][str(m)] = d['max_live_cursors'].get(str(m), 0) + 1
    return d
