"""C15 - answers are fully dereferenced and stay valid after backtracking.

A case is a list of alternatives (clauses); an alternative is a sequence of unifications performed in
order whose bindings stay active; at the answer the probes are observed through get_value / to_python,
the get_value results are SAVED, the generators are closed (backtracking), every variable is re-bound
to the atom zz by a later query, and the saved values are looked at again.

modes:  api       one alternative, driven through engine.unify generators held open
        compiled  the alternatives are the clauses of q/k (bodies of `=` goals) compiled with the real
                  compiler; the query args are the variables 0..k-1; the documented idiom
                  `[get_value(..) for _ in q]`; the clause also asserts the probe (assertz)
        findall   p(L) :- findall(w(probes), q(args), L).  over the same compiled clauses
"""
import random, itertools
from lib import terms, semcheck
from lib.terms import g_term, g_list, g_pair, g_nat
from props import c15_prog as P

ID = 'C15'
IMPORTS = ['Unify.Unify', 'Unify.RunUnify', 'Engine.GetValue', 'Engine.RunGetValue'] + [i for i in P.IMPORTS if i not in ('Unify.Unify',)]
COQ_CHUNK = 60
THEOREMS = ['C15_get_value_is_resolve', 'C15_resolved_unique', 'C15_get_value_total_wf',
            'C15_get_value_total_acyclic', 'C15_order_irrelevant', 'C15_ground_value_stable',
            'C15_findall_bag_stable', 'C15_to_python_resolve', 'C15_to_python_spec',
            'C15_to_python_spec_cases', 'C15_ground_to_python_stable',
            'C15_get_value_allocates_its_result', 'C15_value_structure_stable', 'C15_engine_steps_evolve']
RULE = ('binding forests over 2-7 variables (each bound variable gets a term over higher-ranked variables: chains of '
        '1-4 variables ending in a structure, structures with inner variables) emitted as equations in a random or '
        'exhaustively permuted order, so that the same answer is reached outer-structure-first, inner-first and through '
        'variable chains; plus random nearly-unifying pairs; run through engine.unify (api), through compiled clauses '
        '(documented `[get_value(..) for _ in q]` idiom + assertz) and through findall/3.  Non-trivial: at the answer some '
        'variable cell stores a structure that contains (unresolved) a variable which is bound now, i.e. the inner '
        'variable was bound later than the structure, and a probe reaches it.  Distinct by hash of the case.  '
        'Round 3, mode prog (props/c15_prog.py): programs in which a (partial) goal term reaches call/1..N with extra arguments, once/1, '
        'findall/3 and helper predicates directly / flipped / inside a structure / through variable chains / inline / as a query argument '
        '(random programs + the product of these ways x groundness x meta call), 20% also through asserta/assertz/retract/retractall; every '
        'query run compiled and through the API (one yp.query generator per body goal); get_value and to_python of EVERY query variable and '
        'get_value of every live Variable at every answer; compared with the Coq model of whole programs (Sem/Machine.v).  Non-trivial '
        'there: the query has an answer and a goal with extra arguments / findall / once / an outer-first unification was run.  '
        'Retention in all modes: every value obtained and every argument list passed in is kept with a structural snapshot, re-rendered '
        'after every later engine operation (must be unchanged), and must share no Functor / _args object with other retained values, '
        'live variable cells, stored facts or caller-built terms.')
TRUSTED_BASE = [
    'Coq 8.16.1 kernel (coqc); vm_compute for the in-Coq evaluation of the model on every case; no native_compute',
    'no axioms: all C15 theorems are closed under the global context',
    'hand-written model Engine/GetValue.v of engine.py get_value / Variable.get_value / Functor.get_value / to_python; '
    'tied to /repo by this differential run (not by translation)',
    'the store at the answer is computed by the C02 model of unify (Unify/Unify.v) from the same equations',
    'harness: generators, driver of the implementation (harness/props/c15.py, c15_prog.py), parser of the printed observations',
    'mode prog: the model of whole programs Sem/Machine.v (query) through Engine/RunAnswers.v, reading the same source text with the model front end Lang/Front.v',
    'object-level model Engine/ValueHeap.v: tied to the implementation by the retention oracle (fresh Functor/_args objects, unchanged structure), not by differential evaluation',
]
ASSUMPTIONS = ['raw Python constants are ints and strs', 'cases whose equations need a cyclic term (model: cyc) are unspecified',
               'the Python recursion depth needed by get_value (the fuel of gv) is not compared, only that it returns']
CASE_TIMEOUT = 20
FUEL = 300

# ---------------------------------------------------------------- generators

def _rand_struct(rng, higher, depth, compiled):
    """a term whose variables come from `higher` (may be empty)"""
    r = rng.random()
    if depth <= 0 or r < 0.2:
        q = rng.random()
        if higher and q < 0.6:
            return ['v', rng.choice(higher)]
        if q < 0.75:
            return ['i', rng.choice([0, 1, 2, 7, 10**12] if compiled else [0, 1, -3, 7, 10**12])]
        if q < 0.8 and not compiled:
            return ['s', rng.choice(['', 'a', '[]', 'x y'])]
        return ['a', rng.choice(['a', 'b', 'c', '[]'])]
    if r < 0.45:
        n = rng.randrange(0, 4)
        items = [_rand_struct(rng, higher, depth - 1, compiled) for _ in range(n)]
        tail = None
        q = rng.random()
        if higher and q < 0.4:
            tail = ['v', rng.choice(higher)]
        elif q < 0.47:
            tail = ['a', 'b']             # improper list: to_python raises TypeError
        return terms.mklist(items, tail)
    f, n = rng.choice([('f', 1), ('g', 2), ('h', 3), ('g', 2), ('f', 2), ('k', 0), ('.', 2), ('.', 1), ('.', 3)] if rng.random() < 0.12
                      else [('f', 1), ('g', 2), ('h', 3), ('g', 1)])
    return ['f', f, [_rand_struct(rng, higher, depth - 1, compiled) for _ in range(n)]]

def _forest(rng, base, nv, compiled):
    """equations  V = term  over variables base..base+nv-1, acyclic by rank"""
    eqs = []
    vs = list(range(base, base + nv))
    order = vs[:]
    rng.shuffle(order)                       # rank = position in order
    for pos, v in enumerate(order):
        higher = order[pos + 1:]
        q = rng.random()
        if q < 0.22:
            continue                         # stays unbound
        if higher and q < 0.5:
            t = ['v', rng.choice(higher)]    # chain link
        else:
            t = _rand_struct(rng, higher, rng.choice([1, 2, 2, 3]), compiled)
            if t[0] != 'f' and higher and rng.random() < 0.5:
                t = ['f', 'g', [['v', rng.choice(higher)], t]]
        eqs.append([['v', v], t] if rng.random() < 0.8 else [t, ['v', v]])
    return eqs

def _alt(rng, nargs, base, nloc, compiled):
    vsn = nargs + nloc
    # variables of this alternative: args 0..nargs-1 and locals base..base+nloc-1; build the forest on a
    # contiguous temporary numbering and map back
    eqs = _forest(rng, 0, vsn, compiled)
    def mp(t):
        if t[0] == 'v':
            return ['v', t[1] if t[1] < nargs else base + (t[1] - nargs)]
        if t[0] == 'f':
            return ['f', t[1], [mp(a) for a in t[2]]]
        return t
    eqs = [[mp(a), mp(b)] for a, b in eqs]
    if rng.random() < 0.25:
        allv = list(range(nargs)) + list(range(base, base + nloc))
        a = _rand_struct(rng, allv, 2, compiled)
        b = terms.mutate_term(rng, a, 0)
        if compiled:
            b = _compilable(b)
        eqs.append([a, b if rng.random() < 0.7 else mp(_rand_struct(rng, list(range(vsn)), 2, compiled))])
    rng.shuffle(eqs)
    return eqs

def _flatten(node, prefix=None):
    """the alternatives of a tree of choice points: the equations along every path, in depth-first order"""
    here = (prefix or []) + node['eqs']
    if not node['kids']:
        return [here]
    out = []
    for k in node['kids']:
        out.extend(_flatten(k, here))
    return out

def _tree(rng, nargs, nloc):
    """Equations spread over several clause LEVELS: a node binds some of the still unbound variables, then a choice
    point follows whose alternatives (kids) go on; bindings made above a choice point stay while its alternatives
    are tried.  Acyclic by a rank shared by the whole tree.  Many variable-to-variable links, so that alias chains
    start above a choice point and are completed differently below it."""
    vs = list(range(nargs + nloc))
    if rng.random() < 0.6:
        a = vs[:nargs]; l = vs[nargs:]
        rng.shuffle(a); rng.shuffle(l)
        order = a + l                       # query variables outermost
    else:
        order = vs[:]
        rng.shuffle(order)
    pos = {v: i for i, v in enumerate(order)}
    leaves = [0]
    def node(unbound, depth):
        eqs = []
        left = []
        for v in unbound:
            higher = order[pos[v] + 1:]
            if rng.random() < (0.45 if depth < 2 else 0.7):
                q = rng.random()
                if higher and q < 0.6:
                    t = ['v', higher[0] if rng.random() < 0.6 else rng.choice(higher)]
                elif q < 0.8:
                    t = rng.choice([['a', 'early'], ['a', 'late'], ['i', 1], ['a', '[]']])
                else:
                    t = _rand_struct(rng, higher, rng.choice([1, 2]), True)
                eqs.append([['v', v], t] if rng.random() < 0.8 else [t, ['v', v]])
            else:
                left.append(v)
        rng.shuffle(eqs)
        kids = []
        if depth < 3 and leaves[0] < 6 and rng.random() < (0.9 if depth == 0 else 0.5):
            for _ in range(rng.choice([2, 2, 3])):
                kids.append(node(left, depth + 1))
        if not kids:
            leaves[0] += 1
        return {'eqs': eqs, 'kids': kids}
    return node(order, 0)

def _compilable(t):
    if t[0] == 's':
        return ['a', 'c']
    if t[0] == 'i' and t[1] < 0:
        return ['i', -t[1]]
    if t[0] == 'f':
        return ['f', t[1], [_compilable(a) for a in t[2]]]
    return t

def _probes(rng, roots, compiled):
    ps = [['v', v] for v in roots]
    ps.append(['f', 'w', [['v', v] for v in roots]])
    ps.append(terms.mklist([['v', v] for v in roots]))
    if len(roots) >= 2 and rng.random() < 0.5:
        ps.append(terms.mklist([['v', v] for v in roots[:-1]], ['v', roots[-1]]))
    return ps

def gen(rng, tier):
    n = 900 if tier == 'quick' else 12000
    cases = []
    for i in range(n):
        r = rng.random()
        mode = 'api' if r < 0.45 else ('compiled' if r < 0.8 else 'findall')
        compiled = mode != 'api'
        if mode == 'api':
            nv = rng.choice([2, 3, 4, 5, 6, 7])
            alts = [_alt(rng, nv, nv, 0, False)]
            roots = list(range(nv))
            rng.shuffle(roots)
            roots = roots[:rng.choice([1, 2, 3])]
            probes = _probes(rng, sorted(roots), False)
            if rng.random() < 0.3:
                probes.append(_rand_struct(rng, list(range(nv)), 2, False))
            nargs, total = nv, nv
        else:
            nargs = rng.choice([1, 2, 3])
            nalts = rng.choice([1, 1, 2, 3])
            alts = []
            base = nargs
            for _ in range(nalts):
                nloc = rng.choice([0, 1, 2, 3, 4])
                alts.append(_alt(rng, nargs, base, nloc, True))
                base += nloc
            total = base
            probes = _probes(rng, list(range(nargs)), True) if mode == 'compiled' else [['f', 'w', [['v', v] for v in range(nargs)]]]
        cases.append({'mode': mode, 'nargs': nargs, 'nvars': total, 'alts': alts, 'probes': probes,
                      'shuffle': rng.randrange(50), 'listsyntax': rng.random() < 0.7})
    # choice points at several clause levels: the query variables are read at EVERY answer while bindings made above
    # a choice point are still active and the ones below it have been replaced by those of the next alternative
    for i in range(250 if tier == 'quick' else 5000):
        nargs = rng.choice([1, 1, 2, 3])
        nloc = rng.choice([1, 2, 3, 4])
        tree = _tree(rng, nargs, nloc)
        mode = 'compiled' if rng.random() < 0.8 else 'findall'
        probes = _probes(rng, list(range(nargs)), True) if mode == 'compiled' else [['f', 'w', [['v', v] for v in range(nargs)]]]
        cases.append({'mode': mode, 'nargs': nargs, 'nvars': nargs + nloc, 'tree': tree, 'alts': _flatten(tree), 'probes': probes,
                      'shuffle': rng.randrange(50), 'listsyntax': True, 'origin': 'levels'})
    # every order of a few fixed equation sets (outer first / inner first / chains of 1-4 variables)
    for eqs, nv in _fixed_sets():
        perms = list(itertools.permutations(range(len(eqs))))
        if tier == 'quick' and len(perms) > 24:
            perms = rng.sample(perms, 24)
        for p in perms:
            for mode in (('api', 'compiled') if tier == 'quick' else ('api', 'compiled', 'findall')):
                cases.append({'mode': mode, 'nargs': 1, 'nvars': nv, 'alts': [[eqs[i] for i in p]],
                              'probes': [['v', 0], ['f', 'w', [['v', 0]]], terms.mklist([['v', 0]])] if mode != 'findall' else [['f', 'w', [['v', 0]]]],
                              'shuffle': len(cases) % 7, 'listsyntax': True, 'origin': 'orders'})
    # terms passed through the builtins and API paths that take a term apart or build on it (props/c15_prog.py)
    prog = [P.gen_random(rng) for _ in range(150 if tier == "quick" else 2000)]
    paths = P.gen_paths()
    if tier == 'quick':
        paths = rng.sample(paths, 90)
    prog.extend(paths)
    # spread over the whole list: the model evaluation of a program costs more than that of a binding forest
    step = max(1, len(cases) // (len(prog) + 1))
    for k, c in enumerate(prog):
        cases.insert(min(len(cases), (k + 1) * step + k), c)
    return cases

def _fixed_sets():
    v = lambda i: ['v', i]
    f = lambda n, *xs: ['f', n, list(xs)]
    one = ['i', 1]
    sets = []
    sets.append(([[v(0), f('g', v(1))], [v(1), one]], 2))                                   # D16
    sets.append(([[v(0), f('g', v(1), v(2))], [v(1), f('f', v(2))], [v(2), ['a', 'a']]], 3))
    for k in (1, 2, 3, 4):                                                                   # chains
        eqs = [[v(i), v(i + 1)] for i in range(k)] + [[v(k), f('g', v(k + 1))], [v(k + 1), one]]
        sets.append((eqs, k + 2))
    sets.append(([[v(0), terms.mklist([v(1), v(2)], v(3))], [v(3), terms.mklist([v(2)])], [v(1), ['a', 'a']], [v(2), f('f', v(1))]], 4))
    return sets

def builtin_corpus():
    v = lambda i: ['v', i]
    f = lambda n, *xs: ['f', n, list(xs)]
    L = []
    def c(mode, alts, probes, nargs, nv):
        L.append({'mode': mode, 'nargs': nargs, 'nvars': nv, 'alts': alts, 'probes': probes, 'shuffle': 3, 'listsyntax': True})
    # q(X) :- X = g(Y), Y = 1.
    for mode in ('api', 'compiled', 'findall'):
        c(mode, [[[v(0), f('g', v(1))], [v(1), ['i', 1]]]], [f('w', v(0))], 1, 2)
        c(mode, [[[v(1), ['i', 1]], [v(0), f('g', v(1))]]], [f('w', v(0))], 1, 2)
    # improper / partial lists, '.' with the wrong arity, python strs
    c('api', [[[v(0), f('.', ['a', 'a'], ['a', 'b'])]]], [v(0), f('.', v(0))], 1, 1)
    c('api', [[[v(0), terms.mklist([['s', '[]'], ['i', -3]], v(1))]]], [v(0), v(1)], 2, 2)
    c('api', [[[v(0), f('.', v(1), v(2), v(1))], [v(2), ['a', '[]']], [v(1), ['a', '[]']]]], [v(0)], 1, 3)
    c('api', [[[v(0), f('.')]]], [v(0)], 1, 1)
    c('compiled', [[[v(0), terms.mklist([v(1)], v(2))], [v(2), terms.mklist([v(1)])], [v(1), f('f', v(3))]],
                   [[v(0), ['a', '[]']]]], [v(0), f('w', v(0))], 1, 4)
    # p(X) :- X = Y, q(Y).  q(Y) :- Y = Z, r(Z).  q(Y) :- Y = late.  r(early).   X read at every answer
    for mode in ('compiled', 'findall'):
        tree = {'eqs': [[v(0), v(1)]], 'kids': [{'eqs': [[v(1), v(2)]], 'kids': [{'eqs': [[v(2), ['a', 'early']]], 'kids': []},
                                                                                 {'eqs': [[v(2), f('g', v(3))]], 'kids': []}]},
                                                {'eqs': [[v(1), ['a', 'late']]], 'kids': []}]}
        L.append({'mode': mode, 'nargs': 1, 'nvars': 4, 'tree': tree, 'alts': _flatten(tree),
                  'probes': [v(0), f('w', v(0))] if mode == 'compiled' else [f('w', v(0))], 'shuffle': 3, 'listsyntax': True})
    return L

# ---------------------------------------------------------------- model side

def model_expr(case):
    if case['mode'] == 'prog':
        return P.model_expr(case)
    alts = g_list([g_list([g_pair(g_term(a), g_term(b)) for a, b in alt]) for alt in case['alts']])
    return '(run_gv %s %s %s %s)' % (g_nat(FUEL), g_nat(case['shuffle']), alts, g_list([g_term(p) for p in case['probes']]))

# ---------------------------------------------------------------- implementation side

def pyjson(v):
    if v is None:
        return ['n']
    if isinstance(v, bool):
        return ['x', repr(v)]
    if isinstance(v, int):
        return ['i', v]
    if isinstance(v, str):
        return ['s', v]
    if isinstance(v, list):
        return ['l', [pyjson(x) for x in v]]
    if isinstance(v, tuple) and len(v) == 2 and isinstance(v[0], str) and isinstance(v[1], list):
        return ['t', v[0], [pyjson(x) for x in v[1]]]
    return ['x', repr(type(v))]

def _to_python(E, obj):
    try:
        return ['ok', pyjson(E.to_python(obj))]
    except RecursionError:
        raise
    except Exception as e:
        return [type(e).__name__]

def _leaks(E, obj, depth=0):
    """True if a bound Variable occurs anywhere in obj (structurally, without following it)"""
    if depth > 500:
        raise RecursionError('too deep')
    if isinstance(obj, E.Variable):
        return bool(obj._is_bound)
    if isinstance(obj, E.Functor):
        return any(_leaks(E, a, depth + 1) for a in obj._args)
    return False

def _late(E, variables):
    """some variable cell stores a structure that mentions a variable that is bound now"""
    for v in variables:
        if v._is_bound and isinstance(v._value, E.Functor) and _leaks(E, v._value):
            return True
    return False

def _observe(E, T, objs, W=None, yp=None, n=0):
    """at an answer: per probe [get_value read structurally, to_python, independent deref, flags]; every value obtained
    is retained by W and all values retained so far are looked at again (props/c15_prog.py Watch)"""
    out = []
    saved = []
    for k, o in enumerate(objs):
        gvr = E.get_value(o)
        saved.append(gvr)
        if W is not None:
            W.retain('the get_value result of probe %d at answer %d' % (k, n), gvr)
        viam = o.get_value() if isinstance(o, E.IUnifiable) else o
        out.append({'gv': T.read(gvr, resolve=False), 'leak': _leaks(E, gvr),
                    'same_method': T.read(viam, resolve=False) == T.read(gvr, resolve=False),
                    'py': _to_python(E, o), 'py_of_value': _to_python(E, gvr),
                    'deref': T.read(o, resolve=True)})
    if W is not None:
        for v in list(E._VERIF_VARIABLES)[:P.LIVE_CAP]:
            W.retain('the value of a variable of the running program at answer %d' % n, v.get_value())
        W.check('at answer %d' % n)
        W.sharing('at answer %d' % n, [yp] if yp is not None else [], [objs])
    return out, saved

def _zz_all(E, yp):
    """a later query binds every variable that still exists to the atom zz"""
    held = []
    zz = yp.atom('zz')
    for v in list(E._VERIF_VARIABLES):
        g = iter(E.unify(v, zz))
        try:
            next(g)
            held.append(g)
        except StopIteration:
            pass
    return held

def _after(E, T, yp, saved_per_answer, obs_per_answer, W=None, roots=()):
    for saved, obs in zip(saved_per_answer, obs_per_answer):
        for gvr, o in zip(saved, obs):
            o['after_close'] = T.read(gvr, resolve=True)
            o['py_after_close'] = _to_python(E, gvr)
    if W is not None:
        W.check('after the query was closed')
        W.sharing('after the query was closed', [yp], roots)
    held = _zz_all(E, yp)
    if W is not None:
        W.check('after a later query bound every variable to zz')
    for saved, obs in zip(saved_per_answer, obs_per_answer):
        for gvr, o in zip(saved, obs):
            o['after_rebind'] = T.read(gvr, resolve=True)
            o['py_after_rebind'] = _to_python(E, gvr)
    for g in reversed(held):
        g.close()

def pl_term(t, names, listsyntax):
    k = t[0]
    if k == 'a':
        return t[1]
    if k == 'i':
        return str(t[1])
    if k == 'v':
        return names[t[1]]
    if k == 'f':
        if t[1] == '.' and len(t[2]) == 2 and listsyntax:
            items = []
            cur = t
            while cur[0] == 'f' and cur[1] == '.' and len(cur[2]) == 2:
                items.append(cur[2][0])
                cur = cur[2][1]
            if cur == ['a', '[]']:
                return '[' + ','.join(pl_term(x, names, listsyntax) for x in items) + ']'
            if cur[0] == 'v':
                return '[' + ','.join(pl_term(x, names, listsyntax) for x in items) + '|' + names[cur[1]] + ']'
        name = t[1] if t[1] != '.' else "'.'"
        return '%s(%s)' % (name, ','.join(pl_term(a, names, listsyntax) for a in t[2]))
    raise ValueError(t)

def _tree_source(case, names, ls, head):
    """q(args) :- eqs(root), c0(all variables).   c<N>(all variables) :- eqs(kid), c<kid>(all variables).   one clause
    per alternative of the choice point N; a leaf ends (compiled mode) with assertz(saved(probes))"""
    allv = ','.join(names[i] for i in range(case['nvars']))
    lines = []
    counter = [0]
    def goals_of(node):
        return ['%s = %s' % (pl_term(a, names, ls), pl_term(b, names, ls)) for a, b in node['eqs']]
    def tail(node):
        if node['kids']:
            n = counter[0]; counter[0] += 1
            pending.append((n, node))
            return ['c%d(%s)' % (n, allv)]
        if case['mode'] == 'compiled':
            return ['assertz(saved(%s))' % ','.join(pl_term(p, names, ls) for p in case['probes'])]
        return []
    pending = []
    g = goals_of(case['tree']) + tail(case['tree'])
    lines.append('%s :- %s.' % (head, ', '.join(g) if g else 'true'))
    while pending:
        n, node = pending.pop(0)
        for k in node['kids']:
            g = goals_of(k) + tail(k)
            lines.append('c%d(%s) :- %s.' % (n, allv, ', '.join(g) if g else 'true'))
    # clauses of one predicate must be contiguous: they are (each choice point is emitted as a block)
    return lines

def source_of(case):
    k = case['nargs']
    names = {i: ('A%d' % i if i < k else 'L%d' % i) for i in range(case['nvars'] + 1)}
    ls = case.get('listsyntax', True)
    head = 'q(%s)' % ','.join(names[i] for i in range(k))
    lines = []
    if case.get('tree'):
        lines = _tree_source(case, names, ls, head)
        if case['mode'] == 'findall':
            lines.append('p(L) :- findall(%s, %s, L).' % (pl_term(case['probes'][0], names, ls), head))
        return '\n'.join(lines) + '\n'
    for alt in case['alts']:
        goals = ['%s = %s' % (pl_term(a, names, ls), pl_term(b, names, ls)) for a, b in alt]
        if case['mode'] == 'compiled':
            goals.append('assertz(saved(%s))' % ','.join(pl_term(p, names, ls) for p in case['probes']))
        lines.append('%s :- %s.' % (head, ', '.join(goals) if goals else 'true'))
    if case['mode'] == 'findall':
        lines.append('p(L) :- findall(%s, %s, L).' % (pl_term(case['probes'][0], names, ls), head))
    return '\n'.join(lines) + '\n'

def impl(case):
    from yldprolog import engine as E
    E._VERIF_VARIABLES.clear()
    try:
        if case['mode'] == 'prog':
            return P.impl(case, E, pyjson, _py_of_json)
        return _impl(case, E)
    except RecursionError:
        return {'mode': case['mode'], 'answers': 'cyc-or-deep'}

def _impl(case, E):
    yp = E.YP()
    mode = case['mode']
    T = terms.ImplTerms(yp, case['nvars'])
    res = {'mode': mode}
    W = P.Watch(E)
    if mode == 'api':
        held = []
        ok = True
        for a, b in case['alts'][0]:
            g = iter(E.unify(T.build(a), T.build(b)))
            try:
                next(g)
                held.append(g)
            except StopIteration:
                ok = False
                break
            except RecursionError:
                for h in reversed(held):
                    h.close()
                return {'mode': mode, 'answers': 'cyc-or-deep'}
        answers = []
        saved = []
        if ok:
            objs = [T.build(p) for p in case['probes']]
            try:
                o, s = _observe(E, T, objs, W, yp, 1)
            except RecursionError:
                return {'mode': mode, 'answers': 'cyc-or-deep'}
            res['late'] = _late(E, T.vars)
            W.retain('the list of values the caller passed to assert_fact', objs)
            yp.assert_fact(yp.atom('saved'), objs)
            W.check('after assert_fact')
            answers.append(o); saved.append(s)
        for h in reversed(held):
            h.close()
        res['unbound_after'] = not any(T.bound_state())
        _after(E, T, yp, saved, answers, W, [objs] if ok else [])
        res['retention'] = W.problems[:2]; res['sharing'] = W.hazards[:1]
        res['answers'] = answers
        res['asserted'] = _read_saved(E, yp, len(case['probes']))
        return res
    from yldprolog.compiler import compile_prolog_from_string
    src = source_of(case)
    yp.load_script_from_string(compile_prolog_from_string(src))
    if mode == 'compiled':
        args = [T.var(i) for i in range(case['nargs'])]
        objs = [T.build(p) for p in case['probes']]
        answers = []
        saved = []
        late = False
        try:
            # the documented idiom: collect get_value results while enumerating
            W.retain('the argument list the caller passed to query()', args)
            for _ in yp.query('q', args):
                o, s = _observe(E, T, objs, W, yp, len(answers) + 1)
                late = late or _late(E, list(E._VERIF_VARIABLES))
                answers.append(o); saved.append(s)
        except RecursionError:
            return {'mode': mode, 'answers': 'cyc-or-deep'}
        res['late'] = late
        res['unbound_after'] = not any(v._is_bound for v in E._VERIF_VARIABLES)
        _after(E, T, yp, saved, answers, W, [objs, args])
        res['retention'] = W.problems[:2]; res['sharing'] = W.hazards[:1]
        res['answers'] = answers
        res['asserted'] = _read_saved(E, yp, len(case['probes']))
        return res
    # findall
    L = yp.variable()
    answers = []
    saved = []
    try:
        for _ in yp.query('p', [L]):
            o, s = _observe(E, T, [L], W, yp, len(answers) + 1)
            answers.append(o); saved.append(s)
    except RecursionError:
        return {'mode': mode, 'answers': 'cyc-or-deep'}
    res['late'] = None
    res['unbound_after'] = not any(v._is_bound for v in E._VERIF_VARIABLES)
    _after(E, T, yp, saved, answers, W)
    res['retention'] = W.problems[:2]; res['sharing'] = W.hazards[:1]
    res['answers'] = answers
    return res

def _read_saved(E, yp, n):
    T2 = terms.ImplTerms(yp, 0)
    zs = [yp.variable() for _ in range(n)]
    out = []
    for _ in yp.query('saved', zs):
        out.append(terms.rename_canonical([T2.read(z, resolve=True) for z in zs]))
    return out

# ---------------------------------------------------------------- comparison

def _model_answers(mo):
    """per succeeding alternative: list of per-probe dicts; None if some alternative is cyc/oof"""
    out = []
    for alt in mo:
        tag = alt[0]
        if tag == 'fail':
            continue
        if tag in ('cyc', 'oof'):
            return tag
        probes = []
        for p in alt[1]:
            gvo, pyo, den_ok, shuf_ok, zap, py_ok = p
            if gvo[0] == 'ok' and zap == []:
                zap = [gvo[1], pyo]          # ground: unchanged by re-binding
            probes.append({'gv': gvo, 'py': pyo, 'den_ok': den_ok, 'shuf_ok': shuf_ok, 'zap': zap, 'py_ok': py_ok})
        out.append(probes)
    return out

def _canon(ts):
    return terms.rename_canonical(ts)

def _py_none_vars(t):
    return t

def _py_of_json(t):
    """Python-side spec of to_python on a resolved JSON term (independent of the Coq model)"""
    k = t[0]
    if k == 'a':
        return ['ok', ['l', []]] if t[1] == '[]' else ['ok', ['s', t[1]]]
    if k == 'i':
        return ['ok', ['i', t[1]]]
    if k == 's':
        return ['ok', ['s', t[1]]]
    if k == 'v':
        return ['ok', ['n']]
    if t[1] == '.':
        if not t[2]:
            return ['IndexError']
        h = _py_of_json(t[2][0])
        if h[0] != 'ok':
            return h
        if len(t[2]) < 2:
            return ['IndexError']
        tl = _py_of_json(t[2][1])
        if tl[0] != 'ok':
            return tl
        if tl[1][0] != 'l':
            return ['TypeError']
        return ['ok', ['l', [h[1]] + tl[1][1]]]
    out = []
    for a in t[2]:
        r = _py_of_json(a)
        if r[0] != 'ok':
            return r
        out.append(r[1])
    return ['ok', ['t', t[1], out]]

def _is_ground(t):
    return not terms.term_vars(t)

def oracle(case, io):
    if case.get('mode') == 'prog':
        return P.oracle(case, io)
    if not isinstance(io, dict) or io.get('answers') == 'cyc-or-deep':
        return None
    if io.get('retention'):
        return io['retention'][0]
    if not io.get('unbound_after', True):
        return 'a variable is still bound after the query was closed'
    for ans in io['answers']:
        for k, o in enumerate(ans):
            if o['leak']:
                return 'get_value result of probe %d contains a bound variable: %s' % (k, terms.show_term(o['gv']))
            if o['gv'] != o['deref']:
                return 'get_value result of probe %d (%s) is not the full dereference (%s)' % (k, terms.show_term(o['gv']), terms.show_term(o['deref']))
            if not o['same_method']:
                return 'x.get_value() and get_value(x) differ'
            if o['py'] != _py_of_json(o['deref']):
                return 'to_python of probe %d is %r, expected %r' % (k, o['py'], _py_of_json(o['deref']))
            if o['py_of_value'] != o['py']:
                return 'to_python(get_value(x)) differs from to_python(x)'
            if o['after_close'] != o['gv']:
                return 'saved get_value result changed after the query was closed: %s -> %s' % (terms.show_term(o['gv']), terms.show_term(o['after_close']))
            if o['py_after_close'] != o['py']:
                return 'to_python of the saved value changed after the query was closed'
            if _is_ground(o['deref']):
                if o['after_rebind'] != o['deref']:
                    return 'saved ground answer %s denotes %s after a later query re-bound the variables' % (terms.show_term(o['deref']), terms.show_term(o['after_rebind']))
                if o['py_after_rebind'] != o['py']:
                    return 'to_python of a saved ground answer changed after a later query'
    return None

def _apart(t, k):
    if t[0] == 'v':
        return ['v', (k + 1) * 1000000 + t[1]]
    if t[0] == 'f':
        return ['f', t[1], [_apart(a, k) for a in t[2]]]
    return t

def _zap_json(t):
    if t[0] == 'v':
        return ['a', 'zz']
    if t[0] == 'f':
        return ['f', t[1], [_zap_json(a) for a in t[2]]]
    return t

def compare(case, io, mo):
    if case.get('mode') == 'prog':
        return P.compare(case, io, mo)
    ma = _model_answers(mo)
    if ma == 'oof':
        return 'model ran out of fuel (harness problem)'
    if ma == 'cyc':
        return None
    if not isinstance(io, dict):
        return 'unexpected implementation observation'
    if io['answers'] == 'cyc-or-deep':
        return 'implementation raised RecursionError on a case the model resolves'
    mode = case['mode']
    # model self-consistency: gv = den = gv on the shuffled store, to_python = py_of(resolved)
    for alt in ma:
        for p in alt:
            if p['gv'][0] != 'ok' or p['den_ok'] != 1 or p['shuf_ok'] != 1:
                return 'model inconsistency: gv / den / shuffled store differ'
            if p['py_ok'] != 1:
                return 'model inconsistency: to_python vs py_of'
    if mode == 'findall':
        # findall/3 collects COPIES (engine since the repair D27; Sem/Machine.collect with lo = 0): the variables of
        # different instances are different variables
        exp_items = [_apart(terms.obs_term(alt[0]['gv'][1]), k) for k, alt in enumerate(ma)]
        exp = terms.mklist(exp_items)
        if len(io['answers']) != 1:
            return 'p(L) has %d answers' % len(io['answers'])
        o = io['answers'][0][0]
        if _canon([o['gv']]) != _canon([exp]):
            return 'findall bag is %s, model: %s' % (terms.show_term(o['gv']), terms.show_term(exp))
        pys = [alt[0]['py'] for alt in ma]
        exp_py = ['ok', ['l', [p[1] for p in pys]]] if all(p[0] == 'ok' for p in pys) else next(p for p in pys if p[0] != 'ok')
        if o['py'] != exp_py:
            return 'to_python of the findall bag is %r, model: %r' % (o['py'], exp_py)
        if _canon([o['after_rebind']]) != _canon([_zap_json(exp)]):
            return 'saved findall bag after re-binding is %s, model: %s' % (terms.show_term(o['after_rebind']), terms.show_term(_zap_json(exp)))
        if io.get('sharing'):
            return io['sharing'][0]
        return None
    if len(io['answers']) != len(ma):
        return 'implementation has %d answers, model %d' % (len(io['answers']), len(ma))
    for ans, alt in zip(io['answers'], ma):
        exp = [terms.obs_term(p['gv'][1]) for p in alt]
        got = [o['gv'] for o in ans]
        if mode == 'api':
            if got != exp:
                return 'get_value gives %s, model: %s' % ([terms.show_term(t) for t in got], [terms.show_term(t) for t in exp])
        elif _canon(got) != _canon(exp):
            return 'get_value gives %s, model: %s' % ([terms.show_term(t) for t in got], [terms.show_term(t) for t in exp])
        for o, p in zip(ans, alt):
            if o['py'] != p['py']:
                return 'to_python gives %r, model: %r' % (o['py'], p['py'])
            if _canon([o['after_rebind']]) != _canon([terms.obs_term(p['zap'][0])]):
                return 'saved value after re-binding is %s, model: %s' % (terms.show_term(o['after_rebind']), terms.show_term(terms.obs_term(p['zap'][0])))
            if o['py_after_rebind'] != p['zap'][1]:
                return 'to_python of the saved value after re-binding is %r, model: %r' % (o['py_after_rebind'], p['zap'][1])
    exp_asserted = [_canon([terms.obs_term(p['gv'][1]) for p in alt]) for alt in ma]
    if io.get('asserted') != exp_asserted:
        return 'asserted terms read back as %r, model: %r' % (io.get('asserted'), exp_asserted)
    if io.get('sharing'):
        return io['sharing'][0]
    return None

def nontrivial(case, io):
    if case.get('mode') == 'prog':
        return P.nontrivial(case, io)
    if not isinstance(io, dict) or not isinstance(io.get('answers'), list) or not io['answers']:
        return False
    if case.get('tree'):
        # bindings above a choice point and at least two answers below it
        return bool(case['tree']['eqs']) and len(io['answers'][0] if case['mode'] == 'findall' else io['answers']) >= 1 and \
               sum(1 for a in case['alts'] if a) >= 2
    if case['mode'] == 'findall':
        return any(len(alt) >= 2 for alt in case['alts'])
    return bool(io.get('late'))

def describe(case):
    if case.get('mode') == 'prog':
        return P.describe(case)
    d = {'mode': case['mode'],
         'alternatives': [['%s = %s' % (terms.show_term(a), terms.show_term(b)) for a, b in alt] for alt in case['alts']],
         'probes': [terms.show_term(p) for p in case['probes']]}
    if case['mode'] != 'api':
        try:
            d['source'] = source_of(case)
        except Exception:
            pass
    return d

def _tree_shrinks(node):
    for i in range(len(node['kids'])):
        if len(node['kids']) > 1:
            yield {'eqs': node['eqs'], 'kids': node['kids'][:i] + node['kids'][i + 1:]}
        for sub in _tree_shrinks(node['kids'][i]):
            yield {'eqs': node['eqs'], 'kids': node['kids'][:i] + [sub] + node['kids'][i + 1:]}
    for j in range(len(node['eqs'])):
        yield {'eqs': node['eqs'][:j] + node['eqs'][j + 1:], 'kids': node['kids']}
    if len(node['kids']) == 1:
        k = node['kids'][0]
        yield {'eqs': node['eqs'] + k['eqs'], 'kids': k['kids']}

def shrink(case):
    if case.get('mode') == 'prog':
        yield from P.shrink(case)
        return
    if case.get('tree'):
        c = dict(case); c.pop('tree')        # the same alternatives as flat clauses: does the layout matter?
        yield c
        for t in _tree_shrinks(case['tree']):
            c = dict(case); c['tree'] = t; c['alts'] = _flatten(t)
            yield c
        if len(case['probes']) > 1 and case['mode'] != 'findall':
            for i in range(len(case['probes'])):
                c = dict(case); c['probes'] = case['probes'][:i] + case['probes'][i + 1:]
                yield c
        return
    if len(case['alts']) > 1:
        for i in range(len(case['alts'])):
            c = dict(case); c['alts'] = case['alts'][:i] + case['alts'][i + 1:]
            yield c
    for i, alt in enumerate(case['alts']):
        for j in range(len(alt)):
            c = dict(case); c['alts'] = case['alts'][:i] + [alt[:j] + alt[j + 1:]] + case['alts'][i + 1:]
            yield c
    if len(case['probes']) > 1 and case['mode'] != 'findall':
        for i in range(len(case['probes'])):
            c = dict(case); c['probes'] = case['probes'][:i] + case['probes'][i + 1:]
            yield c

def distribution(cases, obs):
    d = {'mode': {}, 'answers': {}, 'late_inner_binding': 0, 'ground_answers': 0, 'nonground_answers': 0,
         'to_python_errors': 0, 'equations_per_alt': {}}
    d['prog'] = {'programs': 0, 'origin_paths': 0, 'answers': 0, 'queries_with_answers': 0, 'values_retained': 0, 'retention_checks': 0,
                 'features': {}, 'cyclic_or_deep': 0}
    for c, o in zip(cases, obs):
        d['mode'][c['mode']] = d['mode'].get(c['mode'], 0) + 1
        if c['mode'] == 'prog':
            pd = d['prog']
            pd['programs'] += 1
            pd['origin_paths'] += 1 if c.get('origin') == 'paths' else 0
            for f in c.get('features', []):
                pd['features'][f] = pd['features'].get(f, 0) + 1
            if isinstance(o, dict) and 'drivers' in o:
                for drv, qs in o['drivers'].items():
                    for iq in qs:
                        if iq['end'] == 'cyc-or-deep':
                            pd['cyclic_or_deep'] += 1
                            continue
                        pd['answers'] += iq['count']
                        pd['queries_with_answers'] += 1 if iq['count'] else 0
                        pd['values_retained'] += iq.get('retained', 0)
                        pd['retention_checks'] += iq.get('checks', 0)
            continue
        for alt in c['alts']:
            k = str(len(alt)); d['equations_per_alt'][k] = d['equations_per_alt'].get(k, 0) + 1
        if not isinstance(o, dict) or not isinstance(o.get('answers'), list):
            d['answers']['other'] = d['answers'].get('other', 0) + 1
            continue
        k = str(len(o['answers'])); d['answers'][k] = d['answers'].get(k, 0) + 1
        if o.get('late'):
            d['late_inner_binding'] += 1
        for ans in o['answers']:
            for p in ans:
                if _is_ground(p['deref']):
                    d['ground_answers'] += 1
                else:
                    d['nonground_answers'] += 1
                if p['py'][0] != 'ok':
                    d['to_python_errors'] += 1
    return d
