"""C15, mode 'prog': programs that pass terms through every builtin and API path that takes a term apart or builds on
it, and the retention ("answers stay valid") observation shared by all modes of the C15 check.

A case of mode 'prog' is a program (AST of lib/ast_io.py) and queries.  The program consists of
  * fact tables d<i>/2..4 (several rows share their leading columns, so a partial goal has several solutions),
  * helper predicates through which a goal term travels before it is called (ap1/2, ap2/3, tw/3, mp/2, hold/2, unwrap/2),
  * one or two clauses of the main predicate t/1..3 whose bodies are FLAT conjunctions of goals: unifications that
    bind a variable to a (partial) goal term - directly, flipped, inside a structure, through a chain of variables, with
    ground / unbound / later-bound arguments -, meta calls on it (call/1..N with extra arguments, once/1, findall/3 with
    templates that mention the goal variable, the helpers), outer-first-inner-later unifications, plain calls.
Every query is run twice on the implementation: compiled (yp.query on the main predicate) and through the API (the
harness plays the main clause itself: nested yp.query generators, one per body goal), and compared with the Coq model
of whole programs (Sem/Machine.v via Sem/RunSem.v run_both_src, the model of C01/C09) answer by answer.

Observed at every answer: get_value / x.get_value() / to_python of EVERY query variable (also the ones that hold the goal
term) and get_value of every Variable object that is alive (clause-local ones: hook _VERIF_VARIABLES).

Retention (class Watch): every value the harness has obtained from get_value - at an answer, before a goal was called
(API driver), from any live variable - is kept together with a structural snapshot (Functor name, arity, arguments in
order, constants, Variables by object identity, NOT following bindings).  After every later engine operation (next
solution of any generator, generator exhausted, query closed, a later query re-binding every variable) all retained
values are rendered again and must be unchanged.  The argument lists the harness passed to yp.query are retained in
the same way.  Structural sharing: the `_args` list objects (and Functor objects) inside a retained value must not be
reachable from another retained value, from the `_value` of any live Variable, from a stored fact or from the terms
the harness built (compared by id() while everything is alive)."""
import itertools
from lib import terms, semcheck, ast_io
from lib.progs import V, A, F

# ---------------------------------------------------------------- retention

class Watch:
    LIMIT = 600          # values retained per query
    def __init__(self, E):
        self.E = E
        self.items = []      # [label, object, snapshot]
        self.vids = {}
        self.keep = []       # the Variable objects seen (kept alive: ids stay valid)
        self.problems = []   # a retained value changed: the property is violated on this input
        self.hazards = []    # a retained value shares a mutable container with the live term: reported after the violations
        self.checks = 0
    def snap(self, obj, depth=0):
        E = self.E
        if depth > 400:
            raise RecursionError('term too deep (cyclic?)')
        if isinstance(obj, E.Variable):
            k = self.vids.get(id(obj))
            if k is None:
                k = len(self.keep)
                self.vids[id(obj)] = k
                self.keep.append(obj)
            return ('v', k)
        if isinstance(obj, E.Functor):
            return ('f', obj._name, tuple(self.snap(a, depth + 1) for a in obj._args))
        if isinstance(obj, E.Atom):
            return ('a', obj._name)
        if isinstance(obj, (list, tuple)):
            return ('l', tuple(self.snap(a, depth + 1) for a in obj))
        return ('c', type(obj).__name__, repr(obj))
    def show(self, s):
        if s[0] == 'v': return '_V%d' % s[1]
        if s[0] == 'a': return s[1]
        if s[0] == 'c': return s[2]
        if s[0] == 'l': return '[%s]' % ', '.join(self.show(x) for x in s[1])
        return '%s(%s)' % (s[1], ','.join(self.show(x) for x in s[2]))
    def retain(self, label, obj):
        if len(self.items) < self.LIMIT:
            self.items.append([label, obj, self.snap(obj)])
    def check(self, when):
        """every retained value still has the structure it had when it was handed out"""
        self.checks += 1
        if self.problems:
            return
        for label, obj, snap in self.items:
            now = self.snap(obj)
            if now != snap:
                self.problems.append('%s was %s; %s it is %s' % (label, self.show(snap), when, self.show(now)))
                return
    def _containers(self, obj, acc, depth=0):
        """ids of the mutable containers (Functor objects and their argument lists) inside obj; bindings are not followed"""
        E = self.E
        if depth > 400:
            raise RecursionError('term too deep (cyclic?)')
        if isinstance(obj, E.Functor):
            acc.add(id(obj)); acc.add(id(obj._args))
            for a in obj._args:
                self._containers(a, acc, depth + 1)
        elif isinstance(obj, (list, tuple)):
            for a in obj:
                self._containers(a, acc, depth + 1)
        return acc
    def sharing(self, when, yps=(), roots=()):
        """no Functor / argument list of a retained value is part of another retained value or of the live term"""
        if self.problems or self.hazards:
            return
        E = self.E
        owner = {}
        for k, (label, obj, snap) in enumerate(self.items):
            if not isinstance(obj, E.Functor):
                continue
            for i in self._containers(obj, set()):
                if i in owner and owner[i] != k:
                    self.hazards.append('%s (%s) and %s share a Functor / argument list object (%s)' % (
                        label, self.show(snap), self.items[owner[i]][0], when))
                    return
                owner[i] = k
        if not owner:
            return
        live = []
        for v in list(E._VERIF_VARIABLES or ()):
            if hasattr(v, '_value'):
                live.append(('the value stored in a variable', v._value))
        for yp in yps:
            for key, clauses in list(getattr(yp, '_predicates_store', {}).items()):
                for c in clauses:
                    live.append(('the stored fact %s/%d' % key, getattr(c, 'values', ())))
        for r in roots:
            live.append(('a term the caller built', r))
        for what, obj in live:
            for i in self._containers(obj, set()):
                if i in owner:
                    label, _, snap = self.items[owner[i]]
                    self.hazards.append('%s (%s) shares a Functor / argument list object with %s (%s)' % (label, self.show(snap), what, when))
                    return

# ---------------------------------------------------------------- programs

def _call(name, *args):
    return ['call', name, list(args)]

HELPERS = [
    ['ap1', [V('G'), V('X')], _call('call', V('G'), V('X'))],
    ['ap2', [V('G'), V('X'), V('Y')], _call('call', V('G'), V('X'), V('Y'))],
    ['tw', [V('G'), V('X'), V('Y')], ['and', _call('call', V('G'), V('X')), _call('call', V('G'), V('Y'))]],
    ['mp', [V('_'), ['list', []]], ['true']],
    ['mp', [V('G'), ['pair', V('H'), V('T')]], ['and', _call('call', V('G'), V('H')), _call('mp', V('G'), V('T'))]],
    ['hold', [V('G'), V('X')], ['and', _call('=', V('H'), V('G')), _call('call', V('H'), V('X'))]],
    ['unwrap', [F('w', V('G')), V('X')], _call('call', V('G'), V('X'))],
]

KEYS = [A('a'), A('b'), F('f', A('a')), ['num', '1'], ['list', [A('a'), A('b')]], A('[]')]

def _tables(rng):
    tabs = []
    for i in range(rng.choice([1, 2, 2, 3])):
        ar = rng.choice([2, 2, 3, 3, 4])
        keys = [rng.sample(KEYS, rng.choice([1, 2])) for _ in range(ar - 1)]
        rows = []
        for j in range(rng.choice([1, 2, 2, 3, 4])):
            row = [rng.choice(ks) for ks in keys]
            r = rng.random()
            if r < 0.12:
                last = F('o%d' % j, V('_'))                   # an open row: the value carries a variable of the fact's copy
            elif r < 0.3:
                last = F('r', A('k%d' % j), ['list', [['num', str(j)]]])
            elif r < 0.5:
                last = ['num', str(j + 1)]
            else:
                last = A('v%d_%d' % (i, j))
            rows.append(row + [last])
        tabs.append(('d%d' % i, ar, rows))
    return tabs

def _is_open(t):
    if t[0] == 'var':
        return True
    if t[0] == 'fun':
        return any(_is_open(a) for a in t[2])
    if t[0] == 'list':
        return any(_is_open(a) for a in t[1])
    return False

REACH = ['direct', 'flipped', 'wrapped', 'chain_before', 'chain_after', 'inline', 'param']
META1 = ['call', 'ap1', 'tw', 'mp', 'hold', 'unwrap', 'once_call', 'findall_call', 'findall_ap1']
META2 = ['call', 'ap2', 'findall_call']
META0 = ['call', 'once', 'findall']

class _Body:
    def __init__(self, rng, tabs, nh):
        self.rng = rng
        self.tabs = tabs
        self.goals = []
        self.heads = ['H%d' % i for i in range(nh)]
        self.unused_heads = list(self.heads)
        self.old = []            # variables that occurred already
        self.pending = []        # variables that sit unbound inside a structure bound earlier (to be bound later)
        self.goalvars = {}       # variable name / ('inline', n) -> (table, k, prefix, term that is called)
        self.nloc = 0
        self.features = set()
    def new(self, prefer_head=0.55):
        if self.unused_heads and self.rng.random() < prefer_head:
            n = self.unused_heads.pop(self.rng.randrange(len(self.unused_heads)))
        else:
            n = 'L%d' % self.nloc
            self.nloc += 1
        self.old.append(n)
        return V(n)
    def emit(self, *gs):
        self.goals.extend(gs)
    # -- a variable gets bound to a (partial) goal term
    def bind_goal(self, reach=None, ground=None, k=None, tab=None):
        rng = self.rng
        name, ar, rows = tab or rng.choice(self.tabs)
        if k is None:
            k = rng.choice([0] + list(range(1, ar)) * 4 + [ar])
        row = rng.choice(rows)
        prefix = []
        later = []
        for j in range(k):
            mode = ground if ground is not None else rng.choice(['ground'] * 6 + ['unbound', 'later', 'old'])
            if _is_open(row[j]) and mode == 'ground':
                mode = 'unbound'
            if mode == 'ground':
                prefix.append(row[j])
            elif mode == 'old' and self.old:
                prefix.append(V(rng.choice(self.old)))
            else:
                x = self.new(0.3)
                prefix.append(x)
                if mode == 'later':
                    later.append(_call('=', x, row[j]))
        partial = F(name, *prefix) if prefix else A(name)
        reach = reach or rng.choice(['direct'] * 3 + ['flipped', 'wrapped', 'chain_before', 'chain_after', 'inline'])
        self.features.add('reach:' + reach)
        if reach == 'inline':
            key = ('inline', len(self.goalvars))
            self.goalvars[key] = (name, ar, k, partial)
            self.emit(*later)
            return key
        g = self.new()
        if reach == 'direct':
            self.emit(_call('=', g, partial))
        elif reach == 'flipped':
            self.emit(_call('=', partial, g))
        elif reach == 'wrapped':
            self.emit(_call('=', F('w', g, A('x')), F('w', partial, A('x'))))
        elif reach == 'chain_before':
            g2 = self.new(0.2)
            self.emit(_call('=', g, g2), _call('=', g2, partial))
        elif reach == 'chain_after':
            g2 = self.new(0.2)
            self.emit(_call('=', g2, partial), _call('=', g, g2))
        else:
            raise ValueError(reach)
        self.emit(*later)
        self.goalvars[g[1]] = (name, ar, k, g)
        return g[1]
    def param_goal(self, ground=None, k=None, tab=None):
        """the goal term arrives as an argument of the query (head variable H0)"""
        rng = self.rng
        name, ar, rows = tab or rng.choice(self.tabs)
        if k is None:
            k = rng.choice(list(range(1, ar)) * 3 + [ar])
        row = rng.choice(rows)
        h = self.unused_heads.pop(0)
        self.old.append(h)
        self.goalvars[h] = (name, ar, k, V(h))
        self.features.add('reach:param')
        qprefix = []
        for j in range(k):
            if (ground == 'ground' or (ground is None and rng.random() < 0.75)) and not _is_open(row[j]):
                qprefix.append(row[j])
            else:
                qprefix.append(None)        # a query variable of its own
        return h, name, qprefix
    # -- the goal is used
    def call_goal(self, key=None, meta=None):
        rng = self.rng
        key = key if key is not None else rng.choice(list(self.goalvars))
        name, ar, k, g = self.goalvars[key]
        rows = [t for t in self.tabs if t[0] == name][0][2]
        row = rng.choice(rows)
        missing = ar - k
        extras = []
        for j in range(k, ar):
            r = rng.random()
            if r < 0.72 or _is_open(row[j]):
                extras.append(self.new(0.6))
            elif r < 0.86:
                extras.append(row[j])
            elif self.old:
                extras.append(V(rng.choice(self.old)))
            else:
                extras.append(self.new(0.6))
        if meta is None:
            meta = rng.choice(META0 if missing == 0 else (META1 + ['call', 'call']) if missing == 1 else (META2 + ['call']) if missing == 2 else ['call', 'findall_call'])
        self.features.add('meta:%s/%d' % (meta, missing))
        if missing:
            self.features.add('extra-arguments')
            if isinstance(key, str):
                self.features.add('extra-arguments-on-goal-variable')
        def tmpl(xs):
            cands = list(xs) + [F('t', g, *xs), F('t', *(list(xs) + [g]))]
            if isinstance(key, str):
                cands.append(g)
            return rng.choice(cands)
        if meta == 'call':
            self.emit(_call('call', g, *extras))
        elif meta == 'once':
            self.emit(_call('once', g))
        elif meta == 'findall':
            self.emit(_call('findall', tmpl([]) if isinstance(key, str) else A('x'), g, self.new()))
        elif meta == 'ap1':
            self.emit(_call('ap1', g, extras[0]))
        elif meta == 'ap2':
            self.emit(_call('ap2', g, extras[0], extras[1]))
        elif meta == 'tw':
            self.emit(_call('tw', g, extras[0], self.new(0.5)))
        elif meta == 'mp':
            self.emit(_call('mp', g, ['list', [extras[0], self.new(0.5)]]))
        elif meta == 'hold':
            self.emit(_call('hold', g, extras[0]))
        elif meta == 'unwrap':
            self.emit(_call('unwrap', F('w', g), extras[0]))
        elif meta == 'once_call':
            self.emit(_call('once', F('call', g, *extras)))
        elif meta == 'findall_call':
            self.emit(_call('findall', tmpl(extras), F('call', g, *extras), self.new()))
        elif meta == 'findall_ap1':
            self.emit(_call('findall', tmpl(extras), F('ap1', g, extras[0]), self.new()))
        else:
            raise ValueError(meta)
    # -- ordinary goals around it
    def eq_outer(self):
        rng = self.rng
        x = V(rng.choice(self.old)) if self.old and rng.random() < 0.3 else self.new()
        inner = [self.new(0.25) for _ in range(rng.choice([1, 1, 2]))]
        self.pending.extend(v[1] for v in inner)
        shape = rng.choice(['f', 'list', 'pair', 'nest'])
        if shape == 'f':
            t = F('s', *(inner + [A('k')]))
        elif shape == 'list':
            t = ['list', inner + [A('a')]]
        elif shape == 'pair' and len(inner) == 2:
            t = ['pair', inner[0], inner[1]]
        else:
            t = F('s', F('u', *inner))
        self.emit(_call('=', x, t) if rng.random() < 0.75 else _call('=', t, x))
        self.features.add('outer-first')
    def eq_inner(self):
        rng = self.rng
        if not self.pending:
            return self.eq_outer()
        y = self.pending.pop(rng.randrange(len(self.pending)))
        r = rng.random()
        if r < 0.5:
            t = rng.choice(KEYS)
        elif r < 0.8:
            z = self.new(0.2)
            self.pending.append(z[1])
            t = F('g', z)
        else:
            t = self.new(0.2)        # a chain link to a new variable
            self.pending.append(t[1])
        self.emit(_call('=', V(y), t))
        self.features.add('inner-later')
    def plain_call(self):
        rng = self.rng
        name, ar, rows = rng.choice(self.tabs)
        row = rng.choice(rows)
        args = [self.new(0.5) if (rng.random() < 0.6 or _is_open(row[j])) else row[j] for j in range(ar)]
        self.emit(_call(name, *args))
    def db_step(self):
        """the goal term (or a structure around it) goes through asserta/assertz/retract/retractall and is read back"""
        rng = self.rng
        key = rng.choice(list(self.goalvars))
        name, ar, k, g = self.goalvars[key]
        r = rng.random()
        self.features.add('database')
        if r < 0.3:
            self.emit(_call(rng.choice(['assertz', 'asserta']), g))
            if rng.random() < 0.5:
                self.emit(_call(rng.choice(['retract', 'retractall']), g))
        elif r < 0.75:
            x = V(rng.choice(self.old)) if self.old and rng.random() < 0.7 else A('k')
            self.emit(_call(rng.choice(['assertz', 'asserta']), F('kept', g, x)), _call('kept', self.new(0.6), self.new(0.3)))
            if rng.random() < 0.4:
                self.emit(_call('retract', F('kept', g, self.new(0.2))))
        else:
            self.emit(_call('assertz', F('kept', F('w', g), ['list', [g]])), _call('kept', F('w', self.new(0.6)), self.new(0.4)))
    def neq(self):
        x = V(self.rng.choice(self.old)) if self.old else A('a')
        self.emit(_call('\\=', F('m', x), F('n', x)))
    def body(self):
        out = self.goals[-1]
        for g in reversed(self.goals[:-1]):
            out = ['and', g, out]
        return out

def _facts(tabs):
    return [[name, row, ['true']] for name, ar, rows in tabs for row in rows]

def _finish(tabs, mains, queries, features, origin=None):
    c = {'mode': 'prog', 'clauses': mains + HELPERS + _facts(tabs), 'queries': queries, 'features': sorted(features)}
    if origin:
        c['origin'] = origin
    return c

def gen_random(rng):
    tabs = _tables(rng)
    nh = rng.choice([1, 2, 2, 3, 3])
    mains = []
    features = set()
    qargs = [V('Q%d' % i) for i in range(nh)]
    nq = [nh]
    param = rng.random() < 0.2
    db = rng.random() < 0.2
    for ci in range(rng.choice([1, 1, 1, 2])):
        b = _Body(rng, tabs, nh)
        if param:
            if ci == 0:
                h, name, qprefix = b.param_goal()
                pre = []
                for p in qprefix:
                    if p is None:
                        pre.append(V('Q%d' % nq[0])); nq[0] += 1
                    else:
                        pre.append(p)
                qargs[0] = F(name, *pre) if pre else A(name)
                saved = b.goalvars[h]
            else:
                b.unused_heads.pop(0); b.old.append('H0'); b.goalvars['H0'] = saved
        steps = rng.choice([2, 3, 3, 4, 4, 5, 6])
        for s in range(steps):
            r = rng.random()
            if not b.goalvars or r < 0.2:
                b.bind_goal()
                if rng.random() < 0.7:
                    b.call_goal(list(b.goalvars)[-1])
            elif db and r < 0.4:
                b.db_step()
            elif r < 0.55:
                b.call_goal()
            elif r < 0.68:
                b.eq_outer()
            elif r < 0.84:
                b.eq_inner()
            elif r < 0.93:
                b.plain_call()
            else:
                b.neq()
        while b.pending and rng.random() < 0.6:
            b.eq_inner()
        if not b.goals:
            b.call_goal()
        mains.append(['t', [V(h) for h in b.heads], b.body()])
        features |= b.features
    queries = [['t', list(qargs)]]
    if nh >= 2 and rng.random() < 0.3:
        # the same query with one argument given: a constant that an answer may or may not have there
        q2 = list(qargs)
        q2[nh - 1] = rng.choice(KEYS + [A('v0_0'), ['num', '1']])
        queries.append(['t', q2])
    c = _finish(tabs, mains, queries, features)
    if 'database' in features:
        c['nomodel'] = True      # the model of whole programs (Sem/Machine.v) has no database builtins: oracles only
    return c

PATH_TABLE = ('d0', 3, [[A('a'), F('f', A('b')), A('one')], [A('a'), F('f', A('b')), ['list', [A('two')]]],
                        [A('a'), A('c'), ['num', '3']], [A('b'), F('f', A('b')), A('four')]])

def gen_paths():
    """the product  way the goal term reaches the meta call  x  groundness of its arguments  x  meta call  over one fixed
    fact table: t(G, X..) :- <G gets the goal>, <meta call with extra arguments>."""
    import random
    out = []
    for reach in REACH:
        for ground in ('ground', 'unbound', 'later'):
            for missing, metas in ((1, META1), (2, META2), (0, META0)):
                for meta in metas:
                    rng = random.Random('%s-%s-%s-%d' % (reach, ground, meta, missing))
                    tabs = [PATH_TABLE]
                    b = _Body(rng, tabs, 3)
                    b.new = _ordered_new(b)
                    qargs = [V('Q0'), V('Q1'), V('Q2')]
                    if reach == 'param':
                        h, name, qprefix = b.param_goal(ground='ground' if ground == 'ground' else 'open', k=3 - missing, tab=PATH_TABLE)
                        n = [3]
                        pre = []
                        for p in qprefix:
                            if p is None:
                                pre.append(V('Q%d' % n[0])); n[0] += 1
                            else:
                                pre.append(p)
                        qargs[0] = F(name, *pre)
                        key = h
                    else:
                        key = b.bind_goal(reach=reach, ground=ground, k=3 - missing, tab=PATH_TABLE)
                    b.call_goal(key, meta=meta)
                    out.append(_finish(tabs, [['t', [V(h) for h in b.heads], b.body()]], [['t', qargs]], b.features, origin='paths'))
    return out

def _ordered_new(b):
    def new(prefer_head=0.5):
        if b.unused_heads:
            n = b.unused_heads.pop(0)
        else:
            n = 'L%d' % b.nloc
            b.nloc += 1
        b.old.append(n)
        return V(n)
    return new

def source_of(case):
    return ast_io.program_text(case['clauses'])

# ---------------------------------------------------------------- implementation side

def flat_goals(body):
    if body[0] == 'and':
        return flat_goals(body[1]) + flat_goals(body[2])
    if body[0] == 'true':
        return []
    if body[0] == 'call':
        return [body]
    raise ValueError('the API driver plays flat conjunctions only: %r' % (body,))

def build_ast(yp, t, env):
    k = t[0]
    if k == 'atom':
        return yp.atom(t[1])
    if k == 'num':
        return int(t[1])
    if k == 'var':
        if t[1] == '_':
            return yp.variable()
        if t[1] not in env:
            env[t[1]] = yp.variable()
        return env[t[1]]
    if k == 'fun':
        return yp.functor(t[1], [build_ast(yp, a, env) for a in t[2]])
    if k == 'list':
        return yp.makelist([build_ast(yp, a, env) for a in t[1]])
    if k == 'pair':
        return yp.listpair(build_ast(yp, t[1], env), build_ast(yp, t[2], env))
    raise ValueError(t)

ANSWER_CAP = 80
LIVE_CAP = 60

def _leaks(E, obj, depth=0):
    if depth > 400:
        raise RecursionError('too deep')
    if isinstance(obj, E.Variable):
        return bool(obj._is_bound)
    if isinstance(obj, E.Functor):
        return any(_leaks(E, a, depth + 1) for a in obj._args)
    return False

def run_query(E, yp, case, q, driver, pyjson, py_spec):
    args_json, nq = semcheck.query_terms(q)
    T = terms.ImplTerms([yp], nq)
    objs = [T.build(a) for a in args_json]
    W = Watch(E)
    W.retain('the argument list the caller passed to query()', objs)
    res = {'answers': [], 'count': 0, 'end': 'done', 'leftover': [], 'problems': []}
    raw = []
    yp._verif_findall_inner = False
    roots = [objs]
    def problem(s):
        if len(res['problems']) < 3:
            res['problems'].append(s)
    def look(label, v, compare_py):
        gv = E.get_value(v)
        W.retain(label, gv)
        js = T.read(gv, resolve=False)
        if _leaks(E, gv):
            problem('%s: the get_value result %s contains a bound variable' % (label, terms.show_term(js)))
        deref = T.read(v, resolve=True)
        if js != deref:
            problem('%s: get_value gives %s, the full dereference is %s' % (label, terms.show_term(js), terms.show_term(deref)))
        via = v.get_value() if isinstance(v, E.IUnifiable) else v
        if T.read(via, resolve=False) != js:
            problem('%s: x.get_value() and get_value(x) differ' % label)
        if compare_py:
            try:
                py = ['ok', pyjson(E.to_python(v))]
            except RecursionError:
                raise
            except Exception as e:
                py = [type(e).__name__]
            if py != py_spec(deref):
                problem('%s: to_python gives %r, expected %r for %s' % (label, py, py_spec(deref), terms.show_term(deref)))
        return js
    def at_answer():
        res['count'] += 1
        n = res['count']
        ans = [look('the value of query variable %d at answer %d' % (i, n), T.vars[i], True) for i in range(nq)]
        if n <= ANSWER_CAP:
            raw.append(ans)
        known = set(id(v) for v in T.vars[:nq])
        for v in [v for v in list(E._VERIF_VARIABLES) if id(v) not in known][:LIVE_CAP]:
            look('the value of a variable of the running program at answer %d' % n, v, False)
        W.check('at answer %d' % n)
        W.sharing('at answer %d' % n, [yp], roots)
    try:
        if driver == 'compiled':
            g = yp.query(q[0], objs)
            try:
                for _ in g:
                    at_answer()
                    if res['count'] >= ANSWER_CAP:
                        res['end'] = 'cap'
                        break
            finally:
                g.close()
        else:
            mains = [c for c in case['clauses'] if c[0] == q[0] and len(c[1]) == len(objs)]
            for cl in mains:
                env = {}
                for h, o in zip(cl[1], objs):
                    assert h[0] == 'var' and h[1] not in env and h[1] != '_'
                    env[h[1]] = o
                goals = [(g[1], [build_ast(yp, a, env) for a in g[2]]) for g in flat_goals(cl[2])]
                roots.append([a for _, a in goals])
                def run(i):
                    if i == len(goals):
                        at_answer()
                        return
                    name, gargs = goals[i]
                    W.retain('the argument list the caller passed to query(%s)' % name, gargs)
                    for vn, v in list(env.items()):
                        W.retain('the value of %s taken before goal %d (%s) was called' % (vn, i + 1, name), E.get_value(v))
                    gen = yp.query(name, gargs)
                    try:
                        for _ in gen:
                            W.check('after goal %d (%s) produced a solution' % (i + 1, name))
                            run(i + 1)
                            W.check('after the goals behind goal %d (%s) were backtracked over' % (i + 1, name))
                            if res['count'] >= ANSWER_CAP:
                                res['end'] = 'cap'
                                break
                    finally:
                        gen.close()
                    W.check('after goal %d (%s) was exhausted' % (i + 1, name))
                run(0)
    except RecursionError:
        return {'end': 'cyc-or-deep', 'answers': [], 'count': 0, 'leftover': [], 'problems': []}
    try:
        res['leftover'] = [i for i in range(nq) if T.vars[i]._is_bound]
        if any(v._is_bound for v in E._VERIF_VARIABLES):
            problem('a variable is still bound after the query was closed')
        W.check('after the query finished')
        W.sharing('after the query finished', [yp], roots)
        # a later query binds every variable that still exists
        held = []
        zz = yp.atom('zz')
        for v in list(E._VERIF_VARIABLES):
            g = iter(E.unify(v, zz))
            try:
                next(g)
                held.append(g)
            except StopIteration:
                pass
        W.check('after a later query bound every variable to zz')
        for g in reversed(held):
            g.close()
        W.check('at the end')
    except RecursionError:
        return {'end': 'cyc-or-deep', 'answers': [], 'count': 0, 'leftover': [], 'problems': []}
    res['problems'].extend(W.problems[:2])
    res['sharing'] = W.hazards[:1]
    res['answers'] = semcheck.canon_answers([[terms.term_obs(x) for x in a] for a in raw])
    res['findall_inner'] = bool(getattr(yp, '_verif_findall_inner', False))
    res['retained'] = len(W.items)
    res['checks'] = W.checks
    return res

def impl(case, E, pyjson, py_spec):
    from yldprolog.compiler import compile_prolog_from_string
    src = source_of(case)
    text = compile_prolog_from_string(src)
    out = {'mode': 'prog', 'drivers': {}}
    for driver in ('compiled', 'api'):
        E._VERIF_VARIABLES.clear()
        yp = E.YP()
        semcheck.watch_findall(yp)
        yp.load_script_from_string(text)
        out['drivers'][driver] = [run_query(E, yp, case, q, driver, pyjson, py_spec) for q in case['queries']]
    return out

# ---------------------------------------------------------------- model side, comparison

IMPORTS = ['Lang.Ast', 'Lang.Front', 'Sem.Machine', 'Sem.RunSem', 'Engine.RunAnswers']

def model_expr(case):
    if case.get('nomodel'):
        return None
    return _model_expr(case)

def _model_expr(case):
    """the model is given the same source TEXT as the implementation (its own front end reads it); answers = the deep
    dereference of every query variable at every answer (Sem/Machine.v query, proved equal to the clause semantics)"""
    from lib.pyrepr_check import cps, g_cps
    from lib.terms import g_str, g_list, g_nat, g_term
    qs = []
    for q in case['queries']:
        args, nq = semcheck.query_terms(q)
        qs.append('(%s, %s, %s)' % (g_str(q[0]), g_list([g_term(a) for a in args]), g_nat(nq)))
    return '(run_ir_src %d %s %s %d)' % (semcheck.DEPTH, g_cps(cps(source_of(case))), g_list(qs), semcheck.LIMIT)

def oracle(case, io):
    if not isinstance(io, dict) or 'drivers' not in io:
        return None
    for driver, qs in io['drivers'].items():
        for qi, iq in enumerate(qs):
            if iq['end'] == 'cyc-or-deep':
                continue
            if iq['problems']:
                return '[%s driver, query %d] %s' % (driver, qi, iq['problems'][0])
            if iq['leftover']:
                return '[%s driver, query %d] query variables still bound after the enumeration ended' % (driver, qi)
    if case.get('nomodel'):
        # no model for this program: the two drivers must agree with each other, and the sharing check is reported here
        a, b = io['drivers'].get('compiled', []), io['drivers'].get('api', [])
        for qi, (x, y) in enumerate(zip(a, b)):
            if x['end'] != 'done' or y['end'] != 'done':
                continue
            if x['count'] != y['count'] or x['answers'] != y['answers']:
                return 'query %d: the compiled clause and the same goals driven through the API give different answers (%d / %d)' % (qi, x['count'], y['count'])
        for driver, qs in io['drivers'].items():
            for qi, iq in enumerate(qs):
                if iq.get('sharing'):
                    return '[%s driver, query %d] %s' % (driver, qi, iq['sharing'][0])
    return None

def compare(case, io, mo):
    if mo and mo[0] == 'front-rejects':
        return 'the model front end rejects a generated program (harness problem)'
    if not isinstance(io, dict) or 'drivers' not in io:
        return 'unexpected implementation observation'
    for driver, qs in io['drivers'].items():
        for qi, (q, iq, m) in enumerate(zip(case['queries'], qs, mo)):
            if iq['end'] in ('cyc-or-deep', 'cap'):
                continue
            qtxt = ast_io.term_text(['fun', q[0], q[1]]) if q[1] else q[0]
            if m and m[0] == 'stuck':
                return 'model compiler stuck (harness problem)'
            manswers, mcount, merr = semcheck.canon_answers(m[0]), m[1], bool(m[2])
            ianswers = iq['answers']
            if merr:
                k = min(len(manswers), len(ianswers))
                if manswers[:k] != ianswers[:k]:
                    return '[%s driver] query %s: answers differ from the model before the model\'s depth limit' % (driver, qtxt)
                continue
            if iq['count'] != mcount or ianswers != manswers:
                k = next((j for j, (a, b) in enumerate(zip(ianswers, manswers)) if a != b), min(len(ianswers), len(manswers)))
                show = lambda ans: [terms.show_term(terms.obs_term(x)) for x in ans[k]] if k < len(ans) else None
                return '[%s driver] query %s: get_value of the query variables differs from the model at answer %d (implementation %d answers, model %d): %s, model: %s' % (
                    driver, qtxt, k + 1, iq['count'], mcount, show(ianswers), show(manswers))
    for driver, qs in io['drivers'].items():
        for qi, iq in enumerate(qs):
            if iq.get('sharing'):
                return '[%s driver, query %d] %s' % (driver, qi, iq['sharing'][0])
    return None

def nontrivial(case, io):
    if not isinstance(io, dict) or 'drivers' not in io:
        return False
    fs = set(case.get('features', []))
    return any(iq['count'] >= 1 for iq in io['drivers'].get('compiled', [])) and \
        bool(fs & {'extra-arguments', 'meta:findall/0', 'meta:once/0', 'outer-first'})

def describe(case):
    return {'mode': 'prog', 'program': source_of(case),
            'queries': [(ast_io.term_text(['fun', q[0], q[1]]) if q[1] else q[0]) for q in case['queries']],
            'drivers': 'compiled: yp.query on the main predicate; api: the harness plays the clauses of the main predicate itself, one yp.query generator per body goal'}

def shrink(case):
    cl = case['clauses']
    if len(case['queries']) > 1:
        for i in range(len(case['queries'])):
            yield dict(case, queries=[case['queries'][i]])
    for i, (name, args, body) in enumerate(cl):
        if name == 't':
            gs = flat_goals(body)
            for j in range(len(gs)):
                rest = gs[:j] + gs[j + 1:]
                if rest:
                    b = rest[-1]
                    for g in reversed(rest[:-1]):
                        b = ['and', g, b]
                    yield dict(case, clauses=cl[:i] + [[name, args, b]] + cl[i + 1:])
    for i in range(len(cl)):
        if cl[i][0] != 't' or sum(1 for c in cl if c[0] == 't') > 1:
            yield dict(case, clauses=cl[:i] + cl[i + 1:])
