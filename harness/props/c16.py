"""C16 - source literals and Python values denote the same terms.

Source side (model, Lang/Front.v + Lang/Literals.v): the text of every case is run through the model front end; the
AST of each literal is what the expected run-time values are computed from.
Run-time side (implementation only, public API): every literal is compiled in fact, head and body position, loaded
into two engines and queried; to_python of the answers, unification with terms built through
atom/functor/listpair/makelist (both directions, same and other engine, and a mutated term that must NOT unify),
object identity of atoms per engine."""
import functools, io, os, random, shutil, subprocess, sys
from lib import ast_io
from lib.terms import g_str, g_list
from lib import terms as TM

ID = 'C16'
IMPORTS = ['Lang.Ast', 'Lang.Front', 'Lang.Denote', 'Lang.RunC16']
THEOREMS = ['C16_quoted_atom_roundtrip', 'C16_quoted_atom_in_context', 'C16_quoted_atom_literal', 'C16_plain_atom_token',
            'C16_numeral_token', 'C16_numeral_leading_zeros', 'C16_numeral_roundtrip', 'C16_variable_token',
            'C16_list_pattern_folds', 'C16_list_literal', 'C16_anon_fresh', 'C16_anon_name_inj', 'C16_anon_not_source',
            'C16_literal_denotation', 'C16_makelist_listpair_chain', 'C16_to_python_literal', 'C16_to_python_compiled_literal',
            'C16_api_term_unifies', 'C16_atom_identity', 'C16_atom_unify_by_name',
            'C16_file_bytes_roundtrip', 'C16_file_entry_point', 'C16_cli_reads_text', 'C16_file_decoding_strict', 'C16_file_encoding_injective', 'C16_file_ascii_bytes',
            'C16_to_python_objects_value', 'C16_to_python_fresh_lists', 'C16_to_python_results_disjoint', 'C16_to_python_twice']
RULE = ('programs of facts fact_i(L, V1..Vn), rules body_i(R, V1..Vn) :- R = L and at_j(A) for random literals L: plain and quoted '
        'atoms (spaces, quotes, line breaks, tabs, non-ASCII incl. astral and combining code points, digits-only, empty, [] ), '
        'integers with leading zeros and bignums, named and anonymous variables, compound terms with plain, quoted and operator '
        'names, nesting up to depth 6, lists of 0-4 items, [..|T] patterns, \'.\'(H,T). Each literal is queried with its variables '
        'unbound and bound to ground values, compared with API-built terms from the same and from another engine. All literals of a program '
        'also together in one clause head and one clause body; groups of 2-4 DIFFERENT literals that print alike when quotes are left out '
        '(a subterm / a run of arguments with its commas / the inside of a list pattern as ONE atom; number, variable, _ as atoms); atoms of '
        'characters that text layers treat specially (all str.splitlines breaks, CR LF, lone CR, Unicode spaces, controls, byte order marks); '
        'clause layout LF / CR LF / CR; the fact/body/atom clauses compiled through every entry point (string, file of the UTF-8 bytes, the '
        'command line from a file and from standard input) must denote the same terms. Files given as BYTES (UTF-8 of a random atom, damaged '
        'or extended by overlong forms, surrogates, truncated / stray bytes, boundary code points, byte order marks, CR forms) read through '
        'the file / command-line / standard-input entry points against the model\'s strict UTF-8 decoder and front end. '
        'Every value returned by to_python is changed in place at every depth after it was compared (append, insert, +=, clear), every conversion '
        'is made four times (function, method, both again), all literals are converted again at the end of the case, and no list object may occur in two results. '
        'Non-trivial: the literal contains a quoted atom with a quote, line break or non-ASCII character, or a list pattern. '
        'Distinct by hash of the program text.')
TRUSTED_BASE = [
    'Coq 8.16.1 kernel (coqc); vm_compute for the in-Coq evaluation of the front-end model on every case',
    'no axioms: all C16 theorems are closed under the global context',
    'hand-written model Lang/Lexer.v, Parser.v, Unquote.v, Literals.v of the lexer, parser, unquoteString and visitor; tied to /repo by the differential runs of C10 and C16',
    'the run-time half of C16 (to_python, atom table, unification of API-built terms with compiled literals) is CHECKED on the implementation, not proved: '
    'expected values are computed from the model AST by harness/props/c16.py (py_of)',
    'harness: generators, driver of the implementation, parser of the printed observations',
    'hand-written model Lang/Utf8.v of UTF-8 encoding / strict decoding (what FileStream / StdinStream do with the bytes); tied by the byte-file cases and the per-program fingerprint',
]
ASSUMPTIONS = ['quoted atoms contain no backslash (the grammar cannot express one); to_python is specified for proper lists only',
               'the tail of a [..|T] pattern is a variable (grammar)']
CASE_TIMEOUT = 30
POSITIONS = ('fact', 'body', 'rbody', 'ite', 'alt', 'meta')
COQ_CHUNK = 40

# ------------------------------------------------------------------ literals

PLAIN = ['a', 'b', 'foo', 'bar_1', 'x1', 'aB', 'trueish', 'nil']
QUOTED = ['hello world', "it's", "'", "''", "a'b'c", 'two\nlines', '\n', 'tab\there', '', ' ', '[]', 'A', 'Abc', '_x', '_',
          '123', '007', '0', '\u00e9', '\u00df', 'na\u00efve', '\u03bbx', '\u65e5\u672c\u8a9e', '\U0001F600', 'a\U0001F600b',
          'e\u0301', '\u200d', '\U0001F468\u200d\U0001F469', 'a\u0308\u0323',
          'a.b', 'a,b', '(', ')', '%', '% not a comment', ':-', 'true', 'fail', '!', '[a|b]', '"dq"', 'x\r\ny', '\x00', '\x7f',
          'don\'t "quote" me', '\U00010000', '\uffff', '\U0010ffff', 'a b  c', "'quoted'", 'atom(a)', '.', '\u2028', '\x85', '\x0b\x0c']
NUMS = ['0', '1', '7', '42', '007', '000', '123456789012345678901234567890', '10']
VARS = ['X', 'Y', 'Tail', '_G', 'Abc']
FNAMES = ['f', 'g', 'foo', 'point', 'hello world', "it's", 'é', 'A', '123', '[]', '']
BINOPS = ['=', '\\=', '==', '\\==', '<', '>', '=<', '>=']

@functools.lru_cache(None)
def text_layer_chars():
    """characters that a text layer of Python may treat specially, computed from this interpreter (nothing listed by hand but
    NUL, ctrl-Z and the byte order marks): everything str.splitlines breaks a line at, everything str.isspace, the controls"""
    br, sp = [], []
    for cp in list(range(0, 0xD800)) + list(range(0xE000, 0x10000)):
        c = chr(cp)
        if c == '\\':
            continue
        if len(('a' + c + 'b').splitlines()) > 1: br.append(c)
        elif c.isspace(): sp.append(c)
    ctl = [chr(c) for c in range(0, 32)] + ['\x7f'] + [chr(c) for c in range(0x80, 0xa0)]
    return {'breaks': tuple(br), 'spaces': tuple(sp), 'controls': tuple(ctl), 'marks': ('\ufeff', '\ufffe', '\x00', '\x1a')}

def rnd_text_layer_atom(rng):
    """an atom text of ordinary characters with line breaks of every kind (CR LF, lone CR, VT, FF, FS..RS, NEL, LS, PS),
    other white space, control characters and byte order marks in it"""
    cl = text_layer_chars()
    out = []
    for _ in range(rng.choice([1, 2, 2, 3, 4, 6])):
        r = rng.random()
        if r < 0.30: out.append(rng.choice(['a', 'b', 'line', 'x y', '\u00e9', '\u65e5', 'Z', '7', "'"]))
        elif r < 0.45: out.append('\r\n')
        elif r < 0.55: out.append('\r')
        elif r < 0.59: out.append('\n')
        elif r < 0.62: out.append('\n\r')
        elif r < 0.78: out.append(rng.choice(cl['breaks']))
        elif r < 0.86: out.append(rng.choice(cl['spaces']))
        elif r < 0.93: out.append(rng.choice(cl['controls']))
        else: out.append(rng.choice(cl['marks']))
    return ''.join(out)

def rnd_atom(rng):
    r = rng.random()
    if r < 0.12: return ['atom', rnd_text_layer_atom(rng)]
    return ['atom', rng.choice(PLAIN) if r < 0.45 else rng.choice(QUOTED)]

# ---- print-ambiguous literals: different literals whose text is the same once the quotes are left out

def flat_text(t, sep=',', atoms='raw'):
    """the text of a literal as a printer that does not quote atoms shows it (str(), a log line, a debug comment);
    atoms='source': atoms in source spelling; atoms='repr': Python repr of the name unless it starts like a word"""
    k = t[0]
    if k == 'atom':
        if atoms == 'source': return ast_io.atom_text(t[1])
        if atoms == 'repr' and not (t[1][:1].isalpha() or t[1][:1] == '_'): return repr(t[1])
        return t[1]
    if k in ('num', 'var'): return t[1]
    if k == 'fun':
        name = flat_text(['atom', t[1]], sep, atoms)
        return '%s(%s)' % (name, sep.join(flat_text(a, sep, atoms) for a in t[2])) if t[2] else name
    if k == 'list': return '[' + sep.join(flat_text(a, sep, atoms) for a in t[1]) + ']'
    if k == 'pair':
        items, tail = [t[1]], t[2]
        while tail[0] == 'pair':
            items.append(tail[1]); tail = tail[2]
        return '[' + sep.join(flat_text(a, sep, atoms) for a in items) + '|' + flat_text(tail, sep, atoms) + ']'
    raise ValueError(t)

def _subterm_paths(t, p=()):
    yield p
    k = t[0]
    if k == 'fun':
        for i, a in enumerate(t[2]): yield from _subterm_paths(a, p + ((2, i),))
    elif k == 'list':
        for i, a in enumerate(t[1]): yield from _subterm_paths(a, p + ((1, i),))
    elif k == 'pair':
        yield from _subterm_paths(t[1], p + ((1, None),))

def _get(t, p):
    for slot, i in p:
        t = t[slot] if i is None else t[slot][i]
    return t

def _put(t, p, new):
    if not p: return new
    (slot, i), rest = p[0], p[1:]
    t = list(t)
    if i is None:
        t[slot] = _put(t[slot], rest, new)
    else:
        t[slot] = list(t[slot]); t[slot][i] = _put(t[slot][i], rest, new)
    return t

def ambiguate(rng, t):
    """a literal that differs from t and reads like t when printed without quotes: one subterm, or a run of neighbouring
    arguments / list items (with the separators between them), or a list pattern's inside, becomes ONE atom whose name is
    that text; a number, a variable or `_` becomes the atom of that spelling.  None if the text cannot be an atom name."""
    sep = rng.choice([',', ',', ', '])
    style = rng.choice(['raw', 'raw', 'raw', 'source', 'repr'])
    paths = list(_subterm_paths(t))
    for _ in range(8):
        p = rng.choice(paths)
        u = _get(t, p)
        r = rng.random()
        new = None
        if u[0] in ('fun', 'list') and len(u[2 if u[0] == 'fun' else 1]) >= 2 and r < 0.6:
            slot = 2 if u[0] == 'fun' else 1
            args = u[slot]
            i = rng.randrange(0, len(args) - 1)
            j = rng.randrange(i + 1, len(args))
            merged = ['atom', sep.join(flat_text(a, sep, style) for a in args[i:j + 1])]
            new = list(u); new[slot] = args[:i] + [merged] + args[j + 1:]
        elif u[0] == 'pair' and r < 0.6:
            new = ['list', [['atom', flat_text(u, sep, style)[1:-1]]]]
        elif u[0] == 'atom':
            new = ['atom', rng.choice([ast_io.atom_text(u[1], True), repr(u[1]), u[1] + ' ', ' ' + u[1], '"' + u[1] + '"'])]
        elif p or u[0] in ('num', 'var'):
            new = ['atom', flat_text(u, sep, style)]
        if new is None or new == u:
            continue
        v = _put(t, p, new)
        if any('\\' in a for a in atoms_of(v)) or v == t:
            continue
        return v
    return None

SIMPLE_ATOMS = ['a', 'b', 'i', 'x', 'y', 'foo', 'h', 'nil', 'aB', 'A', 'X', '_', '_x', 'two words', "it's", '1', '1.0', '0', '[]', "'", '\u00e9', 'a|b', '']

def rnd_simple(rng, depth, top=True):
    """a small literal with mostly word-like atoms (the kind whose unquoted print can be mistaken for structure)"""
    r = rng.random()
    if not top and (depth <= 0 or r < 0.35):
        r = rng.random()
        if r < 0.62: return ['atom', rng.choice(SIMPLE_ATOMS)]
        if r < 0.76: return ['num', rng.choice(NUMS)]
        if r < 0.82: return ['list', []]
        if r < 0.94: return ['var', rng.choice(VARS)]
        return ['var', '_']
    r = rng.random()
    n = rng.choice([1, 2, 2, 2, 3])
    if r < 0.5:
        return ['fun', rng.choice(['f', 'g', 'h', 'foo', 'two words', 'A', '']), [rnd_simple(rng, depth - 1, False) for _ in range(n)]]
    if r < 0.85:
        return ['list', [rnd_simple(rng, depth - 1, False) for _ in range(n)]]
    t = ['var', rng.choice(['Tail', 'X', '_'])]
    for x in reversed([rnd_simple(rng, depth - 1, False) for _ in range(n)]):
        t = ['pair', x, t]
    return t

def confusable_group(rng):
    """2-4 DIFFERENT atom names of one program that a normalising layer would identify.  A relation is chosen first -
    Unicode normal forms (NFC / NFD / NFKC / NFKD), case mappings, blanks and invisible characters around the name, the special
    character dropped - then the name and its distinct images under it; alone, as functor names, as arguments, in lists"""
    import unicodedata as U
    from lib import emitcheck
    cl = emitcheck.unicode_classes()
    rel = rng.choice(['norm', 'norm', 'case', 'case', 'blank', 'drop'])
    if rel == 'norm':
        ch = rng.choice(cl[rng.choice(['norm_ascii', 'norm_ascii_prefix', 'ident_renamed'])])
    elif rel == 'case':
        ch = rng.choice(cl[rng.choice(['case_ascii', 'case_ascii_prefix', 're_ignorecase', 'ident_start'])])
    else:
        ch = emitcheck.rnd_lookalike_char(rng)
    base = rng.choice(['', 'a', 'ab', 'Ab', 'x1', 'A']) + ch + rng.choice(['', 'b', 'B', '1', '_'])
    if rng.random() < 0.25:
        base = rng.choice([q for q in QUOTED if not q.isascii()])
    if rel == 'norm': forms = [U.normalize(f, base) for f in ('NFD', 'NFC', 'NFKC', 'NFKD')] + [U.normalize('NFD', base.upper())]
    elif rel == 'case': forms = [base.lower(), base.upper(), base.casefold(), base.swapcase(), base.title()]
    elif rel == 'blank': forms = [base + ' ', ' ' + base, base + '\u200d', '\ufeff' + base, base + '\n', '\t' + base, base.strip() or 'a']
    else: forms = [''.join(c for c in base if c.isascii()), ''.join(c for c in base if c.isalnum()), base[:-1], base[1:]]
    names = [base]
    for f in forms:
        if f not in names and '\\' not in f:
            names.append(f)
    if len(names) == 1:
        names.append(base + 'x')
    rest = names[1:]
    rng.shuffle(rest)
    picked = [base] + rest[:3]
    rng.shuffle(picked)
    shape = rng.choice(['atom', 'atom', 'arg', 'name', 'list'])
    if shape == 'atom': return [['atom', n] for n in picked]
    if shape == 'arg': return [['fun', 'f', [['atom', n], ['var', 'X']]] for n in picked]
    if shape == 'name': return [['fun', n, [['atom', 'a']]] for n in picked]
    return [['list', [['atom', n], ['atom', picked[0]]]] for n in picked]

def ambiguous_group(rng):
    """2-4 DIFFERENT literals of one program that print alike without quotes, e.g. f(a,b) f('a,b') f('a', b) 'f(a,b)'"""
    base = rnd_simple(rng, rng.choice([1, 1, 2, 2, 3]))
    group = [base]
    for _ in range(rng.choice([1, 2, 3])):
        v = ambiguate(rng, rng.choice(group))
        if v is not None and v not in group:
            group.append(v)
    if rng.random() < 0.35:
        w = rng.choice([lambda x: ['fun', 'w', [x]], lambda x: ['list', [x]], lambda x: ['fun', 'k', [['atom', 'c'], x]]])
        group = [w(x) for x in group]
    rng.shuffle(group)
    return group

def rnd_lit(rng, depth, allow_var=True):
    r = rng.random()
    if depth <= 0 or r < 0.22:
        r = rng.random()
        if r < 0.55: return rnd_atom(rng)
        if r < 0.75: return ['num', rng.choice(NUMS)]
        if r < 0.80: return ['list', []]
        if not allow_var: return rnd_atom(rng)
        if r < 0.92: return ['var', rng.choice(VARS)]
        return ['var', '_']
    if r < 0.50:
        return ['fun', rng.choice(FNAMES), [rnd_lit(rng, depth - 1) for _ in range(rng.choice([1, 1, 2, 2, 3, 0]))]]
    if r < 0.56:
        return ['fun', rng.choice(BINOPS), [rnd_lit(rng, depth - 1), rnd_lit(rng, depth - 1)]]
    if r < 0.60:
        return ['fun', rng.choice(['-', '+']), [rnd_lit(rng, depth - 1)]]
    if r < 0.82:
        return ['list', [rnd_lit(rng, depth - 1) for _ in range(rng.choice([0, 1, 2, 3, 4]))]]
    if r < 0.86:
        return ['fun', '.', [rnd_lit(rng, depth - 1), ['list', [rnd_lit(rng, depth - 1) for _ in range(rng.choice([0, 1, 2]))]]]]
    t = ['var', rng.choice(['Tail', 'X', '_'])]
    for x in reversed([rnd_lit(rng, depth - 1) for _ in range(rng.choice([1, 2, 3]))]):
        t = ['pair', x, t]
    return t

def named_vars(t, acc=None):
    if acc is None: acc = []
    k = t[0]
    if k == 'var':
        if t[1] != '_' and t[1] not in acc: acc.append(t[1])
    elif k == 'fun':
        for a in t[2]: named_vars(a, acc)
    elif k == 'list':
        for a in t[1]: named_vars(a, acc)
    elif k == 'pair':
        named_vars(t[1], acc); named_vars(t[2], acc)
    return acc

def tail_vars(t, acc=None):
    """variables used as the tail of a list pattern (they get list values when bound)"""
    if acc is None: acc = set()
    k = t[0]
    if k == 'fun':
        for a in t[2]: tail_vars(a, acc)
    elif k == 'list':
        for a in t[1]: tail_vars(a, acc)
    elif k == 'pair':
        tail_vars(t[1], acc)
        if t[2][0] == 'var': acc.add(t[2][1])
        else: tail_vars(t[2], acc)
    return acc

def atoms_of(t, acc=None):
    if acc is None: acc = []
    k = t[0]
    if k == 'atom':
        if t[1] not in acc: acc.append(t[1])
    elif k == 'fun':
        for a in t[2]: atoms_of(a, acc)
    elif k == 'list':
        for a in t[1]: atoms_of(a, acc)
    elif k == 'pair':
        atoms_of(t[1], acc); atoms_of(t[2], acc)
    return acc

# the Python value to_python must give for a literal, under a binding of its named variables (None = unbound).
# encoding (JSON-able): str atom name | int | None | ['l', items...] list | ['t', name, [args]] compound
def py_of(t, env):
    k = t[0]
    if k == 'atom': return ['l'] if t[1] == '[]' else t[1]
    if k == 'num': return int(t[1])
    if k == 'var':
        v = env.get(t[1])
        return None if v is None else py_of(v, {})
    if k == 'fun':
        if t[1] == '.' and len(t[2]) == 2:
            h = py_of(t[2][0], env); tl = py_of(t[2][1], env)
            if not (isinstance(tl, list) and tl and tl[0] == 'l'): return ['raised', 'TypeError']
            return ['l', h] + tl[1:]
        return ['t', t[1], [py_of(a, env) for a in t[2]]]
    if k == 'list': return ['l'] + [py_of(a, env) for a in t[1]]
    if k == 'pair':
        h = py_of(t[1], env); tl = py_of(t[2], env)
        if isinstance(tl, list) and tl and tl[0] == 'raised': return tl
        if not (isinstance(tl, list) and tl and tl[0] == 'l'): return ['raised', 'TypeError']
        return ['l', h] + tl[1:]
    raise ValueError(t)

def has_raise(v):
    if isinstance(v, list):
        if v and v[0] == 'raised': return True
        return any(has_raise(x) for x in v)
    return False

def enc(v):
    if isinstance(v, list): return ['l'] + [enc(x) for x in v]
    if isinstance(v, tuple): return ['t', v[0], [enc(x) for x in v[1]]]
    if v is None or isinstance(v, (str, int)): return v
    return ['other', type(v).__name__]

def rename_anon(t, counter):
    """the generating AST with `_` numbered the way one compilation numbers them"""
    k = t[0]
    if k == 'var':
        if t[1] == '_':
            counter[0] += 1
            return ['var', 'x%d' % counter[0]]
        return t
    if k == 'fun': return ['fun', t[1], [rename_anon(a, counter) for a in t[2]]]
    if k == 'list': return ['list', [rename_anon(a, counter) for a in t[1]]]
    if k == 'pair':
        h = rename_anon(t[1], counter)
        return ['pair', h, rename_anon(t[2], counter)]
    return t

def mutate_leaf(rng, t):
    """replace one constant leaf by a different constant; None if there is none"""
    paths = []
    def walk(u, p):
        k = u[0]
        if k in ('atom', 'num'): paths.append(p)
        elif k == 'fun':
            for i, a in enumerate(u[2]): walk(a, p + [(2, i)])
        elif k == 'list':
            if not u[1]: paths.append(p)
            for i, a in enumerate(u[1]): walk(a, p + [(1, i)])
        elif k == 'pair':
            walk(u[1], p + [(1, None)]); walk(u[2], p + [(2, None)])
    walk(t, [])
    if not paths: return None
    path = rng.choice(paths)
    def rebuild(u, p):
        if not p:
            if u[0] == 'atom':
                if u[1].isdigit() and u[1].isascii(): return ['num', u[1]]        # '123' is not 123
                return ['atom', u[1] + '#'] if rng.random() < 0.7 else ['num', '5']
            if u[0] == 'num': return ['num', str(int(u[1]) + 1)] if rng.random() < 0.7 else ['atom', u[1]]
            return ['atom', 'not_nil']
        (slot, i), rest = p[0], p[1:]
        u = list(u)
        if i is None:
            u[slot] = rebuild(u[slot], rest)
        else:
            u[slot] = list(u[slot]); u[slot][i] = rebuild(u[slot][i], rest)
        return u
    return rebuild(t, path)

GROUND = [['atom', 'v1'], ['atom', 'hello world'], ['num', '3'], ['fun', 'k', [['atom', 'z']]], ['list', [['atom', 'p'], ['num', '1']]], ['list', []]]
GROUND_LISTS = [['list', []], ['list', [['atom', 'z']]], ['list', [['num', '1'], ['atom', "q'q"]]]]

def make_case(rng, lits):
    clauses = []
    envs = []
    atoms = []
    for i, lit in enumerate(lits):
        vs = named_vars(lit)
        tv = tail_vars(lit)
        env = {v: (rng.choice(GROUND_LISTS) if v in tv else rng.choice(GROUND)) for v in vs}
        envs.append(env)
        vargs = [['var', v] for v in vs]
        clauses.append(['fact%d' % i, [lit] + vargs, ['true']])
        clauses.append(['body%d' % i, [['var', 'Res']] + vargs, ['call', '=', [['var', 'Res'], lit]]])
        clauses.append(['rbody%d' % i, [['var', 'Res']] + vargs, ['and', ['true'], ['call', '=', [lit, ['var', 'Res']]]]])
        # the literal inside control constructs and as an argument of a meta-call
        clauses.append(['ite%d' % i, [['var', 'Res']] + vargs, ['or', ['if', ['call', '=', [['var', 'Res'], lit]], ['true']], ['fail']]])
        clauses.append(['alt%d' % i, [['var', 'Res']] + vargs, ['or', ['fail'], ['and', ['call', 'yes', []], ['call', '=', [lit, ['var', 'Res']]]]]])
        clauses.append(['meta%d' % i, [['var', 'Res']] + vargs, ['call', 'call', [['fun', 'eq', [['var', 'Res']]], lit]]])
        for a in atoms_of(lit):
            if a not in atoms: atoms.append(a)
    clauses.append(['yes', [], ['true']])
    clauses.append(['eq', [['var', 'A'], ['var', 'B']], ['call', '=', [['var', 'A'], ['var', 'B']]]])
    for j, a in enumerate(atoms):
        clauses.append(['at%d' % j, [['atom', a]], ['true']])
    # all literals of the program together in ONE clause: in one head, and in one body
    clauses.append(['allh', list(lits), ['true']])
    goals = [['call', '=', [['var', 'Res%d' % i], lit]] for i, lit in enumerate(lits)]
    body = goals[-1]
    for g in reversed(goals[:-1]):
        body = ['and', g, body]
    clauses.append(['allb', [['var', 'Res%d' % i] for i in range(len(lits))], body])
    muts = [mutate_leaf(rng, l) for l in lits]
    for i, m in enumerate(muts):
        if m is not None:
            vargs = [['var', v] for v in named_vars(lits[i])]
            # a term that differs in one constant never unifies with the literal: \+ succeeds exactly once
            clauses.append(['neg%d' % i, vargs, ['not', ['call', '=', [lits[i], m]]]])
            clauses.append(['pos%d' % i, vargs, ['call', '=', [lits[i], lits[i]]]])
    # the layout between clauses is white space of the grammar: LF, CR LF, lone CR, blanks, tabs
    sep = rng.choice(['\n', '\n', '\r\n', '\r\n', '\r', '\n\n', ' ', '\t\r\n ', '\r\r\n'])
    src = sep.join(ast_io.clause_text(c) for c in clauses) + sep
    # the part of the program that is also given to the compiler through its other entry points (parsing dominates the cost)
    small = [c for c in clauses if c[0].startswith(('fact', 'body', 'at'))]
    src_min = sep.join(ast_io.clause_text(c) for c in small) + sep
    pool = (atoms or ['a']) + ['[]', 'zz', '']
    calls = [[rng.random() < 0.4, rng.choice(pool)] for _ in range(rng.choice([4, 8, 12, 16]))]
    return {'src': src, 'src_min': src_min, 'lits': lits, 'envs': envs, 'atoms': atoms, 'muts': muts, 'clauses': clauses, 'atom_calls': calls,
            'cli_sub': rng.random() < 0.06, 'file_opts': rng.random() < 0.5}

# ---- files given as BYTES: what the file / command-line entry points read (strict UTF-8, no line-end or BOM handling)

INVALID_UTF8 = [[0x80], [0xBF], [0xC3], [0xE2, 0x82], [0xF0, 0x9F, 0x98], [0xC0, 0x80], [0xC1, 0xBF], [0xE0, 0x80, 0x80], [0xE0, 0x9F, 0xBF],
                [0xF0, 0x80, 0x80, 0x80], [0xF0, 0x8F, 0xBF, 0xBF], [0xED, 0xA0, 0x80], [0xED, 0xBF, 0xBF], [0xF4, 0x90, 0x80, 0x80],
                [0xF5, 0x80, 0x80, 0x80], [0xF8, 0x88, 0x80, 0x80, 0x80], [0xFE], [0xFF], [0xC3, 0x28], [0xE2, 0x28, 0xA1]]
BOUNDARY_UTF8 = [[0x7F], [0xC2, 0x80], [0xDF, 0xBF], [0xE0, 0xA0, 0x80], [0xED, 0x9F, 0xBF], [0xEE, 0x80, 0x80], [0xEF, 0xBF, 0xBF],
                 [0xF0, 0x90, 0x80, 0x80], [0xF4, 0x8F, 0xBF, 0xBF], [0xEF, 0xBB, 0xBF], [0x0D], [0x0D, 0x0A], [0xC2, 0x85], [0xE2, 0x80, 0xA8], [0x00], [0x1A]]

def bytes_case(rng):
    """a file p('<payload>'). whose payload is the UTF-8 form of a random atom text, usually damaged or extended by byte
    sequences at the edges of the encoding (shortest/longest forms of each length, surrogates, overlong forms, truncated
    and stray bytes, byte order mark, CR / CR LF / NEL / LS, NUL, ctrl-Z); sometimes a byte order mark in front of the file"""
    text = rnd_text_layer_atom(rng) if rng.random() < 0.6 else rng.choice(QUOTED)
    payload = list(text.encode('utf8'))
    for _ in range(rng.choice([0, 1, 1, 2])):
        ins = rng.choice(INVALID_UTF8) if rng.random() < 0.5 else rng.choice(BOUNDARY_UTF8)
        pos = rng.choice([0, len(payload), rng.randrange(len(payload) + 1)])
        payload[pos:pos] = ins
    if rng.random() < 0.15 and payload:
        del payload[rng.randrange(len(payload))]
    payload = [b for b in payload if b not in (0x27, 0x5C)]
    pre = rng.choice([[], [], [], [], [0xEF, 0xBB, 0xBF], [0x0D, 0x0A], [0xFF, 0xFE]])
    nl = rng.choice([[0x0A], [0x0D, 0x0A], [0x0D], []])
    return {'kind': 'bytes', 'bytes': pre + list(b"p('") + payload + list(b"').") + nl}

def gen(rng, tier):
    n = 100 if tier == 'quick' else 1800
    cases = []
    for _ in range(n):
        lits = [rnd_lit(rng, rng.choice([0, 1, 2, 2, 3, 3, 4, 6])) for _ in range(rng.choice([1, 2, 3, 4]))]
        cases.append(make_case(rng, lits))
    for _ in range(40 if tier == 'quick' else 600):
        # different literals of ONE program whose texts coincide when the quotes are left out
        cases.append(make_case(rng, ambiguous_group(rng)))
    for _ in range(12 if tier == 'quick' else 200):
        # different names of one program that differ only up to Unicode normalisation, case or surrounding blanks
        cases.append(make_case(rng, confusable_group(rng)))
    for _ in range(12 if tier == 'quick' else 150):
        # atoms full of characters that text layers treat specially, alone and inside terms
        lits = [['atom', rnd_text_layer_atom(rng)], ['fun', rng.choice(FNAMES), [['atom', rnd_text_layer_atom(rng)], ['list', [['atom', rnd_text_layer_atom(rng)]]]]]]
        if rng.random() < 0.5:
            lits.append(['fun', rnd_text_layer_atom(rng), [['var', 'X']]])
        cases.append(make_case(rng, lits))
    for _ in range(40 if tier == 'quick' else 1500):
        cases.append(bytes_case(rng))
    return cases

def builtin_corpus():
    rng = random.Random(16)
    A = lambda s: ['atom', s]
    L = lambda *xs: ['list', list(xs)]
    F = lambda f, *xs: ['fun', f, list(xs)]
    V = lambda v: ['var', v]
    def P(items, tail):
        t = tail
        for x in reversed(items): t = ['pair', x, t]
        return t
    groups = [
        [A(q) for q in QUOTED[:12]], [A(q) for q in QUOTED[12:24]], [A(q) for q in QUOTED[24:36]], [A(q) for q in QUOTED[36:]],
        [['num', n] for n in NUMS], [A('123'), ['num', '123'], A('007'), ['num', '007']],
        [L(), A('[]'), L(L()), L(A('[]')), F('.', A('a'), L()), F('.', A('a'), A('[]'))],
        [L(A('a'), A('b'), A('c')), P([A('a'), A('b')], V('Tail')), P([A('a')], V('_')), P([V('X')], V('X')), L(V('X'), V('Y'), V('X'))],
        [F('f', V('_'), V('_')), F('f', V('X'), V('X')), F('f', V('_'), V('X'), V('_'))],
        [F('hello world', A("it's")), F("it's", A('hello world'), L(A("'"))), F('', A('')), F('[]', L())],
        [F('=', A('a'), A('b')), F('-', ['num', '1']), F('-', F('-', ['num', '1'])), F('+', A('a')), F('\\==', V('X'), L())],
            [F('f', F('f', F('f', F('f', F('f', F('f', A('deep'))))))), L(L(L(L(L(L(A('deep')))))))],
        [A('é'), A('é'), A('\U0001F600'), F('\U0001F600', A('\U0001F600')), L(A('日本語'), A('ß'))],
        [A('two\nlines'), A('x\r\ny'), F('two\nlines', A('\n'))],
    ]
    cl = text_layer_chars()
    br = list(cl['breaks'])
    # every line-breaking character (computed: str.splitlines), alone, doubled with LF, inside a name, and the marks
    groups.append([A('a' + c + 'b') for c in br[:4]])
    groups.append([A('a' + c + 'b') for c in br[4:8]])
    groups.append([A('a' + c + 'b') for c in br[8:]])
    groups.append([A('\r'), A('\r\n'), A('\n\r'), A('a\r\r\nb')])
    groups.append([F('r' + c + 's', A(c), L(A(c + '\n'))) for c in br[:6]])
    groups.append([A(m + 'x') for m in cl['marks']] + [A('x' + cl['marks'][0])])
    groups.append([L(A('x'), A('y')), L(A('x,y')), L(A('x'), A(',y')), A('[x,y]')])
    groups.append([F('f', A('a'), A('b')), F('f', A('a,b')), F('f', A('a'), A('b'), A('c')), F('f', A('a,b'), A('c')), F('f', A('a'), A('b,c'))])
    groups.append([F('g', F('h', A('i'))), F('g', A('h(i)')), A('g(h(i))'), F('g', F('h', A('i')), A('j')), F('g', A('h(i),j'))])
    groups.append([F('f', V('X')), F('f', A('X')), F('f', V('_')), F('f', A('_')), F('f', ['num', '1']), F('f', A('1'))])
    groups.append([P([A('a')], V('T')), L(A('a|T')), L(A('a'), V('T')), L(A('a'), A('T'))])
    L = [make_case(rng, g) for g in groups]
    for seq in INVALID_UTF8 + BOUNDARY_UTF8:
        L.append({'kind': 'bytes', 'bytes': list(b"p('a") + [b for b in seq if b not in (0x27, 0x5C)] + list(b"z').\n")})
    L.append({'kind': 'bytes', 'bytes': [0xEF, 0xBB, 0xBF] + list(b"p('a').\n")})
    return L

def model_expr(case):
    if case.get('kind') == 'bytes':
        return '(run_bytes %s)' % g_list(['%d%%N' % b for b in case['bytes']])
    envs = g_list([g_list(['(%s, %s)' % (g_str(v), ast_io.g_sterm(t)) for v, t in env.items()]) for env in case['envs']])
    calls = g_list(['(%s, %s)' % ('true' if e else 'false', g_str(n)) for e, n in case['atom_calls']])
    return '(run_c16b %s %s %s)' % (g_str(case['src']), envs, calls)

_UNSPEC = ['unspecified']

def _mv(v):
    """a Python value printed by the model (Lang/Denote.pyval_obs) in the encoding of enc()"""
    k = v[0]
    if k == 's': return v[1]
    if k == 'i': return v[1]
    if k == 'none': return None
    if k == 'l': return ['l'] + [_mv(x) for x in v[1]]
    if k == 't': return ['t', v[1], [_mv(x) for x in v[2]]]
    if k == 'unspecified': return _UNSPEC
    raise ValueError(v)

def _has_dot(t):
    k = t[0]
    if k == 'fun': return t[1] == '.' or any(_has_dot(a) for a in t[2])
    if k == 'list': return any(_has_dot(a) for a in t[1])
    if k == 'pair': return _has_dot(t[1]) or _has_dot(t[2])
    return False

# ------------------------------------------------------------------ implementation

def _build(yp, t, varmap):
    """a term built with the public constructors atom / functor / listpair / makelist (ints as Python ints)"""
    k = t[0]
    if k == 'atom': return yp.atom(t[1])
    if k == 'num': return int(t[1])
    if k == 'var':
        if t[1] == '_': return yp.variable()
        if t[1] not in varmap: varmap[t[1]] = yp.variable()
        return varmap[t[1]]
    if k == 'fun':
        if t[1] == '.' and len(t[2]) == 2:
            return yp.listpair(_build(yp, t[2][0], varmap), _build(yp, t[2][1], varmap))
        return yp.functor(t[1], [_build(yp, a, varmap) for a in t[2]])
    if k == 'list':
        return yp.makelist([_build(yp, a, varmap) for a in t[1]])
    if k == 'pair':
        return yp.listpair(_build(yp, t[1], varmap), _build(yp, t[2], varmap))
    raise ValueError(t)

def _build_alt(yp, t, varmap):
    """the same term through the OTHER public constructors: functor1/2/3 for arities 1-3, lists as listpair chains
    ending in ATOM_NIL, '.'-chains that end in [] through makelist, atom(name, module)"""
    k = t[0]
    if k == 'atom': return yp.ATOM_NIL if t[1] == '[]' else yp.atom(t[1], 'some_module')
    if k == 'num': return int(t[1])
    if k == 'var':
        if t[1] == '_': return yp.variable()
        if t[1] not in varmap: varmap[t[1]] = yp.variable()
        return varmap[t[1]]
    if k == 'fun':
        args = [_build_alt(yp, a, varmap) for a in t[2]]
        if t[1] == '.' and len(args) == 2:
            return yp.functor2('.', args[0], args[1])
        if len(args) == 1: return yp.functor1(t[1], args[0])
        if len(args) == 2: return yp.functor2(t[1], args[0], args[1])
        if len(args) == 3: return yp.functor3(t[1], args[0], args[1], args[2])
        return yp.functor(t[1], args)
    if k == 'list':
        r = yp.ATOM_NIL
        for a in reversed([_build_alt(yp, a, varmap) for a in t[1]]):
            r = yp.listpair(a, r)
        return r
    if k == 'pair':
        return yp.functor('.', [_build_alt(yp, t[1], varmap), _build_alt(yp, t[2], varmap)])
    raise ValueError(t)

# ---- aliasing of conversion results (round 4).  A value returned by to_python belongs to the caller: whatever the caller
# does to it (append, insert, +=, clear) must not change what any later conversion gives, and two conversions must never hand
# out the same mutable object.  Every result obtained by this check is therefore (1) encoded, (2) searched for list objects
# that an EARLIER result (all objects are kept alive, so ids are not reused) or another place of the same result already contains,
# (3) changed in place at every depth; every conversion is made twice through the function and twice through the method,
# each after the previous result has been changed, and all must encode alike.  The engines of one case are shared by all its
# conversions, so anything that survives in the engine poisons every later expected value as well.
_HELD = []
_HELD_IDS = {}
_MUT = [0]
TAINT = 'VERIF-C16-CALLER-DATA'

def _alias_reset():
    del _HELD[:]
    _HELD_IDS.clear()
    _MUT[0] = 0

def _mutable_parts(v, acc):
    if isinstance(v, list):
        acc.append(v)
        for x in v: _mutable_parts(x, acc)
    elif isinstance(v, tuple):
        for x in v: _mutable_parts(x, acc)
    elif isinstance(v, (dict, set, bytearray)):
        acc.append(v)
    return acc

def _hold_and_mutate(raw):
    """-> None, or a description of the sharing found; then the caller's changes are applied to the result"""
    parts = _mutable_parts(raw, [])
    prob = None
    seen = set()
    for l in parts:
        if id(l) in seen:
            prob = 'the same list object occurs twice in one result'
        elif id(l) in _HELD_IDS:
            prob = 'a list object of the result of conversion no. %d is part of the result of conversion no. %d' % (_HELD_IDS[id(l)], len(_HELD))
        seen.add(id(l))
    n = len(_HELD)
    _HELD.append((raw, parts))       # the parts too: a cleared list would release its items and their ids could come back
    for l in parts:
        _HELD_IDS.setdefault(id(l), n)
    for l in parts:
        if not isinstance(l, list):
            continue
        _MUT[0] += 1
        m = _MUT[0] % 5
        if m == 0: l.append(TAINT)
        elif m == 1: l.insert(0, TAINT)
        elif m == 2: l += [TAINT, [TAINT]]
        elif m == 3:
            del l[:]
            l.extend([TAINT])
        else:
            l.append(l[0] if l else TAINT); l.reverse()
    return prob

def _topy(E, x):
    convs = [lambda: E.to_python(x)]
    if isinstance(x, E.IUnifiable):
        convs.append(lambda: x.to_python())      # the method and the module function are the same conversion
    vals = []
    for _round in (0, 1):
        for c in convs:
            try:
                raw = c()
            except TypeError:
                vals.append(['raised', 'TypeError'])
                continue
            v = enc(raw)
            prob = _hold_and_mutate(raw)
            if prob:
                return ['shared-mutable-object', prob, v]
            vals.append(v)
    if any(w != vals[0] for w in vals[1:]):
        return ['conversions-differ (function, method, and both again after the caller changed the earlier results in place)'] + vals
    return vals[0]

def _succeeds(E, a, b, after=None):
    n = 0
    r = None
    for _ in E.unify(a, b):
        n += 1
        if after: r = after()
    return [n, r]

def _struct(yp, X):
    return TM.term_obs(TM.ImplTerms([yp]).read(X))

def _scratch():
    from lib import coqrun
    d = os.path.join(coqrun.VERIF, '.work', 'c16-%d' % os.getpid())
    os.makedirs(d, exist_ok=True)
    return d

def _cli_inprocess(args, stdin_bytes, d):
    """the command line's main function (click), called in this process: yldpc -o <file> <args>, standard input = the bytes"""
    from yldprolog import compiler
    outp = os.path.join(d, 'out.py')
    if os.path.exists(outp):
        os.unlink(outp)
    old = sys.stdin
    sys.stdin = io.TextIOWrapper(io.BytesIO(stdin_bytes), encoding='utf8')
    try:
        compiler.main.main(args=['-o', outp] + args, prog_name='yldpc', standalone_mode=False)
    finally:
        sys.stdin = old
    with open(outp, 'rb') as f:
        return f.read().decode('utf8')

def _cli_real(args, stdin_bytes, d):
    """the real command line: python -m yldprolog.compiler in a process of its own"""
    outp = os.path.join(d, 'out_real.py')
    if os.path.exists(outp):
        os.unlink(outp)
    env = {'PATH': os.environ.get('PATH', '/usr/bin:/bin'), 'PYTHONPATH': os.path.join(os.environ.get('VERIF_REPO', '/repo'), 'src'),
           'LC_ALL': 'C.UTF-8', 'LANG': 'C.UTF-8', 'PYTHONHASHSEED': '0', 'PYTHONDONTWRITEBYTECODE': '1', 'HOME': d}
    r = subprocess.run([sys.executable, '-m', 'yldprolog.compiler', '-o', outp] + args, input=stdin_bytes, capture_output=True, cwd=d, env=env, timeout=120)
    if r.returncode != 0:
        raise RuntimeError('exit status %d: %s' % (r.returncode, r.stderr.decode('utf8', 'replace')[-150:]))
    with open(outp, 'rb') as f:
        return f.read().decode('utf8')

def _observe_min(E, code, case):
    """what the literals of a compiled text denote (fact and body position: Python value and the term read structurally),
    and whether the atoms are the engine's atoms of those names"""
    yp = E.YP(); yp.load_script_from_string(code)
    lits = []
    for i, lit in enumerate(case['lits']):
        vs = named_vars(lit)
        o = []
        for pred in ('fact', 'body'):
            X = yp.variable()
            o.append([[_topy(E, X), _struct(yp, X)] for _ in yp.query('%s%d' % (pred, i), [X] + [yp.variable() for _ in vs])])
        lits.append(o)
    atoms = []
    for j, a in enumerate(case['atoms']):
        X = yp.variable()
        atoms.append([[E.get_value(X) is yp.atom(a), _struct(yp, X)] for _ in yp.query('at%d' % j, [X])])
    return {'lits': lits, 'atoms': atoms}

def _entry_points(E, case, code):
    """The facts fact_i(L), the rules body_i(R) :- R = L and the facts at_j(A) of the program (same text, same layout) given to
    the compiler in every way there is: as a string, as a file holding exactly the UTF-8 bytes of the text (with the default
    options or an options class), through the command line from a file and from standard input.
    -> name -> ['same'] (denotes what the whole program compiled from a string denotes; for the other entry points: same
    Python text as from the string) | ['differs', same denotations?, detail] | ['raised', ..]"""
    from yldprolog import compiler
    src = case['src_min']
    main_obs = _observe_min(E, code, case)
    def judge(text):
        try:
            obs = _observe_min(E, text, case)
        except Exception as e:
            return ['differs', False, 'its output cannot be loaded / queried: %s' % type(e).__name__]
        detail = ''
        if obs != main_obs:
            for i, (a, b) in enumerate(zip(obs['lits'], main_obs['lits'])):
                if a != b:
                    detail = 'literal %d denotes %r, in the whole program compiled from a string %r' % (i, a[0][:1], b[0][:1])
                    break
            else:
                detail = 'the atoms differ'
        return ['differs', obs == main_obs, detail[:400]]
    out = {}
    try:
        min_code = compiler.compile_prolog_from_string(src)
    except RecursionError:
        return {'string': ['skipped', 'RecursionError']}
    except Exception as e:
        return {'string': ['raised', type(e).__name__, str(e)[:200]]}
    r = judge(min_code)
    out['string'] = ['same'] if r[1] else r
    try:
        data = src.encode('utf8')
    except UnicodeEncodeError:
        out['file'] = ['skipped', 'the text has no UTF-8 form']
        return out
    d = _scratch()
    path = os.path.join(d, 'prog.prolog')
    with open(path, 'wb') as f:
        f.write(data)
    opts = (ast_io.Ctx,) if case.get('file_opts') else ()
    runs = [('file', lambda: compiler.compile_prolog_from_file(path, *opts)),
            ('cli_file', lambda: _cli_inprocess([path], b'', d)),
            ('cli_stdin', lambda: _cli_inprocess(['-'], data, d))]
    if case.get('cli_sub'):
        runs += [('real_cli_file', lambda: _cli_real([path], b'', d)), ('real_cli_stdin', lambda: _cli_real(['-'], data, d))]
    for name, fn in runs:
        try:
            text = fn()
        except RecursionError:
            out[name] = ['skipped', 'RecursionError']
            continue
        except BaseException as e:
            out[name] = ['raised', type(e).__name__, str(e)[:200]]
            continue
        out[name] = ['same'] if text == min_code else judge(text)
    shutil.rmtree(d, ignore_errors=True)
    return out

def _impl_bytes(case):
    """the bytes as a file through compile_prolog_from_file and the command line (file, standard input); when they are
    valid UTF-8 also as a string: -> per entry point ['atom', name of the atom p(X) answers] | ['raised', class]"""
    from yldprolog import engine as E
    from yldprolog import compiler
    data = bytes(case['bytes'])
    d = _scratch()
    path = os.path.join(d, 'bytes.prolog')
    with open(path, 'wb') as f:
        f.write(data)
    runs = [('file', lambda: compiler.compile_prolog_from_file(path)),
            ('cli_file', lambda: _cli_inprocess([path], b'', d)),
            ('cli_stdin', lambda: _cli_inprocess(['-'], data, d))]
    try:
        text = data.decode('utf8')
        runs.append(('string', lambda: compiler.compile_prolog_from_string(text)))
    except UnicodeDecodeError:
        pass
    out = {}
    for name, fn in runs:
        try:
            code = fn()
        except RecursionError:
            raise
        except BaseException as e:
            cls = type(e).__name__
            if cls == 'ClickException':
                cls = 'CompilerError'          # the command line reports a CompilerError of the library as a ClickException
            out[name] = ['raised', 'CompilerError' if cls == 'CompilerSyntaxError' else cls]
            continue
        yp = E.YP(); yp.load_script_from_string(code)
        X = yp.variable()
        vals = [E.get_value(X) for _ in yp.query('p', [X])]
        out[name] = ['atom', vals[0].name()] if len(vals) == 1 and isinstance(vals[0], E.Atom) and vals[0] is yp.atom(vals[0].name()) else ['other', len(vals)]
    shutil.rmtree(d, ignore_errors=True)
    return {'bytes': out}

def impl(case):
    _alias_reset()
    if case.get('kind') == 'bytes':
        return _impl_bytes(case)
    from yldprolog import engine as E
    from yldprolog.compiler import compile_prolog_from_string
    try:
        code = compile_prolog_from_string(case['src'])
    except RecursionError:
        raise
    except Exception as e:
        return {'compile': ['raised', type(e).__name__, str(e)[:200]]}
    yp = E.YP(); yp.load_script_from_string(code)
    yp2 = E.YP(); yp2.load_script_from_string(code)
    try:
        ast = ast_io.impl_parse(case['src'])
    except Exception as e:
        ast = ['raised', type(e).__name__]
    out = {'compile': ['ok'], 'ast': ast, 'lits': [], 'atoms': []}
    out['entries'] = _entry_points(E, case, code)
    # all literals together in one head / one body
    for pred in ('allh', 'allb'):
        Rs = [yp.variable() for _ in case['lits']]
        out[pred] = [[[_topy(E, R), _struct(yp, R)] for R in Rs] for _ in yp.query(pred, Rs)]
    for i, lit in enumerate(case['lits']):
        vs = named_vars(lit)
        env = case['envs'][i]
        o = {}
        for pred in POSITIONS:
            # variables unbound
            X = yp.variable(); Vs = [yp.variable() for _ in vs]
            o[pred + '_free'] = [_topy(E, X) for _ in yp.query('%s%d' % (pred, i), [X] + Vs)]
            # variables bound to ground terms built through the API of the same engine
            X = yp.variable(); Vs = [_build(yp, env[v], {}) for v in vs]
            o[pred + '_bound'] = [_topy(E, X) for _ in yp.query('%s%d' % (pred, i), [X] + Vs)]
        # API-built terms, same engine and other engine, unify with the compiled literal in both directions
        for tag, eng in (('same', yp), ('other', yp2)):
            X = yp.variable(); Vs = [yp.variable() for _ in vs]
            res = []
            for _ in yp.query('fact%d' % i, [X] + Vs):
                vm = {}
                T = _build(eng, lit, vm)
                r1 = _succeeds(E, X, T, lambda: [_topy(E, T), _topy(E, X)])
                vm = {}
                T = _build(eng, lit, vm)
                r2 = _succeeds(E, T, X, lambda: [_topy(E, T), _topy(E, X)])
                # the API term with its variables bound like env must then give the bound value
                vm = {}
                T = _build(eng, lit, vm)
                for v in vs:
                    vm.setdefault(v, eng.variable())
                binds = [E.unify(vm[v], _build(eng, env[v], {})) for v in vs]
                its = [iter(b) for b in binds]
                ok = True
                for it in its:
                    try: next(it)
                    except StopIteration: ok = False
                # to_python applied directly to the API-built term (not through a query variable) sees the bindings of
                # its variables at every depth, list tails included; same for the term built with the other constructors
                vm2 = {}
                T2 = _build_alt(eng, lit, vm2)
                for v in vs:
                    vm2.setdefault(v, eng.variable())
                its2 = [iter(E.unify(vm2[v], vm[v])) for v in vs]
                for it in its2:
                    try: next(it)
                    except StopIteration: ok = False
                direct = [_topy(E, T), _topy(E, T2)] if ok else None
                r3 = _succeeds(E, X, T, lambda: _topy(E, X)) if ok else None
                if r3 is not None:
                    r3 = r3 + [direct]
                for it in reversed(its2):
                    it.close()
                for it in reversed(its):
                    it.close()
                res.append([r1, r2, r3])
            o['api_' + tag] = res
            # and as a query argument
            T = _build(eng, lit, {})
            o['query_' + tag] = sum(1 for _ in yp.query('fact%d' % i, [T] + [yp.variable() for _ in vs]))
            # the same term through the other constructors (functor1/2/3, listpair chains, ATOM_NIL, atom(name, module))
            X = yp.variable(); Vs = [yp.variable() for _ in vs]
            res = []
            for _ in yp.query('fact%d' % i, [X] + Vs):
                T = _build_alt(eng, lit, {})
                res.append([_succeeds(E, X, T, lambda: [_topy(E, T), _topy(E, X)]),
                            _succeeds(E, _build_alt(eng, lit, {}), _build(yp, lit, {}))[0],
                            sum(1 for _ in yp.query('=', [_build_alt(eng, lit, {}), X]))])
            o['alt_' + tag] = res
        mut = case['muts'][i]
        if mut is not None:
            X = yp.variable(); Vs = [yp.variable() for _ in vs]
            res = []
            for _ in yp.query('fact%d' % i, [X] + Vs):
                res.append([_succeeds(E, X, _build(yp, mut, {}))[0], _succeeds(E, _build(yp2, mut, {}), X)[0]])
            o['mut'] = res
            o['query_mut'] = sum(1 for _ in yp.query('fact%d' % i, [_build(yp, mut, {})] + [yp.variable() for _ in vs]))
        if mut is not None:
            o['neg'] = [sum(1 for _ in yp.query('neg%d' % i, [yp.variable() for _ in vs])),
                        sum(1 for _ in yp.query('pos%d' % i, [yp.variable() for _ in vs]))]
        # a chain of variables: V1 -> V2 -> the literal's value; to_python follows it, and gives None again afterwards
        X = yp.variable(); V1 = yp.variable(); V2 = yp.variable()
        chain = []
        for _ in yp.query('fact%d' % i, [X] + [yp.variable() for _ in vs]):
            for _ in E.unify(V1, V2):
                mid = _topy(E, V1)
                for _ in E.unify(V2, X):
                    chain.append([mid, _topy(E, V1), _topy(E, V2), _topy(E, X)])
        o['chain'] = chain + [[_topy(E, V1), _topy(E, V2)]]
        # the run-time term itself, read structurally (atoms / ints / compound names and arities / '.' cells / variables by
        # identity, numbered by first occurrence): what the compiled fact builds, and what the API constructors build
        X = yp.variable()
        o['struct'] = [TM.term_obs(TM.ImplTerms([yp]).read(X)) for _ in yp.query('fact%d' % i, [X] + [yp.variable() for _ in vs])]
        o['api_struct'] = [TM.term_obs(TM.ImplTerms([yp]).read(_build(yp, lit, {}))), TM.term_obs(TM.ImplTerms([yp2]).read(_build_alt(yp2, lit, {})))]
        # nothing stays bound
        X = yp.variable()
        for _ in yp.query('fact%d' % i, [X] + [yp.variable() for _ in vs]):
            pass
        o['unbound_after'] = _topy(E, X) is None
        out['lits'].append(o)
    for j, a in enumerate(case['atoms']):
        X = yp.variable(); X2 = yp2.variable()
        r = {'same_object': yp.atom(a) is yp.atom(a), 'distinct_engines': yp.atom(a) is not yp2.atom(a)}
        r['compiled_is_table'] = [E.get_value(X) is yp.atom(a) for _ in yp.query('at%d' % j, [X])]
        r['compiled_is_table2'] = [E.get_value(X2) is yp2.atom(a) and E.get_value(X2) is not yp.atom(a) for _ in yp2.query('at%d' % j, [X2])]
        r['cross_unify'] = [_succeeds(E, yp.atom(a), yp2.atom(a))[0], _succeeds(E, yp2.atom(a), yp.atom(a))[0]]
        r['cross_query'] = sum(1 for _ in yp.query('at%d' % j, [yp2.atom(a)]))
        r['other_name'] = [_succeeds(E, yp.atom(a), yp2.atom(a + '~'))[0], sum(1 for _ in yp.query('at%d' % j, [yp.atom(a + '~')]))]
        r['name'] = yp.atom(a).name() == a
        r['module_ignored'] = yp.atom(a, 'm') is yp.atom(a) and yp.atom(a, module='other') is yp.atom(a)
        r['in_functor'] = [_succeeds(E, yp.functor1('w', yp.atom(a)), yp2.functor('w', [yp2.atom(a)]))[0],
                           _succeeds(E, yp.functor1('w', yp.atom(a)), yp2.functor('w', [yp2.atom(a + '~')]))[0],
                           _succeeds(E, yp.atom(a), yp.functor(a, []))[0], _succeeds(E, yp.functor(a, []), yp2.atom(a))[0]]
        r['to_python'] = _topy(E, yp.atom(a))
        out['atoms'].append(r)
    # atoms of different names are different objects, do not unify, and the fact at_i(name_i) does not answer for name_j
    clash = []
    names = case['atoms'][:8]
    for i, a in enumerate(names):
        for j, b in enumerate(names):
            if i < j and (yp.atom(a) is yp.atom(b) or _succeeds(E, yp.atom(a), yp2.atom(b))[0] or _succeeds(E, yp.functor(a, [7]), yp.functor(b, [7]))[0]
                          or sum(1 for _ in yp.query('at%d' % i, [yp.atom(b)])) or sum(1 for _ in yp.query('at%d' % j, [yp2.atom(a)]))):
                clash.append([a, b])
    out['atom_clashes'] = clash
    # the atom tables of two fresh engines under a sequence of atom(name) calls: which calls return the same object
    e1, e2 = E.YP(), E.YP()
    objs = [(e2 if e else e1).atom(n) for e, n in case['atom_calls']]
    out['atom_calls'] = [next(j for j, p in enumerate(objs) if p is q) for q in objs]
    # the empty list: one object per engine, however it is obtained; raw Python values convert to themselves
    X = yp.variable()
    out['nil'] = {'makelist': yp.makelist([]) is yp.ATOM_NIL, 'atom': yp.atom('[]') is yp.ATOM_NIL,
                  'topy': [_topy(E, yp.ATOM_NIL), _topy(E, yp.makelist([])), _topy(E, yp.atom('[]'))],
                  'other': yp.ATOM_NIL is not yp2.ATOM_NIL, 'cross': _succeeds(E, yp.ATOM_NIL, yp2.makelist([]))[0],
                  'after_clear': _nil_after_clear(E, case),
                  'raw': [enc(E.to_python(v)) for v in (0, 7, -3, 10 ** 30, 'text', '', None)],
                  'raw_unify': [_succeeds(E, 7, 7)[0], _succeeds(E, 7, 8)[0], _succeeds(E, 7, yp.atom('7'))[0], _succeeds(E, yp.atom('7'), 7)[0],
                                _succeeds(E, X, 7, lambda: enc(E.to_python(X)))]}
    # every result handed out so far has been changed in place by its receiver: ALL the conversions of the compiled
    # literals once more, in the engine that made them and in the other one - they must give what they gave the first time
    again = {}
    for pred in ('allh', 'allb'):
        Rs = [yp.variable() for _ in case['lits']]
        again[pred] = [[[_topy(E, R), _struct(yp, R)] for R in Rs] for _ in yp.query(pred, Rs)]
    for tag, eng in (('facts', yp), ('facts_other_engine', yp2)):
        again[tag] = []
        for i, lit in enumerate(case['lits']):
            X = eng.variable()
            again[tag].append([_topy(E, X) for _ in eng.query('fact%d' % i, [X] + [eng.variable() for _ in named_vars(lit)])])
    again['api'] = [[_topy(E, _build(eng, lit, {})) for eng in (yp, yp2)] for lit in case['lits']]
    out['again'] = again
    return out

def _nil_after_clear(E, case):
    """one object per name and engine also after clear(): the atom table is new, and the empty list - however it is
    obtained: atom('[]'), ATOM_NIL, makelist([]), a compiled [] - and every other atom is one object again"""
    from yldprolog import compiler
    yp3 = E.YP()
    held = yp3.atom('held')
    yp3.clear()
    yp3.load_script_from_string(compiler.compile_prolog_from_string("nil3([]).\nheld3(held).\n", ast_io.Ctx))
    X = yp3.variable(); Y = yp3.variable()
    return [yp3.atom('[]') is yp3.ATOM_NIL, yp3.makelist([]) is yp3.atom('[]'), yp3.eval_context.get('ATOM_NIL') is yp3.ATOM_NIL,
            [E.get_value(X) is yp3.atom('[]') for _ in yp3.query('nil3', [X])],
            [E.get_value(Y) is yp3.atom('held') for _ in yp3.query('held3', [Y])],
            _succeeds(E, held, yp3.atom('held'))[0]]

NIL_WANT = {'after_clear': [True, True, True, [True], [True], 1], 'makelist': True, 'atom': True, 'topy': [['l'], ['l'], ['l']], 'other': True, 'cross': 1,
            'raw': [0, 7, -3, 10 ** 30, 'text', '', None], 'raw_unify': [1, 0, 0, 0, [1, 7]]}

def allow_harness_raise(case, io):
    return io[1] == 'RecursionError'

# ------------------------------------------------------------------ judging

def _expected_from(lits, case, io):
    """list of problems when the implementation's observations are not the ones the literals `lits` demand"""
    for i, lit in enumerate(lits):
        o = io['lits'][i]
        env = case['envs'][i]
        free = py_of(lit, {})
        bound = py_of(lit, env)
        # to_python is specified for proper lists only: a list whose tail stays unbound has no expected value
        free_spec = not has_raise(free)
        bound_spec = not has_raise(bound)
        for pred in POSITIONS:
            if len(o[pred + '_free']) != 1 or len(o[pred + '_bound']) != 1:
                return 'literal %d in %s position: %d / %d answers instead of one' % (i, pred, len(o[pred + '_free']), len(o[pred + '_bound']))
            if free_spec and o[pred + '_free'] != [free]:
                return 'literal %d in %s position, variables unbound: to_python gives %r, expected %r' % (i, pred, o[pred + '_free'], [free])
            if bound_spec and o[pred + '_bound'] != [bound]:
                return 'literal %d in %s position, variables bound: to_python gives %r, expected %r' % (i, pred, o[pred + '_bound'], [bound])
        for tag in ('same', 'other'):
            if len(o['api_' + tag]) != 1:
                return 'literal %d: fact query has %d answers' % (i, len(o['api_' + tag]))
            r1, r2, r3 = o['api_' + tag][0]
            if r1[0] != 1 or r2[0] != 1:
                return 'literal %d: the term built with atom/functor/listpair/makelist (%s engine) does not unify exactly once with the compiled literal (%r, %r)' % (i, tag, r1[0], r2[0])
            for r in (r1, r2):
                if free_spec and r[1][0] != r[1][1]:
                    return 'literal %d: after unification the API term and the compiled literal have different Python values %r' % (i, r[1])
                if free_spec and r[1][1] != free:
                    return 'literal %d: after unification with the API term to_python gives %r, expected %r' % (i, r[1][1], free)
            if r3 is None or r3[0] != 1 or (bound_spec and r3[1] != bound):
                return 'literal %d: API term with bound variables (%s engine): %r, expected one answer %r' % (i, tag, r3, bound)
            if bound_spec and r3[2] != [bound, bound]:
                return 'literal %d: to_python applied to the API-built term whose variables are bound (%s engine) gives %r, expected %r' % (i, tag, r3[2], bound)
            if o['query_' + tag] != 1:
                return 'literal %d: querying the fact with the API-built term (%s engine) gives %d answers' % (i, tag, o['query_' + tag])
            alt = o['alt_' + tag]
            if len(alt) != 1 or alt[0][0][0] != 1 or alt[0][1] != 1 or alt[0][2] != 1:
                return 'literal %d: the term built with functor1/2/3, listpair chains and ATOM_NIL (%s engine) does not unify exactly once with the literal: %r' % (i, tag, alt)
            if free_spec and alt[0][0][1] != [free, free]:
                return 'literal %d: term built with functor1/2/3 / listpair chains (%s engine): to_python gives %r, expected %r' % (i, tag, alt[0][0][1], free)
        if 'mut' in o:
            if o['mut'] != [[0, 0]] or o['query_mut'] != 0:
                return 'literal %d: a term that differs in one constant unifies with the compiled literal (%r, %r)' % (i, o['mut'], o['query_mut'])
            if o['neg'] != [1, 1]:
                return 'literal %d: `\\+ L = M` / `L = L` for a term M that differs in one constant have %r answers, expected [1, 1]' % (i, o['neg'])
        ch = o['chain']
        if len(ch) != 2 or ch[-1] != [None, None]:
            return 'literal %d: variable chain observations %r' % (i, ch)
        if free_spec and ch[0] != [None, free, free, free]:
            return 'literal %d: to_python through a chain of variables gives %r, expected %r' % (i, ch[0], [None, free, free, free])
        if not o['unbound_after']:
            return 'literal %d: query variable still bound after the query' % i
    return None

ENTRY_NAMES = {'string': 'compile_prolog_from_string (the fact_i / body_i / at_j clauses alone)', 'file': 'compile_prolog_from_file (the UTF-8 bytes of the same text)',
               'cli_file': 'the command line reading the file',
               'cli_stdin': 'the command line reading standard input', 'real_cli_file': 'python -m yldprolog.compiler <file>',
               'real_cli_stdin': 'python -m yldprolog.compiler - (standard input)'}

def _entries_and_all(lits, case, io):
    for name, r in io.get('entries', {}).items():
        if r[0] == 'raised':
            return 'the program compiles from a string, but %s raised %s: %s' % (ENTRY_NAMES.get(name, name), r[1], r[2])
        if r[0] == 'differs' and not r[1]:
            return 'compiled through %s: %s' % (ENTRY_NAMES.get(name, name), r[2])
    for pred, what in (('allh', 'all literals in one clause head'), ('allb', 'all literals in one clause body')):
        a = io[pred]
        if len(a) != 1 or len(a[0]) != len(lits):
            return '%s: %d answers instead of one' % (what, len(a))
        for i, lit in enumerate(lits):
            free = py_of(lit, {})
            if not has_raise(free) and a[0][i][0] != free:
                return '%s: to_python of literal %d gives %r, expected %r' % (what, i, a[0][i][0], free)
    return None

def _bytes_expected(data):
    """what Python's strict codec says the file holds: the atom text between p(' and ') or the exception class"""
    try:
        text = bytes(data).decode('utf8')
    except UnicodeDecodeError:
        return ['raised', 'UnicodeDecodeError']
    i, j = text.find("p('"), text.rfind("')")
    if text[:i].strip(' \t\r\n'):
        return ['raised', 'CompilerError']
    return ['atom', text[i + 3:j]]

def _oracle_bytes(case, io):
    want = _bytes_expected(case['bytes'])
    for name, got in io['bytes'].items():
        if got != want:
            return 'a file of the bytes %r read through %s: %r, expected %r (strict UTF-8, nothing converted or dropped)' % (bytes(case['bytes']), ENTRY_NAMES.get(name, name), got, want)
    return None

def oracle(case, io):
    if not isinstance(io, dict):
        return None
    if case.get('kind') == 'bytes':
        return _oracle_bytes(case, io)
    if io['compile'][0] != 'ok':
        return 'a program of literals does not compile: %r' % (io['compile'],)
    r = _expected_from(case['lits'], case, io) or _entries_and_all(case['lits'], case, io)
    if r:
        return r
    ag = io.get('again')
    if ag is not None:
        first = [o['fact_free'] for o in io['lits']]
        for what, a, b in (('all literals in one clause head', ag['allh'], io['allh']), ('all literals in one clause body', ag['allb'], io['allb']),
                           ('the facts', ag['facts'], first), ('the facts (in the second engine)', ag['facts_other_engine'], first)):
            if a != b:
                return ('%s converted again after the receivers of all earlier to_python results changed those results in place (append, insert, +=, clear): '
                        '%r, the first time %r' % (what, a, b))[:900]
        for i, lit in enumerate(case['lits']):
            free = py_of(lit, {})
            if not has_raise(free) and ag['api'][i] != [free, free]:
                return 'literal %d built through the API and converted after earlier results were changed in place: %r, expected %r' % (i, ag['api'][i], free)
    if io.get('atom_clashes'):
        return 'atoms of different names are identified (same object, or unify, or answer each other\'s facts): %r' % (io['atom_clashes'][:3],)
    if io['nil'] != NIL_WANT:
        return 'empty list / raw Python values: %r, expected %r' % (io['nil'], NIL_WANT)
    for j, (a, o) in enumerate(zip(case['atoms'], io['atoms'])):
        want = {'same_object': True, 'distinct_engines': True, 'compiled_is_table': [True], 'compiled_is_table2': [True],
                'cross_unify': [1, 1], 'cross_query': 1, 'other_name': [0, 0], 'name': True,
                'module_ignored': True, 'in_functor': [1, 0, 0, 0],
                'to_python': ['l'] if a == '[]' else a}
        if o != want:
            return 'atom %r: identity / cross-engine observations %r, expected %r' % (a, o, want)
    return None

def _model_lits(case, prog):
    """the literals as the MODEL front end reads them from the text: first argument of fact_i"""
    by = {c[0]: c for c in prog}
    lits = []
    for i in range(len(case['lits'])):
        c = by.get('fact%d' % i)
        if c is None:
            return None
        lits.append(c[1][0])
    return lits

def _unnumber(t):
    """model AST -> generating AST shape: x<k> (cannot be a source variable) back to `_`"""
    k = t[0]
    if k == 'var': return ['var', '_'] if t[1][:1] == 'x' else t
    if k == 'fun': return ['fun', t[1], [_unnumber(a) for a in t[2]]]
    if k == 'list': return ['list', [_unnumber(a) for a in t[1]]]
    if k == 'pair': return ['pair', _unnumber(t[1]), _unnumber(t[2])]
    return t

def compare(case, io, mo):
    if not isinstance(io, dict):
        return None
    if case.get('kind') == 'bytes':
        if mo[0] == 'undecodable': want = ['raised', 'UnicodeDecodeError']
        elif mo[0] == 'syntax': want = ['raised', 'CompilerError']
        elif mo[0] == 'atom': want = ['atom', mo[1]]
        else: want = ['other']
        for name, got in io['bytes'].items():
            if got != want:
                return 'a file of the bytes %r read through %s: %r, the model (utf8_decode, front) gives %r' % (bytes(case['bytes']), ENTRY_NAMES.get(name, name), got, want)
        return None
    mo, fp = mo
    mo, mlits, matoms = mo
    # the UTF-8 bytes of the text as the model encodes it (Lang/Utf8.v; C16_file_bytes_roundtrip is about this encoder)
    # are the bytes Python's codec produces (what the file entry points were given), and the model decodes them back
    try:
        b = case['src'].encode('utf8')
        h = 0
        for x in b:
            h = (h * 257 + x + 1) % 1000000007
        if fp != [len(b), h, 1]:
            return 'UTF-8: the model encodes the source text to (length, hash, decodes back) %r, Python to %r' % (fp, [len(b), h, 1])
    except UnicodeEncodeError:
        pass
    if io.get('atom_calls') is not None and io['atom_calls'] != matoms:
        return 'atom identity: the calls %r return the objects (numbered by creating call) %r, the atom table model gives %r' % (case['atom_calls'], io['atom_calls'], matoms)
    if mo[0] != 'ok':
        return 'the model front end refuses a program of literals (%s)' % mo[0]
    prog = mo[1]
    # the model reads every literal as the term it was printed from (anonymous variables numbered x1, x2, ... in order)
    counter = [0]
    want = [[c[0], [rename_anon(a, counter) for a in c[1]], _rename_body(c[2], counter)] for c in case['clauses']]
    if prog != want:
        return 'the model AST of the text is not the AST the text was printed from'
    if io['compile'][0] != 'ok':
        return None
    if io['ast'] != _group(prog):
        return 'the AST built by the implementation differs from the model AST'
    lits = _model_lits(case, prog)
    if lits is None:
        return 'model program lacks a fact clause'
    r = _expected_from([_unnumber(l) for l in lits], case, io) or _entries_and_all([_unnumber(l) for l in lits], case, io)
    if r:
        return r
    # the values that the proved specification lit_py (Lang/Denote.v, theorem C16_to_python_literal) prescribes, computed
    # inside Coq from the source text, against what to_python returns for the compiled program -- in every position
    if mlits[0] != 'ok' or len(mlits[1]) != len(case['lits']):
        return 'tie: the model did not produce the specified Python values of the literals'
    for i, (lit, mv) in enumerate(zip(case['lits'], mlits[1])):
        o = io['lits'][i]
        free, bound = _mv(mv[0]), _mv(mv[1])
        # the two independent computations of the expected value (this harness, the Coq specification) agree
        pf, pb = py_of(lit, {}), py_of(lit, case['envs'][i])
        if not _has_dot(lit):
            if (free == _UNSPEC) != has_raise(pf) or (bound == _UNSPEC) != has_raise(pb):
                return 'tie: literal %d: the harness and the Coq specification disagree on whether the value is specified' % i
            if (free != _UNSPEC and free != pf) or (bound != _UNSPEC and bound != pb):
                return 'tie: literal %d: the Coq specification lit_py gives %r / %r, the harness expects %r / %r' % (i, free, bound, pf, pb)
        # the term the literal denotes (sden, theorem C16_literal_denotation) against the run-time term read structurally
        if o['struct'] != [mv[2]]:
            return 'literal %d: the compiled fact builds the term %r, the literal denotes %r' % (i, o['struct'], mv[2])
        if o['api_struct'] != [mv[2], mv[2]]:
            return 'literal %d: the API constructors build %r, the literal denotes %r' % (i, o['api_struct'], mv[2])
        for pred in ('allh', 'allb'):
            if [io[pred][0][i][1]] != [mv[2]]:
                return 'literal %d, all literals in one clause (%s): the program builds the term %r, the literal denotes %r' % (i, pred, io[pred][0][i][1], mv[2])
            if free != _UNSPEC and io[pred][0][i][0] != free:
                return 'literal %d, all literals in one clause (%s): to_python gives %r, the specification (lit_py) prescribes %r' % (i, pred, io[pred][0][i][0], free)
        for pred in POSITIONS:
            if free != _UNSPEC and o[pred + '_free'] != [free]:
                return 'literal %d in %s position: to_python gives %r, the specification (lit_py) prescribes %r' % (i, pred, o[pred + '_free'], free)
            if bound != _UNSPEC and o[pred + '_bound'] != [bound]:
                return 'literal %d in %s position, variables bound: to_python gives %r, the specification (lit_py) prescribes %r' % (i, pred, o[pred + '_bound'], bound)
    return None

def _rename_body(b, counter):
    k = b[0]
    if k == 'call': return ['call', b[1], [rename_anon(a, counter) for a in b[2]]]
    if k in ('and', 'or', 'if'):
        l = _rename_body(b[1], counter)
        return [k, l, _rename_body(b[2], counter)]
    if k == 'not': return ['not', _rename_body(b[1], counter)]
    return b

def _group(prog):
    d = {}
    for c in prog:
        d.setdefault((c[0], len(c[1])), []).append(c)
    return [[k[0], k[1], v] for k, v in d.items()]

def _interesting_atom(s):
    return any(ch in s for ch in "'\n\r") or any(ord(ch) > 127 for ch in s)

def nontrivial(case, io):
    if case.get('kind') == 'bytes':
        return isinstance(io, dict) and any(b >= 0x80 or b == 0x0D for b in case['bytes'])
    if not isinstance(io, dict) or io['compile'][0] != 'ok':
        return False
    for lit in case['lits']:
        if any(_interesting_atom(a) for a in atoms_of(lit)):
            return True
        if 'pair' in repr(lit):
            return True
    return False

def describe(case):
    if case.get('kind') == 'bytes':
        return {'file bytes': repr(bytes(case['bytes']))}
    return {'literals': [ast_io.term_text(l) for l in case['lits']], 'source': case['src']}

def shrink(case):
    if case.get('kind') == 'bytes':
        b = case['bytes']
        for i in range(4, len(b) - 3):
            yield dict(case, bytes=b[:i] + b[i + 1:])
        return
    lits = case['lits']
    rng = random.Random(1)
    if len(lits) > 1:
        for i in range(len(lits)):
            yield make_case(rng, [lits[i]])
    for lit in lits[:1]:
        if lit[0] == 'fun':
            for a in lit[2]: yield make_case(rng, [a])
        elif lit[0] == 'list':
            for a in lit[1]: yield make_case(rng, [a])
            if len(lit[1]) > 1: yield make_case(rng, [['list', lit[1][:-1]]])
        elif lit[0] == 'pair':
            yield make_case(rng, [lit[1]]); yield make_case(rng, [lit[2]])

def distribution(cases, obs):
    d = {'literals': 0, 'quoted_special': 0, 'non_ascii': 0, 'list_patterns': 0, 'lists': 0, 'anonymous': 0, 'with_named_vars': 0,
         'depth_hist': {}, 'compile_failed': 0}
    def depth(t):
        k = t[0]
        if k == 'fun': return 1 + max([depth(a) for a in t[2]] + [0])
        if k == 'list': return 1 + max([depth(a) for a in t[1]] + [0])
        if k == 'pair': return 1 + max(depth(t[1]), depth(t[2]))
        return 0
    d['byte_files'] = {}
    for c, o in zip(cases, obs):
        if c.get('kind') == 'bytes':
            k = o['bytes'].get('file', ['?'])[0] if isinstance(o, dict) else '?'
            d['byte_files'][k] = d['byte_files'].get(k, 0) + 1
            continue
        if isinstance(o, dict) and o['compile'][0] != 'ok':
            d['compile_failed'] += 1
        for lit in c['lits']:
            d['literals'] += 1
            at = atoms_of(lit)
            if any(_interesting_atom(a) for a in at): d['quoted_special'] += 1
            if any(ord(ch) > 127 for a in at for ch in a): d['non_ascii'] += 1
            r = repr(lit)
            if "'pair'" in r: d['list_patterns'] += 1
            if "'list'" in r: d['lists'] += 1
            if "['var', '_']" in r: d['anonymous'] += 1
            if named_vars(lit): d['with_named_vars'] += 1
            k = str(depth(lit))
            d['depth_hist'][k] = d['depth_hist'].get(k, 0) + 1
    return d
