"""C17 - evaluate_bounded returns a prefix of the answers and restores the interpreter.

A case is a program, one query, a recursion limit (relative to the interpreter depth of the evaluate_bounded
frame, or an absolute value below 1), the recursion limit that is in force before the call, and a projection
function that may raise an exception of a given class at the k-th answer or run a nested evaluate_bounded.

Implementation: compile and load the program, create the query, call YP.evaluate_bounded.  Observed: what was
returned / which exception object came out, sys.getrecursionlimit() afterwards and inside the projection
function, whether the query generator is finished, every Variable (weak set hook) that is still bound, what
the projection function saw, and - afterwards, with a large recursion limit - the first answers of the same
query enumerated without a bound.

Model (evaluated in Coq): Engine/Bounded.v evaluate_bounded over the engine model of the compiled program
(Sem/Machine.v query, indexed by the nesting depth of YP.query calls), at a lower and an upper bound of the
depth that the limit corresponds to; by query_mono the implementation must lie between the two."""
import sys, os
from lib import progs, ast_io, terms, semcheck
from lib.terms import g_str, g_list, g_nat, g_term
from lib.progs import V, A, F
from props import c20
sys.setrecursionlimit(max(sys.getrecursionlimit(), 20000))

ID = 'C17'
THEOREMS = ['C17_prefix_mono', 'C17_sld_answers_prefix_monotone', 'C17_machine_answers_prefix_monotone', 'C17_engine_with_python_predicates_prefix_monotone', 'C17_engine_answers_prefix_monotone', 'C17_engine_result_is_prefix',
            'C17_engine_no_depth_error_escapes', 'C17_machine_result_is_prefix',
            'C17_machine_complete_when_shallow', 'C17_result_is_prefix', 'C17_complete_when_shallow',
            'C17_no_depth_error_escapes', 'C17_rlimit_restored', 'C17_generator_closed_on_every_branch',
            'C17_vars_unbound_after', 'C17_result_collected_so_far', 'C17_nested_keeps_rlimit',
            'C17_close_raises_restores', 'C17_close_raises_outcome']
IMPORTS = ['Lang.Ast', 'Sem.Machine', 'Sem.RunSem', 'Sem.Native', 'Sem.RunNative', 'Engine.Bounded', 'Engine.RunBoundedM', 'Engine.RunBoundedN']
MODEL_NEEDS_IMPL = True
CASE_TIMEOUT = 12
COQ_CHUNK = 12
CAP = 160            # answers of the unbounded enumeration that are kept
PLAIN_MARGIN = 4     # frames
REFDEPTH = 1500      # recursion limit (above the current depth) of the unbounded enumeration; beyond about 3000 CPython 3.12 aborts ("Cannot recover from stack overflow") when a deep chain of generators resumed from C code is torn down
RULE = ('queries {finite random programs with control, cut and call/once/findall; finite searches of prescribed depth (fact chains, peano '
        'countdown, list length); left recursion with and without answers before it, mutual recursion, recursion through call/once/findall/'
        '\\+/if-then-else; infinitely many answers with flat and with growing terms} x recursion limits (cur+1 .. cur+400, dense near the '
        'bottom; at or below the current depth; 0 and negative) x old limits x projection functions that return, raise ValueError / KeyError / '
        'YPException / a custom class / RuntimeError / RecursionError / StopIteration at the k-th answer, or run a nested evaluate_bounded '
        '(generous limit, too low limit, limit 0, inner projection raising) x caller depths. Observed: result or exception (class and object '
        'identity), recursion limit afterwards and inside the projection, generator finished, all Variables of the weak-set hook unbound, '
        'what the projection saw; compared with the Coq model at a lower and an upper bound of the depth and with the unbounded enumeration. '
        'Non-trivial: the limit strikes before the search ends (result is a proper prefix or the projection raises) or the projection raises.')
TRUSTED_BASE = ['frames per unit of depth are not modelled: the model is evaluated at a lower and an upper bound of the depth (2 to 3 frames '
                'per YP.query nesting level plus a slack for unification of deep terms) and the implementation must lie between them']
ASSUMPTIONS = ['one thread', 'CPython 3.11 generator finalisation (C03)']

EXC = ['ValueError', 'KeyError', 'YPException', 'Custom', 'RuntimeError', 'RecursionError', 'StopIteration']
CAUGHT = ('RuntimeError', 'RecursionError', 'StopIteration')

class Custom(Exception):
    pass

class CleanupError(Exception):
    """raised by a registered Python predicate whose clean-up refuses to be closed early (a cursor with unread rows): a NEW
    object per raise (an object kept by the harness would keep its traceback, hence the frames, alive)"""
    def __init__(self, which):
        Exception.__init__(self, 'Python predicate %d closed with unread rows' % which)
        self.which = which

def wrap_native(yp, f, spec, which, ninner):
    """round 4: the same Python predicate with (a) a clean-up that raises when the predicate is closed before its rows are
    exhausted (after releasing what it holds: its bindings are undone first), (b) an evaluate_bounded of its own on the same
    engine before its first row (re-entrancy: the inner call must put back the limit of the OUTER call, the outer one the
    caller's).  One more Python frame per call of the predicate (inside the slack of the depth sandwich)."""
    import functools
    cleanup, inner = spec.get('cleanup'), spec.get('inner')
    if not cleanup and not inner:
        return f
    @functools.wraps(f)
    def g(*args):
        if inner:
            v = yp.variable()
            before = sys.getrecursionlimit()
            r = yp.evaluate_bounded(yp.query(NESTQ, [v]), lambda _: v.get_value(), _depth() + 60)
            ninner.append([len(r), sys.getrecursionlimit() == before, not v._is_bound])
        it = f(*args)
        if not cleanup:
            yield from it
            return
        try:
            for x in it:
                yield x
        except GeneratorExit:
            it.close()
            if cleanup == 'slow':
                import time
                time.sleep(0.002)
                raise
            raise CleanupError(which)
    return g

class CyclicTerm(BaseException):
    """an answer contains a cyclic term (X = f(X) without occurs check): outside the specified domain, the case is skipped"""

def exc_model(name):
    if name in ('RuntimeError', 'RecursionError'): return 'ERuntime'
    if name == 'StopIteration': return 'EStop'
    return '(EOther %d)' % {'ValueError': 0, 'KeyError': 1, 'YPException': 2, 'Custom': 3}[name]

def exc_tag(name):
    """what Engine.RunBoundedM.exc_obs prints for the exception class"""
    if name.startswith('Boom') and name[4:].isdigit(): return ['Other', 10 + int(name[4:])]     # the object of Python predicate i
    if name in ('RuntimeError', 'RecursionError'): return ['RuntimeError']
    if name == 'StopIteration': return ['StopIteration']
    return ['Other', {'ValueError': 0, 'KeyError': 1, 'YPException': 2, 'Custom': 3}[name]]

# ------------------------------------------------------------------ implementation side

def _depth():
    f = sys._getframe(1)
    n = 0
    while f is not None:
        n += 1
        f = f.f_back
    return n

def _read(T, obj):
    # post-order with an explicit stack: markers must be handled after their arguments
    E = T.E
    vals = []
    work = [(0, obj)]
    budget = 20000
    while work:
        budget -= 1
        if budget < 0:
            raise CyclicTerm()
        tag, x = work.pop()
        if tag == 1:
            name, n = x
            args = vals[len(vals) - n:] if n else []
            if n:
                del vals[len(vals) - n:]
            vals.append(['f', name, args])
            continue
        while isinstance(x, E.Variable) and x._is_bound:
            budget -= 1
            if budget < 0:
                raise CyclicTerm()
            x = x._value
        if isinstance(x, E.Variable):
            i = T.ids.get(id(x))
            if i is None or T.vars[i] is not x:
                i = len(T.vars)
                T.ids[id(x)] = i
                T.vars.append(x)
            vals.append(['v', i])
        elif isinstance(x, E.Atom):
            vals.append(['a', x._name])
        elif isinstance(x, E.Functor):
            work.append((1, (x._name, len(x._args))))
            for a in reversed(x._args):
                work.append((0, a))
        elif isinstance(x, bool):
            vals.append(['x', repr(x)])
        elif isinstance(x, int):
            vals.append(['i', x])
        elif isinstance(x, str):
            vals.append(['s', x])
        else:
            vals.append(['x', repr(type(x))])
    return vals[0]

import re
_PLAIN = re.compile(r'[a-z][A-Za-z0-9_]*\Z')

def flat_term(t):
    k = t[0]
    if k == 'a':
        return t[1] if _PLAIN.match(t[1]) or t[1] == '[]' else "'" + t[1].replace("'", "\\'") + "'"
    if k == 'i':
        return str(t[1])
    if k == 's':
        return '"' + t[1] + '"'
    if k == 'v':
        return '_G%d' % t[1]
    if k == 'x':
        return '<' + str(t[1]) + '>'
    return '%s(%s)' % (flat_term(['a', t[1]]), ','.join(flat_term(a) for a in t[2]))

def canon(ans):
    """an answer tuple as one flat string (deeply nested lists cannot be pickled), unbound variables renamed by first occurrence"""
    return ' | '.join(flat_term(x) for x in terms.rename_canonical(ans))

def _make_exc(name):
    from yldprolog import engine as E
    if name == 'YPException':
        return E.YPException('from the projection function')
    if name == 'Custom':
        return Custom('from the projection function')
    return {'ValueError': ValueError, 'KeyError': KeyError, 'RuntimeError': RuntimeError,
            'RecursionError': RecursionError, 'StopIteration': StopIteration}[name]('from the projection function')

NESTQ = 'nfq__'

def impl(case):
    # a generator that is finalised (not closed) while its clean-up raises: CPython reports "Exception ignored in" on stderr
    old_hook = sys.unraisablehook
    sys.unraisablehook = lambda a: None
    try:
        return _impl(case)
    finally:
        sys.unraisablehook = old_hook

def _impl(case):
    from yldprolog import compiler, engine as E
    natives = case.get('native') or []
    yp = E.YP()
    if not os.environ.get("NOWATCH"): semcheck.watch_findall(yp)      # see semcheck: identity of variables that findall/3 collects from different answers
    yp._verif_findall_inner = False
    cl = c20.rest_clauses(case) if natives else case['clauses']
    if cl:
        src = ast_io.program_text(cl)
        try:
            text = compiler.compile_prolog_from_string(src, semcheck.Ctx)
        except Exception as e:
            return {'rejected': type(e).__name__, 'msg': str(e)[:200], 'source': src}
        yp.load_script_from_string(text)
    for dname, ts in case.get('dyn') or []:
        yp.assert_fact(yp.atom(dname), c20.build_fact(yp, ts))
    # registered Python predicates (as in C20); predicate i raises its own exception object
    nat_exc = [c20.Boom('raised by Python predicate %d' % i) for i in range(len(natives))]
    ninner = []
    if any(n.get('inner') for n in natives) and not case.get('nest'):
        for i in range(2):
            yp.assert_fact(yp.atom(NESTQ), [i])
    if natives:
        facts = c20.fact_preds(c20.numbered(case))
        for i, spec in enumerate(natives):
            rows = [c20.row_terms(r) for r in facts.get((spec['name'], spec['arity']), [])]
            f, ar = c20.make_native(yp, E, spec, rows, nat_exc[i], [])
            f = wrap_native(yp, f, spec, i, ninner)       # functools.wraps: the inferred arity is still the one of f
            if ar is None:
                yp.register_function(spec['name'], f)
            else:
                yp.register_function(spec['name'], f, arity=ar)
    name, qargs = case['query']
    args, nq = semcheck.query_terms(case['query'])
    nest = case.get('nest')
    if nest:
        for i in range(nest[1]):
            yp.assert_fact(yp.atom(NESTQ), [i])
    T = terms.ImplTerms([yp], nq)
    objs = [T.build(a) for a in args]
    q = yp.query(name, objs)
    rs = case.get('raise')
    exc_obj = _make_exc(rs[1]) if rs else None
    state = {'k': 0, 'seen': [], 'rl_in': [], 'nested': None}

    def proj(x):
        k = state['k']
        state['k'] = k + 1
        state['rl_in'].append(sys.getrecursionlimit())
        if rs and k == rs[0]:
            raise exc_obj
        if nest and k == nest[0]:
            v2 = yp.variable()
            q2 = yp.query(NESTQ, [v2])
            st2 = {'k': 0}
            rs2 = nest[3]
            def proj2(y):
                k2 = st2['k']
                st2['k'] = k2 + 1
                if rs2 and k2 == rs2[0]:
                    raise _make_exc(rs2[1])
                return v2.get_value()
            d = _depth()
            lim2 = {'ok': d + 90, 'low': max(1, d - 1), 'zero': 0}[nest[2]]
            before = sys.getrecursionlimit()
            try:
                r2 = yp.evaluate_bounded(q2, proj2, lim2)
            finally:
                state['nested'] = [sys.getrecursionlimit() == before, not v2._is_bound, getattr(q2, 'gi_frame', None) is None]
            ans = [['i', 1000 + len(r2)]]
            state['seen'].append(ans)
            return ans
        ans = [_read(T, v) for v in T.vars[:nq]]
        state['seen'].append(ans)
        return ans

    rl_start = sys.getrecursionlimit()
    info = {}
    W = E._VERIF_VARIABLES
    bound_before = {id(v) for v in list(W) if v._is_bound} if W is not None else set()

    def call():
        cur = _depth() + 1                      # interpreter depth of the evaluate_bounded frame
        default = case.get('abs_limit') == 'default'      # evaluate_bounded(query, projection) without a limit: documented default 200
        limit = 200 if default else case['abs_limit'] if case.get('abs_limit') is not None else cur + case['delta']
        rl0 = cur + case['rl0_extra']
        info.update(cur=cur, limit=limit, rl0=rl0)
        sys.setrecursionlimit(rl0)
        try:
            return ['return', yp.evaluate_bounded(q, proj) if default else yp.evaluate_bounded(q, proj, limit)]
        except CyclicTerm:
            info['cyclic'] = True
            return ['raise', 'CyclicTerm', False]
        except BaseException as e:
            which = next((i for i, o in enumerate(nat_exc) if e is o), None)
            e.__traceback__ = None          # the traceback would keep the frames (and their suspended unify generators) alive
            if which is not None:
                return ['raise', 'Boom%d' % which, True]
            if isinstance(e, CleanupError):
                e.__context__ = None        # the exception that was in flight when close() raised (its traceback holds frames too)
                return ['raise', 'Cleanup%d' % e.which, True]
            return ['raise', type(e).__name__, e is exc_obj]
        finally:
            info['rl_after'] = sys.getrecursionlimit()
            sys.setrecursionlimit(info['cur'] + REFDEPTH)

    def deep(n):
        if n == 0:
            return call()
        return deep(n - 1)

    outcome = deep(case.get('extra_depth', 0))
    info['ninner'] = list(ninner)
    info['closed'] = (q.gi_frame is None) if hasattr(q, 'gi_frame') else None      # None: not a generator object
    info['leaked'] = sum(1 for v in list(W) if v._is_bound and id(v) not in bound_before) if W is not None else -1
    info['qbound'] = [i for i in range(nq) if T.vars[i]._is_bound]
    try:
        q.close()
    except BaseException:
        pass
    if outcome[0] == 'return':
        res = outcome[1]
        ok = isinstance(res, list)
        outcome = ['return', [canon(a) for a in res] if ok else repr(res)[:100]]
    info['outcome'] = outcome
    info['seen'] = [canon(a) for a in state['seen']]
    info['proj_calls'] = state['k']
    info['rl_in'] = sorted(set(state['rl_in']))
    info['nested'] = state['nested']
    # round 4, "complete whenever the search fits the bound", decided by the implementation itself: the same query (fresh
    # variables) iterated by a plain loop in a frame at the depth of the evaluate_bounded frame, under the given limit minus a
    # margin of PLAIN_MARGIN frames.  If that loop runs to the end, the search is finite and fits the bound.
    info['plain'] = None
    if isinstance(info.get('limit'), int) and info['limit'] >= 1 and not case.get('nest'):
        T3 = terms.ImplTerms([yp], nq)
        objs3 = [T3.build(a) for a in args]
        def probe(x):
            return [_read(T3, v) for v in T3.vars[:nq]]       # the frames of the projection function (proj -> _read)
        def loop(g, out):
            for x in g:
                out.append(probe(x))
                if len(out) >= CAP:
                    return 'cap'
            return 'done'
        def call2():
            cur = _depth() + 1
            lim = cur + (info['limit'] - info['cur']) - PLAIN_MARGIN
            if lim < cur + 4:
                return None
            g = yp.query(name, objs3)
            out = []
            sys.setrecursionlimit(lim)
            try:
                end = loop(g, out)
            except CyclicTerm:
                end = 'cyclic'
            except RecursionError:
                end = 'rec'
            except BaseException as e:
                end = 'raised ' + type(e).__name__
                e.__traceback__ = None
            finally:
                sys.setrecursionlimit(cur + REFDEPTH)
                try:
                    g.close()
                except BaseException:
                    pass
            return [end, [canon(a) for a in out]]
        def deep2(n):
            if n == 0:
                return call2()
            return deep2(n - 1)
        info['plain'] = deep2(case.get('extra_depth', 0))
    # the unbounded enumeration of the same query (fresh variables), first CAP answers
    T2 = terms.ImplTerms([yp], nq)
    objs2 = [T2.build(a) for a in args]
    g = yp.query(name, objs2)
    ref = []
    end = 'done'
    try:
        for _ in g:
            ref.append(canon([_read(T2, v) for v in T2.vars[:nq]]))
            if len(ref) >= CAP:
                end = 'cap'
                break
    except CyclicTerm:
        info['cyclic'] = True
    except RecursionError:
        end = 'rec'
    except BaseException as e:
        end = 'raised ' + type(e).__name__
        e.__traceback__ = None
    finally:
        try:
            g.close()
        except BaseException:
            pass
    info['ref'] = ref
    info['ref_end'] = end
    info['findall_inner'] = bool(getattr(yp, '_verif_findall_inner', False))
    return info

# ------------------------------------------------------------------ model side

def bounds(case, io):
    """(dlo, dhi): the depth (nesting of YP.query calls) available to the query lies between them.
    Measured: a level costs 2 frames (query + predicate function), through once/findall up to 3; the deepest
    level needs a few more frames for unify, and unification of a term of depth t needs about 3t."""
    avail = io['limit'] - io['cur']
    if avail <= 0:
        return 0, 0
    dhi = max(0, (avail - 3) // 2) + 1
    slack = 10 + 4 * case.get('tdepth', 10)
    fpl = case.get('fpl', 3)
    dlo = max(0, (avail - 3 - slack) // fpl - 1)
    return dlo, dhi

def g_raise(rs):
    return 'None' if not rs else '(Some (%s, %s))' % (g_nat(rs[0]), exc_model(rs[1]))

def model_expr(case, io):
    if not isinstance(io, dict) or 'cur' not in io:
        return None
    prog = ast_io.g_program(progs.number_anons(case['clauses']))
    args, nq = semcheck.query_terms(case['query'])
    dlo, dhi = bounds(case, io)
    nest = case.get('nest')
    if nest:
        # inner evaluate_bounded: limit generous -> depth 1 is enough for a fact query; too low -> setrecursionlimit raises
        lim2 = {'ok': io['cur'] + 200, 'low': 1, 'zero': 0}[nest[2]]
        gn = '(Some (%s, %s, %s, %s, %s))' % (g_nat(nest[0]), g_nat(nest[1]), g_nat(lim2), g_nat(1), g_raise(nest[3]))
    else:
        gn = 'None'
    if case.get('native') or case.get('dyn'):
        return '(run_bounded_n %s %s %s %s %s %s %s %s %s %s %s %s %s %s %s)' % (
            ast_io.g_program(progs.number_anons(c20.rest_clauses(case) if case.get('native') else case['clauses'])),
            c20.g_natives(case, case.get('native') or []), c20.g_dyn(case.get('dyn') or []),
            g_str(case['query'][0]), g_list([g_term(a) for a in args]), g_nat(nq),
            g_nat(io['cur']), g_nat(max(0, io['limit'])), g_nat(io['rl0']), g_nat(dlo), g_nat(dhi), g_nat(case.get('dchk', 0)),
            g_raise(case.get('raise')), gn, g_nat(CAP))
    return '(run_bounded_m %s %s %s %s %s %s %s %s %s %s %s %s %s)' % (
        prog, g_str(case['query'][0]), g_list([g_term(a) for a in args]), g_nat(nq),
        g_nat(io['cur']), g_nat(max(0, io['limit'])), g_nat(io['rl0']), g_nat(dlo), g_nat(dhi), g_nat(case.get('dchk', 0)),
        g_raise(case.get('raise')), gn, g_nat(CAP))

def _canon_model_tuples(l):
    return [canon([terms.obs_term(o) for o in t]) for t in l]

def model_view(mo):
    answers = _canon_model_tuples(mo[0])
    def item(k):
        if k >= 5000:
            return canon([['i', k - 5000 + 1000]])
        return answers[k] if k < len(answers) else '<answer %d beyond the printed ones>' % k
    def outcome(o):
        kind = o[0]
        if kind[0] == 'return':
            r = ['return', [item(k) for k in kind[1]]]
        else:
            r = ['raise', kind[1]]
        return {'outcome': r, 'rl': o[1], 'closed': bool(o[2])}
    return {'hi': answers, 'nhi': mo[1], 'fhi': mo[2][0], 'nlo': mo[3], 'flo': mo[4][0],
            'lo_out': outcome(mo[5]), 'hi_out': outcome(mo[6]), 'fchk': mo[7][0]}

def is_prefix(a, b):
    """only the first CAP answers are printed by the model / kept of the unbounded enumeration"""
    n = min(len(a), CAP)
    return len(a) <= len(b) and b[:n] == a[:n]

def same_outcome(x, y):
    if x[0] != y[0]:
        return False
    if x[0] == 'return':
        return len(x[1]) == len(y[1]) and x[1][:CAP] == y[1][:CAP]
    return x == y

def impl_outcome_as_model(io, case):
    o = io['outcome']
    if o[0] == 'return':
        return o
    return ['raise', exc_tag(o[1]) if (o[1] in EXC or o[1].startswith('Boom')) else ['Unknown', o[1]]]

def compare(case, io, mo):
    if 'rejected' in io:
        return 'the compiler rejected a generated program: %s %s' % (io['rejected'], io.get('msg'))
    if io.get('cyclic'):
        return None
    sys.setrecursionlimit(max(sys.getrecursionlimit(), 20000))
    if mo and mo[0] == 'stuck':
        return 'model compiler stuck'
    m = model_view(mo)
    if False:
        # (before the repair D27 the identity of variables collected by findall/3 was outside the model's cell naming and was
        # dropped here; findall copies now and the model is exact)
        an = lambda l: [re.sub(r'_G\d+', '_G', x) for x in l]
        io = dict(io, ref=an(io['ref']), outcome=(['return', an(io['outcome'][1])] if io['outcome'][0] == 'return' and isinstance(io['outcome'][1], list) else io['outcome']))
        m = dict(m, hi=an(m['hi']))
        for side in ('lo_out', 'hi_out'):
            o = m[side]['outcome']
            if o[0] == 'return':
                m[side] = dict(m[side], outcome=['return', an(o[1])])
    dlo, dhi = bounds(case, io)
    if m['fchk'] == 'err':
        return None       # outside the specified domain (cyclic unification, unbound goal): the model's error is not a depth error
    # the model's answer sequence against the unbounded enumeration of the implementation
    k = min(len(m['hi']), len(io['ref']))
    if m['hi'][:k] != io['ref'][:k]:
        return 'the unbounded enumeration differs from the model\'s answers (first difference within the first %d)' % k
    if m['fhi'] == 'norm' and io['ref_end'] == 'done' and m['nhi'] != len(io['ref']):
        return 'the model\'s search ends with %d answers, the unbounded enumeration with %d' % (m['nhi'], len(io['ref']))
    if m['fhi'] == 'norm' and io['ref_end'] in ('rec',):
        return 'the model\'s search ends within depth %d, the unbounded enumeration hit the recursion limit' % dhi
    for side in ('lo_out', 'hi_out'):
        if m[side]['rl'] != io['rl0']:
            return 'model: recursion limit not restored (model %s)' % side
    got = impl_outcome_as_model(io, case)
    if io['outcome'][0] == 'raise' and io['outcome'][1].startswith('Cleanup'):
        # close() of the abandoned query raised (clean-up of a Python predicate): not in the model; the oracle judges the rest
        return None if io['rl_after'] == io['rl0'] else 'recursion limit afterwards: implementation %d, before the call %d' % (io['rl_after'], io['rl0'])
    if io['rl_after'] != m['hi_out']['rl']:
        return 'recursion limit afterwards: implementation %d, model %d' % (io['rl_after'], m['hi_out']['rl'])
    if io['closed'] is not None and io['closed'] != m['hi_out']['closed']:
        return 'query generator finished afterwards: implementation %s, model %s' % (io['closed'], m['hi_out']['closed'])
    lo, hi = m['lo_out']['outcome'], m['hi_out']['outcome']
    if same_outcome(got, lo) or same_outcome(got, hi):
        return None
    if got[0] == 'return' and lo[0] == 'return':
        hi_list = hi[1] if hi[0] == 'return' else m['hi']
        if is_prefix(lo[1], got[1]) and is_prefix(got[1], hi_list) and (hi[0] == 'return' or not case.get('raise') or len(got[1]) <= case['raise'][0]):
            return None
        if not is_prefix(got[1], hi_list):
            return 'the result is not a prefix of what the model returns at the upper depth bound %d' % dhi
        if not is_prefix(lo[1], got[1]):
            return 'the result (%d answers) is shorter than what the model returns at the lower depth bound %d (%d answers)' % (len(got[1]), dlo, len(lo[1]))
        return 'the result is longer than the projection function allows'
    return 'outcome %s differs from the model (lower bound %s, upper bound %s)' % (_short(got), _short(lo), _short(hi))

def _short(o):
    if o[0] == 'return':
        return 'return of %d answers' % len(o[1])
    return 'raise %s' % (o[1],)

# ------------------------------------------------------------------ intrinsic oracle

def oracle(case, io):
    if not isinstance(io, dict) or 'outcome' not in io:
        return None
    o = io['outcome']
    if io['rl_after'] != io['rl0']:
        return 'the recursion limit is %d after the call, it was %d before' % (io['rl_after'], io['rl0'])
    if io['leaked']:
        return '%d Variables are still bound after evaluate_bounded was left' % io['leaked']
    if io['qbound']:
        return 'query variables %s are still bound after evaluate_bounded was left' % io['qbound']
    if io['closed'] is False:
        return 'the query generator is still suspended after evaluate_bounded was left'
    if io.get('cyclic'):
        return None
    rs = case.get('raise')
    if any(r != io['limit'] for r in io['rl_in']) and io['limit'] >= 1:
        return 'the recursion limit inside the projection function was %s, requested %d' % (io['rl_in'], io['limit'])
    if io['nested'] and not all(io['nested']):
        return 'nested evaluate_bounded: limit restored / variable unbound / generator finished = %s' % io['nested']
    for r in io.get('ninner') or []:
        if not (r[1] and r[2]):
            return 'evaluate_bounded inside a Python predicate: limit of the outer call restored / variable unbound = %s' % r[1:]
    msg = _complete(case, io)
    if msg:
        return msg
    if o[0] == 'raise':
        if o[1] in CAUGHT:
            return 'a %s escaped from evaluate_bounded' % o[1]
        if io['limit'] < 1:
            if o[1] != 'ValueError':
                return 'limit %d: %s escaped' % (io['limit'], o[1])
            return None
        inner = case.get('nest') and (case['nest'][2] == 'zero' or (case['nest'][3] and case['nest'][3][1] not in CAUGHT))
        if inner:
            return None
        if o[1].startswith('Cleanup'):
            i = int(o[1][7:])
            if (case.get('native') or [])[i].get('cleanup') != 'raise':
                return 'a clean-up exception of Python predicate %d arrived although its clean-up never raises' % i
            return None
        if o[1].startswith('Boom'):
            i = int(o[1][4:])
            if (case.get('native') or [])[i].get('raise') is None:
                return 'the exception object of Python predicate %d arrived although it never raises' % i
            return None
        if not rs or rs[1] in CAUGHT:
            return 'an exception %s escaped that the projection function did not raise' % o[1]
        if o[1] != rs[1] or not o[2]:
            return 'the exception of the projection function did not arrive unchanged (%s, same object: %s)' % (o[1], o[2])
        if io['proj_calls'] != rs[0] + 1:
            return 'the projection function raised at its call %d but was called %d times' % (rs[0], io['proj_calls'])
        return None
    res = o[1]
    if not isinstance(res, list):
        return 'evaluate_bounded returned %s' % res
    if res != io['seen'][:len(res)] or len(io['seen']) != len(res):
        return 'the result is not the list of the values the projection function returned (%d returned, %d in the result)' % (len(io['seen']), len(res))
    if rs and rs[1] not in CAUGHT and io['proj_calls'] > rs[0]:
        return 'the exception of the projection function was swallowed'
    if not case.get('nest'):
        n = min(len(res), len(io['ref']))
        if res[:n] != io['ref'][:n]:
            return 'the result is not a prefix of the unbounded enumeration'
        if len(res) > len(io['ref']) and io['ref_end'] != 'cap':
            return 'the result has more answers (%d) than the unbounded enumeration (%d)' % (len(res), len(io['ref']))
    return None

def _complete(case, io):
    """the search is finite and fits the bound (a plain loop at the same depth under a slightly LOWER limit ran to its end):
    the result must be the projection of every answer, in order (up to the answer at which the projection raises)"""
    pl = io.get('plain')
    if not pl or pl[0] != 'done' or case.get('nest') or io.get('cyclic'):
        return None
    A = pl[1]
    o = io['outcome']
    rs = case.get('raise')
    if rs and rs[0] < len(A):
        if o[0] == 'return' and isinstance(o[1], list) and o[1] != A[:rs[0]]:
            return ('the search fits the bound (a plain loop under the limit minus %d ran to its end with %d answers) but the result has %d answers, '
                    'the projection raises at answer %d' % (PLAIN_MARGIN, len(A), len(o[1]), rs[0]))
        return None
    if o[0] == 'raise':
        return None       # judged by the other conditions (what may escape)
    if isinstance(o[1], list) and o[1] != A:
        return ('the search is finite and fits the bound (a plain loop at the same depth under the limit minus %d ran to its end with %d answers) '
                'but evaluate_bounded returned %d answers%s' % (PLAIN_MARGIN, len(A), len(o[1]), '' if len(o[1]) != len(A) else ' (different ones)'))
    return None

# ------------------------------------------------------------------ cases

def call(f, *a): return ['call', f, list(a)]
def fact(name, *a): return [name, list(a), ['true']]

def peano(n, base=None):
    t = base if base is not None else A('z')
    for _ in range(n):
        t = F('s', t)
    return t

def fam_chain(rng, n=None):
    """finite search of depth about n, flat terms"""
    n = n if n is not None else rng.choice([1, 2, 3, 5, 8, 13, 20, 35, 60])
    cl = [['ch', [V('X')], ['and', call('nx', V('X'), V('Y')), call('ch', V('Y'))]], fact('ch', A('e'))]
    if rng.random() < 0.5:
        cl.reverse()
    cl += [fact('nx', A('n%d' % i), A('n%d' % (i + 1))) for i in range(n)] + [fact('nx', A('n%d' % n), A('e'))]
    start = rng.randrange(0, n + 1)
    q = ['ch', [A('n%d' % start)]] if rng.random() < 0.8 or n > 13 else ['ch', [V('Q0')]]
    return {'family': 'chain', 'clauses': cl, 'query': q, 'fpl': 2, 'tdepth': 2, 'need': n - start + 3}

def fam_countdown(rng):
    n = rng.choice([1, 3, 6, 12, 25, 50, 90])
    cl = [['dn', [F('s', V('X'))], call('dn', V('X'))], fact('dn', A('z'))]
    return {'family': 'countdown', 'clauses': cl, 'query': ['dn', [peano(n)]], 'fpl': 2, 'tdepth': n + 2, 'need': n + 1}

def fam_len(rng):
    n = rng.choice([0, 2, 5, 10, 25, 60])
    t = progs.REC_TEMPLATES[2][2]
    lst = ['list', [A(rng.choice('abc')) for _ in range(n)]]
    return {'family': 'len', 'clauses': [list(c) for c in t], 'query': ['len', [lst, V('Q0')]], 'fpl': 2, 'tdepth': n + 3, 'need': n + 1}

def fam_leftrec(rng):
    k = rng.randrange(0, 9)
    q3 = [fact('q', A('a')), fact('q', A('b')), fact('q', A('c'))]
    if k == 0:   # no answer, straight left recursion
        cl = [['lp', [V('X')], call('lp', V('X'))], fact('lp', A('a'))]
    elif k == 1:  # answers a, a, a, ... (the fact first)
        cl = [fact('lp', A('a')), ['lp', [V('X')], call('lp', V('X'))]]
    elif k == 2:  # left-recursive transitive closure: never an answer
        cl = [['lp', [V('X')], ['and', call('lp', V('Y')), call('e', V('Y'), V('X'))]], ['lp', [V('X')], call('e', A('a'), V('X'))],
              fact('e', A('a'), A('b')), fact('e', A('b'), A('c'))]
    elif k == 3:  # answers first, then left recursion that multiplies them
        cl = [['lp', [V('X')], call('e', A('a'), V('X'))], ['lp', [V('X')], ['and', call('lp', V('Y')), call('e', V('Y'), V('X'))]],
              fact('e', A('a'), A('b')), fact('e', A('b'), A('c')), fact('e', A('c'), A('a'))]
    elif k == 4:  # mutual recursion
        cl = [['lp', [V('X')], call('lq', V('X'))], ['lq', [V('X')], call('q', V('X'))], ['lq', [V('X')], call('lp', V('X'))]] + q3
    elif k == 5:  # through call/N
        cl = [['lp', [V('X')], call('q', V('X'))], ['lp', [V('X')], call('call', A('lp'), V('X'))]] + q3
    elif k == 6:  # through once and findall
        cl = [['lp', [V('X')], call('q', V('X'))], ['lp', [V('X')], rng.choice([call('once', F('lp', V('X'))), call('findall', V('Y'), F('lp', V('Y')), V('X'))])]] + q3
    elif k == 7:  # through negation / if-then-else
        cl = [['lp', [V('X')], call('q', V('X'))], ['lp', [V('X')], rng.choice([['not', call('lp', V('X'))], ['or', ['if', call('lp', V('Y')), call('=', V('X'), V('Y'))], call('=', V('X'), A('no'))]])]] + q3
    else:  # a cut after the first answers, then recursion
        cl = [['lp', [V('X')], call('q', V('X'))], ['lp', [V('X')], ['and', call('lp', V('X')), ['cut']]], fact('lp', A('never'))] + q3
    fpl = 3 if k in (5, 6) else 2
    return {'family': 'leftrec%d' % k, 'clauses': cl, 'query': ['lp', [V('Q0')]], 'fpl': fpl, 'tdepth': 3, 'maxdelta': {1: 120, 3: 24}.get(k, 400)}

def fam_infinite(rng):
    k = rng.randrange(0, 5)
    if k == 0:
        cl = [fact('nat', A('z')), ['nat', [F('s', V('X'))], call('nat', V('X'))]]
        return {'family': 'inf-nat', 'clauses': cl, 'query': ['nat', [V('Q0')]], 'fpl': 2, 'tdepth': 70, 'maxdelta': 120}
    if k == 1:   # flat terms, three answers per level
        cl = [['rep', [V('X')], call('q', V('X'))], ['rep', [V('X')], call('rep', V('X'))], fact('q', A('a')), fact('q', A('b')), fact('q', A('c'))]
        return {'family': 'inf-rep', 'clauses': cl, 'query': ['rep', [V('Q0')]], 'fpl': 2, 'tdepth': 3, 'maxdelta': 110}
    if k == 2:   # lists of growing length
        cl = [fact('ll', ['list', []]), ['ll', [['pair', A('x'), V('T')]], call('ll', V('T'))]]
        return {'family': 'inf-list', 'clauses': cl, 'query': ['ll', [V('Q0')]], 'fpl': 2, 'tdepth': 70, 'maxdelta': 120}
    if k == 3:   # two query variables, one aliased with a growing term
        cl = [fact('pr', A('z'), A('z')), ['pr', [F('s', V('X')), F('t', V('Y'))], call('pr', V('X'), V('Y'))]]
        return {'family': 'inf-pair', 'clauses': cl, 'query': ['pr', [V('Q0'), V('Q1')]], 'fpl': 2, 'tdepth': 70, 'maxdelta': 120}
    cl = [['nn', [V('X')], ['and', call('nat', V('X')), call('\\=', V('X'), A('z'))]], fact('nat', A('z')), ['nat', [F('s', V('X'))], call('nat', V('X'))]]
    return {'family': 'inf-filter', 'clauses': cl, 'query': ['nn', [V('Q0')]], 'fpl': 2, 'tdepth': 70, 'maxdelta': 120}

def fam_random(rng):
    o = progs.Opts(control=rng.random() < 0.6, cut=rng.random() < 0.4, opaque_cut=rng.random() < 0.3, builtins=rng.random() < 0.4)
    p = progs.gen_program(rng, o)
    return {'family': 'random', 'clauses': p['clauses'], 'query': rng.choice(p['queries']), 'fpl': 3, 'tdepth': 10, 'maxdelta': 160, 'dchk': 40}

def nspec(rng, name, ar, raise_=None, pclean=0.3):
    d = {'name': name, 'arity': ar, 'style': rng.choice(['inferred', 'explicit', 'variadic']),
         'yield': rng.choice(['false', 'true', 'mixed']), 'form': rng.choice(['arrays', 'nested']), 'raise': raise_}
    # round 4: finalisation that raises when the predicate is closed early / is slow; an evaluate_bounded inside the predicate
    d['cleanup'] = rng.choice(['raise', 'raise', 'slow']) if rng.random() < pclean else None
    d['inner'] = rng.random() < 0.2
    return d

def fam_pytop(rng):
    """a registered Python predicate as the goal of the query itself, behind call/N (both reached by `yield from` delegation
    only: what its clean-up raises on close() arrives at the caller of close()) or behind compiled clauses"""
    rows = [A(x) for x in rng.choice([['a', 'b', 'c'], ['a'], ['a', 'b', 'a', 'd', 'e']])]
    cl = [fact('q', r) for r in rows]
    k = rng.randrange(0, 8)
    if k == 0:
        query = ['q', [V('Q0')]]
    elif k == 1:
        query = ['call', [F('q', V('Q0'))]]
    elif k == 2:
        query = ['call', [A('q'), V('Q0')]]
    elif k == 3:
        query = ['call', [F('call', A('q'), V('Q0'))]]
    else:
        body = [call('call', F('q', V('X'))), call('call', A('q'), V('X')), call('q', V('X')),
                ['and', call('call', A('q'), V('X')), call('call', A('q'), V('Y'))]][k - 4]
        cl = cl + [['t', [V('X'), V('Y')], body]]
        query = ['t', [V('Q0'), V('Q1')]]
    return {'family': 'py-top', 'clauses': cl, 'query': query, 'fpl': 3, 'tdepth': 3, 'maxdelta': 200, 'need': 4, 'praise': 0.6, 'kmaxs': [0, 0, 1, 1, 2, 3, 6],
            'native': [nspec(rng, 'q', 1, rng.choice([None, None, None, 1, 3]), pclean=0.7)], 'dyn': c20.dyn_terms([['q', [A('dyn')]]]) if rng.random() < 0.3 else []}

def fam_python(rng):
    """engines with registered Python predicates and dynamic facts (model: Sem/NativeExc.v); a Python predicate may raise its
    own exception object instead of its j-th answer: it goes through evaluate_bounded like an exception of the projection"""
    k = rng.randrange(0, 5)
    q3 = [fact('q', A('a')), fact('q', A('b')), fact('q', A('c'))]
    if k in (0, 1):     # finite chain of prescribed depth over nx/2: Python predicate (0) or dynamic facts (1)
        n = rng.choice([1, 2, 3, 5, 8, 13, 20, 30])
        rules = [['ch', [V('X')], ['and', call('nx', V('X'), V('Y')), call('ch', V('Y'))]], fact('ch', A('e'))]
        nx = [[A('n%d' % i), A('n%d' % (i + 1))] for i in range(n)] + [[A('n%d' % n), A('e')]]
        start = rng.randrange(0, n + 1)
        c = {'family': 'py-chain' if k == 0 else 'dyn-chain', 'query': ['ch', [A('n%d' % start)]], 'fpl': 3, 'tdepth': 4, 'need': n - start + 3, 'maxdelta': 200}
        if k == 0:
            c['clauses'] = rules + [['nx', r, ['true']] for r in nx]
            c['native'] = [nspec(rng, 'nx', 2, rng.choice([None, None, None, rng.randrange(0, n + 1)]))]
            c['dyn'] = []
        else:
            c['clauses'] = rules
            c['native'] = []
            c['dyn'] = c20.dyn_terms([['nx', r] for r in nx])
        return c
    if k == 2:          # infinitely many answers through a Python predicate that may raise
        cl = [['lp', [V('X')], call('q', V('X'))], ['lp', [V('X')], call('lp', V('X'))]] + q3
        return {'family': 'py-inf', 'clauses': cl, 'query': ['lp', [V('Q0')]], 'fpl': 3, 'tdepth': 3, 'maxdelta': 90,
                'native': [nspec(rng, 'q', 1, rng.choice([None, 0, 1, 2, 3, 7, 20]))], 'dyn': c20.dyn_terms([['q', [A('dyn')]]]) if rng.random() < 0.3 else []}
    if k == 3:          # growing terms over a Python base case
        cl = [['nat', [V('X')], call('zero', V('X'))], ['nat', [F('s', V('X'))], call('nat', V('X'))], fact('zero', A('z'))]
        return {'family': 'py-nat', 'clauses': cl, 'query': ['nat', [V('Q0')]], 'fpl': 3, 'tdepth': 70, 'maxdelta': 110,
                'native': [nspec(rng, 'zero', 1, rng.choice([None, None, 5, 12]))], 'dyn': []}
    while True:         # a random finite program with all its fact predicates in Python
        clauses, queries, dyn = c20.gen_base(rng)
        fp = sorted(c20.fact_preds(clauses))
        if fp:
            break
    nats = [nspec(rng, kk[0], kk[1]) for kk in fp]
    if rng.random() < 0.3:
        nats[rng.randrange(len(nats))]['raise'] = rng.choice([0, 1, 2])
    return {'family': 'py-random', 'clauses': clauses, 'query': rng.choice(queries), 'fpl': 3, 'tdepth': 10, 'maxdelta': 160, 'dchk': 40,
            'native': nats, 'dyn': c20.dyn_terms(dyn)}

def fam_meta(rng):
    """a deep or infinite goal INSIDE findall/3, once/1, call/N, \\+ or the condition of an if-then-else, with answers of the caller
    before and after it: when the limit strikes inside the meta-call the whole enumeration ends there (nothing may be caught on
    the way up), so the result is the prefix delivered before"""
    q3 = [fact('q', A('a')), fact('q', A('b')), fact('q', A('c'))]
    nat = [fact('nat', A('z')), ['nat', [F('s', V('X'))], call('nat', V('X'))]]
    lp0 = [['lp0', [V('X')], call('lp0', V('X'))]]
    n = rng.choice([2, 5, 10, 20, 40])
    deep = [['dp', [V('X')], ['and', call('nx', V('X'), V('Y')), call('dp', V('Y'))]], fact('dp', A('e'))] + \
           [fact('nx', A('n%d' % i), A('n%d' % (i + 1))) for i in range(n)] + [fact('nx', A('n%d' % n), A('e'))]
    inner = rng.choice(['nat', 'lp0', 'deep'])
    if inner == 'nat':
        prog, goal = nat, F('nat', V('Y'))
    elif inner == 'lp0':
        prog, goal = lp0, F('lp0', V('Y'))
    else:
        prog, goal = deep, F('dp', A('n0'))
    g = ['call', goal[1], goal[2]]
    k = rng.randrange(0, 7)
    if k == 0:
        body = call('findall', V('Y'), goal, V('L'))
    elif k == 1:
        body = call('once', goal)
    elif k == 2:
        body = call('call', goal) if not goal[2] or rng.random() < 0.5 else call('call', ['fun', goal[1], goal[2][:-1]] if goal[2][:-1] else A(goal[1]), goal[2][-1])
    elif k == 3:
        body = ['not', g]
    elif k == 4:
        body = ['or', ['if', g, call('=', V('L'), A('yes'))], call('=', V('L'), A('no'))]
    elif k == 5:
        body = call('findall', V('Y'), F('once', goal), V('L'))
    else:
        body = ['not', ['not', g]]
    shape = rng.randrange(0, 3)
    if shape == 0:      # the meta-call alone
        cl = [['t', [V('X'), V('L')], ['and', call('=', V('X'), A('only')), body]]]
    elif shape == 1:    # after each answer of q
        cl = [['t', [V('X'), V('L')], ['and', call('q', V('X')), body]]]
    else:               # answers first, then a clause with the meta-call, then more answers
        cl = [['t', [V('X'), V('L')], call('q', V('X'))], ['t', [V('X'), V('L')], ['and', call('=', V('X'), A('m')), body]], fact('t', A('last'), A('last'))]
    return {'family': 'meta-' + inner, 'clauses': cl + q3 + prog, 'query': ['t', [V('Q0'), V('Q1')]], 'fpl': 3,
            'tdepth': 70 if inner == 'nat' else 4, 'maxdelta': 120 if inner == 'nat' else 260, 'need': (n + 6) if inner == 'deep' else None}

def rand_delta(rng, c):
    md = c.get('maxdelta', 400)
    r = rng.random()
    if r < 0.3:
        d = rng.randrange(1, 26)
    elif r < 0.6:
        d = rng.randrange(20, 90)
    elif r < 0.92:
        d = rng.randrange(60, 400)
    else:
        d = rng.randrange(-3, 2)
    if c.get('need') and rng.random() < 0.5:
        # around the depth the search needs
        d = 2 * c['need'] + rng.randrange(-8, 30)
    return min(d, md)

def decorate(rng, c):
    c = dict(c)
    c['delta'] = rand_delta(rng, c)
    c['abs_limit'] = None
    if rng.random() < 0.04:
        c['abs_limit'] = rng.choice([0, -1, -100])
    elif rng.random() < 0.05 and c.get('maxdelta', 400) >= 200:
        c['abs_limit'] = 'default'
        c['delta'] = 180
    c['rl0_extra'] = rng.choice([700, 1000, 1234, 2500, 6000])
    if c['abs_limit'] is None and rng.random() < 0.2:
        # round 4: the bound is EQUAL TO / ABOVE the limit the interpreter has before the call (evaluate_bounded must raise the
        # limit then): with a finite search whose depth lies between the two the result must still be complete
        finite = c.get('need') is not None
        if finite and rng.random() < 0.5:
            c['delta'] = min(max(c['delta'], 2 * c['need'] + rng.randrange(10, 60)), max(c.get('maxdelta', 400), 2 * c['need'] + 60))
        if finite and rng.random() < 0.2:
            c['delta'] = rng.choice([900, 1500, 2600])           # far above
        if c['delta'] >= 28:
            c['rl0_extra'] = rng.choice([c['delta'], 25, 25, 32, 40, max(25, c['delta'] // 2), max(25, c['delta'] - 7)])
    c['extra_depth'] = rng.choice([0, 0, 0, 3, 17, 60])
    r = rng.random()
    c['raise'] = None
    c['nest'] = None
    if r < c.get('praise', 0.45):
        kmax = rng.choice(c.get('kmaxs') or [0, 0, 1, 2, 3, 5, 10, 40])
        c['raise'] = [rng.randrange(0, kmax + 1), rng.choice(EXC)]
    elif r < 0.58 and c['delta'] >= 14 and c['abs_limit'] is None:
        rs2 = [rng.randrange(0, 3), rng.choice(EXC)] if rng.random() < 0.4 else None
        c['nest'] = [rng.randrange(0, 3), rng.randrange(0, 4), rng.choice(['ok', 'ok', 'low', 'zero']), rs2]
    return c

FAMILIES = [(fam_random, 5), (fam_chain, 3), (fam_countdown, 1), (fam_len, 1), (fam_leftrec, 4), (fam_infinite, 4), (fam_python, 5), (fam_meta, 5), (fam_pytop, 4)]

def gen(rng, tier):
    n = 290 if tier == 'quick' else 4000
    fams = [f for f, w in FAMILIES for _ in range(w)]
    cases = []
    for _ in range(n):
        c = rng.choice(fams)(rng)
        cases.append(decorate(rng, c))
    return cases

def builtin_corpus():
    import random
    rng = random.Random(17)
    L = []
    def add(c, **kw):
        d = {'delta': 60, 'abs_limit': None, 'rl0_extra': 1000, 'extra_depth': 0, 'raise': None, 'nest': None}
        d.update(c); d.update(kw)
        L.append(d)
    nat = {'family': 'inf-nat', 'clauses': [fact('nat', A('z')), ['nat', [F('s', V('X'))], call('nat', V('X'))]], 'query': ['nat', [V('Q0')]], 'fpl': 2, 'tdepth': 70}
    cats = {'family': 'facts', 'clauses': [fact('cat', A('tom')), fact('cat', A('felix')), fact('cat', F('f', V('X'), V('X')))], 'query': ['cat', [V('Q0')]], 'fpl': 2, 'tdepth': 3}
    for delta in (1, 2, 3, 4, 5, 6, 7, 8, 9, 10, 11, 12, 14, 16, 30, 100):
        add(nat, delta=delta)
        if delta < 14:
            add(cats, delta=delta)
    for e in EXC:
        for k in (0, 2):
            add(nat, delta=40, **{'raise': [k, e]})
            add(cats, delta=40, **{'raise': [k + 1, e]})
        add(nat, delta=9, **{'raise': [2, e]})
    add(cats, abs_limit='default', delta=180)
    add(dict(nat, tdepth=110), abs_limit='default', delta=180)
    add(dict(nat, tdepth=110), abs_limit='default', delta=180, **{'raise': [3, 'KeyError']})
    for lim in (0, -1):
        add(cats, abs_limit=lim)
        add(nat, abs_limit=lim, **{'raise': [0, 'KeyError']})
    for d in (-2, -1, 0):
        add(cats, delta=d)
    for mode in ('ok', 'low', 'zero'):
        add(nat, delta=50, nest=[1, 3, mode, None])
        add(cats, delta=50, nest=[0, 2, mode, [1, 'KeyError']])
        add(cats, delta=50, nest=[2, 3, mode, [0, 'RecursionError']])
    for k in range(9):
        c = None
        while c is None or c['family'] != 'leftrec%d' % k:
            c = fam_leftrec(rng)
        for delta in (5, 12, 60):
            add(c, delta=min(delta, c.get('maxdelta', 400)))
        add(c, delta=24, **{'raise': [1, 'Custom']})
    for n in (3, 20):
        c = fam_chain(rng, n)
        c['query'] = ['ch', [A('n0')]]
        c['need'] = n + 3
        for delta in range(2 * n + 2, 2 * n + 22, 4):
            add(c, delta=delta)
    # round 4: a Python predicate whose clean-up raises when it is closed early, reached by `yield from` only / behind compiled code,
    # abandoned by every class of projection exception; bounds equal to and above the interpreter's limit over a finite search
    r4 = random.Random(4)
    seen = set()
    while len(seen) < 6:
        c = fam_pytop(r4)
        key = repr(c['query']) + repr(c['clauses'][-1])
        if key in seen:
            continue
        seen.add(key)
        c['native'][0].update(cleanup='raise', inner=len(seen) % 2 == 0, **{'raise': None})
        for e in ('KeyError', 'StopIteration', 'RecursionError'):
            add(c, delta=60, **{'raise': [0, e]})
        add(c, delta=60)
    for n in (5, 30):
        c = fam_chain(rng, n)
        c['query'] = ['ch', [A('n0')]]
        c['need'] = n + 3
        for extra in (25, 2 * n + 10, 2 * n + 40):
            add(c, delta=2 * n + 40, rl0_extra=extra)
        add(c, delta=1500, rl0_extra=25)
    for c in L:
        c.pop('raise_', None)
        c.pop('praise', None); c.pop('kmaxs', None)
    return L

def nontrivial(case, io):
    if not isinstance(io, dict) or 'outcome' not in io or io.get('cyclic'):
        return False
    o = io['outcome']
    if o[0] == 'raise':
        return True
    if case.get('raise') and io['proj_calls'] > case['raise'][0]:
        return True
    return isinstance(o[1], list) and (len(o[1]) < len(io['ref']) or io['ref_end'] == 'rec')

def distribution(cases, obs):
    d = {'family': {}, 'outcome': {}, 'result_vs_unbounded': {'complete': 0, 'proper prefix': 0, 'empty although answers exist': 0},
         'delta': {'<=0': 0, '1-12': 0, '13-40': 0, '41-120': 0, '>120': 0}, 'projection': {'returns': 0, 'nested': 0}, 'absolute limit (0, negative, default 200)': 0}
    r4 = d['round 4'] = {'bound equal to or above the interpreter limit': 0, 'of these: search complete (depth between the two limits or below)': 0,
                         'plain loop under the bound minus margin ran to its end (completeness oracle applies)': 0,
                         'Python predicate with raising clean-up': 0, 'close() of the abandoned query raised (CleanupError came out)': 0,
                         'Python predicate with slow clean-up': 0, 'evaluate_bounded inside a Python predicate (calls)': 0}
    for c, o in zip(cases, obs):
        if isinstance(o, dict) and 'outcome' in o:
            above = c.get('abs_limit') is None and c['rl0_extra'] <= c['delta']
            r4['bound equal to or above the interpreter limit'] += above
            r4['of these: search complete (depth between the two limits or below)'] += bool(above and o.get('plain') and o['plain'][0] == 'done' and o['plain'][1])
            r4['plain loop under the bound minus margin ran to its end (completeness oracle applies)'] += bool(o.get('plain') and o['plain'][0] == 'done')
            r4['Python predicate with raising clean-up'] += any(n.get('cleanup') == 'raise' for n in c.get('native') or [])
            r4['Python predicate with slow clean-up'] += any(n.get('cleanup') == 'slow' for n in c.get('native') or [])
            r4['close() of the abandoned query raised (CleanupError came out)'] += o['outcome'][0] == 'raise' and o['outcome'][1].startswith('Cleanup')
            r4['evaluate_bounded inside a Python predicate (calls)'] += len(o.get('ninner') or [])
    for c, o in zip(cases, obs):
        fam = c.get('family', '?')
        fam = 'leftrec' if fam.startswith('leftrec') else fam
        d['family'][fam] = d['family'].get(fam, 0) + 1
        if c.get('abs_limit') is not None:
            d['absolute limit (0, negative, default 200)'] += 1
        else:
            x = c['delta']
            d['delta']['<=0' if x <= 0 else '1-12' if x <= 12 else '13-40' if x <= 40 else '41-120' if x <= 120 else '>120'] += 1
        if c.get('raise'):
            k = 'raises ' + c['raise'][1]
            d['projection'][k] = d['projection'].get(k, 0) + 1
        elif c.get('nest'):
            d['projection']['nested'] += 1
        else:
            d['projection']['returns'] += 1
        if not isinstance(o, dict) or 'outcome' not in o:
            d['outcome']['harness'] = d['outcome'].get('harness', 0) + 1
            continue
        oc = o['outcome']
        k = 'return' if oc[0] == 'return' else 'raise ' + oc[1]
        d['outcome'][k] = d['outcome'].get(k, 0) + 1
        if oc[0] == 'return' and isinstance(oc[1], list) and not c.get('nest'):
            if len(oc[1]) >= len(o['ref']) and o['ref_end'] == 'done':
                d['result_vs_unbounded']['complete'] += 1
            elif len(oc[1]) == 0 and o['ref']:
                d['result_vs_unbounded']['empty although answers exist'] += 1
            else:
                d['result_vs_unbounded']['proper prefix'] += 1
    return d

def describe(case):
    q = case['query']
    return {'program': semcheck.source_of(case), 'python_predicates': case.get('native') or [], 'dynamic_facts': [[n, [terms.show_term(t) for t in ts]] for n, ts in (case.get('dyn') or [])], 'query': ast_io.term_text(['fun', q[0], q[1]]) if q[1] else q[0],
            'limit': 'the default (200)' if case.get('abs_limit') == 'default' else case['abs_limit'] if case.get('abs_limit') is not None else 'depth of the evaluate_bounded frame + %d' % case['delta'],
            'projection': ('raises %s at answer %d' % (case['raise'][1], case['raise'][0])) if case.get('raise') else
                          ('nested evaluate_bounded at answer %d (%s)' % (case['nest'][0], case['nest'][2])) if case.get('nest') else 'returns the answer'}

_SHRINK_LEFT = [45]     # candidates per run: a candidate may cost a whole CASE_TIMEOUT when the implementation loops

def shrink(case):
    for c in _shrink(case):
        if _SHRINK_LEFT[0] <= 0:
            return
        _SHRINK_LEFT[0] -= 1
        yield c

def _shrink(case):
    if case.get('extra_depth'):
        yield dict(case, extra_depth=0)
    if case.get('nest'):
        yield dict(case, nest=None)
    if case.get('raise'):
        yield dict(case, **{'raise': None})
        if case['raise'][0] > 0:
            yield dict(case, **{'raise': [case['raise'][0] - 1, case['raise'][1]]})
    if case.get('abs_limit') is None:
        for d in (case['delta'] // 2, case['delta'] - 1):
            if 0 < d < case['delta']:
                yield dict(case, delta=d)
    cl = case['clauses']
    for i in range(len(cl)):
        yield dict(case, clauses=cl[:i] + cl[i + 1:])
