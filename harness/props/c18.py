"""C18 - compilation is a deterministic function of the source text."""
import os, sys, re, json, hashlib, subprocess, random
from lib import terms, coqrun
from lib.terms import g_str, g_list
from props.cli_gen import Gen, SGen, render_clause, clause_variables, wide_clause
from props import c18_driver
from lib import emitcheck as E

ID = 'C18'
IMPORTS = E.IMPORTS
THEOREMS = ['C18_filter_free_canonical', 'C18_canonical_unique', 'C18_decl_order_canonical', 'C18_pipeline_is_compile_text',
            'C18_set_order_refuted', 'C18_group_order_refuted', 'C18_counters_per_call', 'C18_shared_counters_refuted']
RULE = ('batch cases: every program of the batch is compiled through compile_prolog_from_string in >= 8 subprocesses with '
        'different PYTHONHASHSEED, each with its own order of the programs, 0-5 unrelated compilations before each (syntax '
        'errors, visitor errors such as p :- q(foo/2)., non-callable heads, valid programs) and its own kind of options '
        'argument (default, fresh/reused object, fresh/reused class, object without current_source_file, or compile_prolog_from_file on a '
        'file holding the text), and twice in the '
        'harness process; all results for a program must be byte-identical (sha256 of the text, or exception class and '
        'message) AND equal to the text that the Coq model of the compiler (Comp/CompileText.v compile_text, evaluated in Coq on '
        'the source text) gives for that program (sha256 of the model text; for a refused program the kind of refusal). '
        'decl cases: one structured clause; the whole compiled text is compared with the model text, and the order of the '
        '`V_x = variable()` lines with the first-occurrence order computed from the clause syntax. SIZE CLASS: every batch has a '
        'program, and every tenth decl case is a clause, with 64-300 variable occurrences (boundary sizes 99-102, 128, 255-257) in wide '
        'lists / compound terms in head and body (distinct, repeated and anonymous variables); 2 batches (thorough 10) contain a program '
        'of 8-17 kB made of hundreds of small clauses. Non-trivial: a batch that '
        'contains a program with a clause with >= 2 fresh variables, >= 1 if-then-else and >= 1 anonymous variable; a decl case '
        'with >= 2 declared variables of which one occurs more than once. Distinct by hash of the case.')
TRUSTED_BASE = [
    'Coq 8.16.1 kernel (coqc); vm_compute for the in-Coq evaluation of the model compiler on every program; no native_compute',
    'no axioms: all C18 theorems are closed under the global context',
    'hand-written model of the compiler Comp/CompileText.v compile_text (front end, compile_program, limits, emitter with repr; '
    'shared with C11/C12) and Cli/DetCompile.v (the same pipeline with the variable-order function and the initial counters '
    'as parameters, proved equal to compile_text at (identity, (0,0))); tied to /repo byte for byte by this check',
    'determinism of the implementation itself (process, hash seed, history, options object) is OBSERVED over the sweep of '
    'configurations described in the rule, not proved: the model is a function, which proves nothing about CPython',
    'str.isprintable of the non-ASCII code points of a case is read from the host Python (the `printable` parameter of the model)',
    'harness: generators, subprocess driver harness/props/c18_driver.py, digest comparison',
]
ASSUMPTIONS = ['errors raised for an options object that lacks current_source_file (AttributeError instead of CompilerError for a '
               'non-callable head) are compared only among runs with such an object (and their kind with the model)',
               'debug options are off in every compilation (debug text contains object addresses and is not part of the returned text)',
               'hash seeds, orders and histories are sampled, not exhausted',
               'messages and positions of errors are compared between runs, not with the model (the model only has the kind of refusal)']
CASE_TIMEOUT = 300
COQ_CHUNK = 14

PY = sys.executable
MODES = ['default', 'fresh-object', 'reused-object', 'reused-class', 'fresh-class', 'bare-object', 'from-file']

# ------------------------------------------------------------------ generation

def _noise(rng, g):
    k = rng.random()
    if k < 0.25:
        return g.bad_syntax()
    if k < 0.5:
        return g.bad_visitor()
    if k < 0.65:
        return g.bad_head()
    if k < 0.75:
        return 'p :- q(foo/2).\n'
    # valid programs that advance every counter a lot before the program under test
    return g.program(nclauses=3, rich=0.8)

def gen_batch(rng, g, sg, nprog, nproc, npairs=2, large=None):
    programs = [large] if large else []
    related = {}            # program index -> indices of noise texts that are look-alikes of it
    for i in range(nprog):
        k = rng.random()
        if i == 0 or k < 0.1:
            # SIZE CLASS: clauses with 60-300 variable occurrences in wide terms (one per batch at least), alone or between
            # ordinary clauses of the same and of other predicates
            cl = [render_clause(wide_clause(rng)) for _ in range(rng.choice([1, 1, 2]))]
            cl += [render_clause(sg.clause()) for _ in range(rng.choice([0, 1, 2]))]
            rng.shuffle(cl)
            programs.append('\n'.join(cl) + '\n')
        elif k < 0.4:
            programs.append(g.program(nclauses=rng.choice([1, 2, 3]), rich=0.8))
        elif k < 0.6:
            programs.append('\n'.join(render_clause(sg.clause()) for _ in range(rng.choice([1, 2, 4]))) + '\n')
        elif k < 0.75:
            programs.append(g.anon_program())
        elif k < 0.9:
            programs.append(g.program())
        else:
            programs.append(rng.choice([g.bad_syntax, g.bad_visitor, g.bad_head])())   # errors must be deterministic too
    noise = [_noise(rng, g) for _ in range(8)]
    # RELATED earlier compilations: for every program a respelling of it (quotes added / removed), and pairs of look-alike
    # programs (same shape, slots filled with terms whose unquoted printed forms collide) that are BOTH programs under test
    # and each other's noise: a process-wide cache keyed by anything less than the term itself makes one of them wrong
    for i in range(len(programs)):
        noise.append(g.respell(programs[i]))
        related[i] = [len(noise) - 1]
    for _ in range(npairs):
        a, b = g.lookalike_pair()
        ia, ib = len(programs), len(programs) + 1
        programs += [a, b]
        noise += [a, b]
        related[ia] = [len(noise) - 1]      # b before a
        related[ib] = [len(noise) - 2]      # a before b
    seeds = [0, 1] + rng.sample(range(2, 4000), nproc - 2)
    procs = []
    for s in seeds:
        order = list(range(len(programs)))
        rng.shuffle(order)
        mode = rng.choice(MODES)
        plan = []
        for pi in order:
            before = [rng.randrange(8) for _ in range(rng.choice([0, 0, 1, 2, 3, 5]))]
            if rng.random() < 0.6:
                before += related[pi]          # the look-alike is the LAST thing compiled before the program
            plan.append([pi, before, mode])
        procs.append({'hashseed': s, 'plan': plan})
    return {'kind': 'batch', 'programs': programs, 'noise': noise, 'procs': procs}

def gen(rng, tier):
    nbatch, nprog, nproc, ndecl = (12, 7, 8, 240) if tier == 'quick' else (100, 10, 12, 2500)
    g = Gen(rng, special=0.15)
    sg = SGen(rng)
    # SIZE CLASS of texts: some batches contain a program of 8-17 kB made of hundreds of small clauses (fact table / many clauses
    # per predicate; generator shared with C10)
    from props import c10 as _c10
    nlarge = 2 if tier == 'quick' else 10
    def large(i):
        if i >= nlarge:
            return None
        return _c10.g_large(rng, ['facts', 'clauses', 'facts+'][i % 3], rng.choice([8200, 8700, 10000] if tier == 'quick' else [8200, 10000, 16400, 20000]))[0]
    batches = [gen_batch(rng, g, sg, nprog, nproc, large=large(i)) for i in range(nbatch)]
    decls = [{'kind': 'decl', 'clause': wide_clause(rng) if i % 10 == 9 else sg.clause()} for i in range(ndecl)]
    cases = []
    step = max(1, len(decls) // max(1, len(batches)))
    di = 0
    for b in batches:
        cases.append(b)
        cases.extend(decls[di:di + step])
        di += step
    cases.extend(decls[di:])
    return cases

def builtin_corpus():
    L = []
    # (the D18 clause - declaration order depended on the hash seed - is in corpus/C18/d18.json)
    progs = ['a(X,Y) :- ( b(X) -> c(_) ; d(_) ), ( e(Y) -> f(_, Q) ; g(Q, R, _) ), h([R|_]).\n',
             'len([], 0).\nlen([_|T], s(N)) :- len(T, N).\n', 'r(X) :- X = bar/3, s.\n', 'p(Q, X) :- q(X, [Q|Fresh]).\n']
    noise = ['r(X) :- X = bar/3, s.\n', 'true.\n', 'p(Q) :- ( a -> b ; c ), q(foo/2).\n', 'X :- a.\n',
             'z(_, _, _) :- ( a -> b ; c ), ( d -> e ; f ), ( g -> h ; i ), w(_, _, _).\n', "'hello world'(a).\n", '', 'ok(a).\n']
    procs = []
    r = random.Random(18)
    for k, s in enumerate([0, 1, 2, 3, 42, 123, 999, 31337]):
        order = list(range(len(progs))); r.shuffle(order)
        procs.append({'hashseed': s, 'plan': [[pi, [r.randrange(len(noise)) for _ in range(k % 6)], MODES[k % len(MODES)]] for pi in order]})
    L.append({'kind': 'batch', 'programs': progs, 'noise': noise, 'procs': procs})
    # look-alike terms: each program is compiled right after its partner (and the other way round) in every process
    pairs = ["t(text('hello,world')).\n", "t(text(hello,world)).\n", "l(['so,long',friend]).\n", "l([so,long,friend]).\n",
             "n('1', 1, 'X', X).\n", "n(1, '1', X, 'X').\n", "e('[]', [], '_', _).\n", "e([], '[]', _, '_').\n",
             "p(_, a).\nq(_).\np(_, b).\n", "p(_, a).\n:- d(_, X).\nq(_).\np(_, b).\n"]
    procs = []
    for k, s in enumerate([0, 1, 7, 99, 1234, 5, 77, 4242]):
        order = list(range(len(pairs)))
        if k % 2:
            order.reverse()
        procs.append({'hashseed': s, 'plan': [[pi, [pi ^ 1] * (1 + k % 2), MODES[k % len(MODES)]] for pi in order]})
    L.append({'kind': 'batch', 'programs': pairs, 'noise': pairs, 'procs': procs})
    v = lambda n: ['v', n]
    L.append({'kind': 'decl', 'clause': {'name': 'p', 'args': [v('X'), v('X'), ['_'], ['l', [v('H'), ['_']]]], 'body': ['ite', ['call', 'q', [['_'], v('H')]], ['=', v('Y'), v('X')], ['call', 'r', [v('Z'), v('Y')]]]}})
    L.append({'kind': 'decl', 'clause': {'name': 'p', 'args': [], 'body': None}})
    return L

# ------------------------------------------------------------------ implementation side

def _spawn(case, proc):
    env = {'PATH': os.environ.get('PATH', '/usr/bin:/bin'), 'PYTHONPATH': os.path.join(os.environ.get('VERIF_REPO', '/repo'), 'src'),
           'PYTHONHASHSEED': str(proc['hashseed']), 'PYTHONDONTWRITEBYTECODE': '1', 'LC_ALL': 'C.UTF-8',
           'VERIF_SCRATCH': _scratch()}
    job = json.dumps({'programs': case['programs'], 'noise': case['noise'], 'plan': proc['plan']})
    return subprocess.Popen([PY, os.path.abspath(c18_driver.__file__)], stdin=subprocess.PIPE, stdout=subprocess.PIPE,
                            stderr=subprocess.PIPE, env=env, text=True), job

def _scratch():
    d = os.path.join(coqrun.VERIF, '.work', 'c18-scratch')
    os.makedirs(d, exist_ok=True)
    return d

_DECL = re.compile(r'^\s+V_(\w+) = variable\(\)$', re.M)
_ALIAS = re.compile(r'^\s+V_(\w+) = arg\d+$', re.M)

def impl(case):
    if case['kind'] == 'decl':
        from yldprolog.compiler import compile_prolog_from_string
        text = render_clause(case['clause']) + '\n'
        try:
            out = compile_prolog_from_string(text)
        except Exception as e:
            return {'error': type(e).__name__, 'text': text}
        return {'declared': _DECL.findall(out), 'aliased': _ALIAS.findall(out), 'text': text, 'out': out}
    # batch: compile here (twice, with unrelated compilations in between), then one subprocess after the other
    # (the runner's pool already runs several cases in parallel: no more than one child per pool worker)
    here = []
    state = {}
    first = [c18_driver.compile_one(t, None) for t in case['programs']]
    for t in case['noise']:
        c18_driver.compile_one(t, c18_driver.make_options('reused-object', state))
    second = [c18_driver.compile_one(t, c18_driver.make_options('reused-object', state)) for t in reversed(case['programs'])][::-1]
    results = [{d} for d in first]
    bare = [set() for _ in first]
    for i, d in enumerate(second):
        results[i].add(d)
    problems = []
    for proc in case['procs']:
        p, job = _spawn(case, proc)
        try:
            out, err = p.communicate(job, timeout=240)
        except Exception as e:
            p.kill()
            problems.append('subprocess with hash seed %d: %r' % (proc['hashseed'], e))
            continue
        if p.returncode != 0:
            problems.append('subprocess with hash seed %d exited with %d: %s' % (proc['hashseed'], p.returncode, err[-300:]))
            continue
        for pi, dgst in json.loads(out):
            if dgst.startswith('EXC') and proc['plan'] and proc['plan'][0][2] == 'bare-object':
                # an options object without current_source_file (as in the repo's tests) makes the visitor's
                # `raise CompilerError(self.context.current_source_file, ...)` an AttributeError: different options,
                # different error; such results are compared among themselves only
                bare[pi].add(dgst)
                if len(bare[pi]) == 2:
                    problems.append('program %d: options without current_source_file give different errors: %s' % (pi, sorted(bare[pi])))
                continue
            if dgst not in results[pi]:
                results[pi].add(dgst)
                if len(results[pi]) == 2:
                    problems.append('program %d: hash seed %d (options %s) gives %s, the harness process gave %s' % (
                        pi, proc['hashseed'], proc['plan'][0][2] if proc['plan'] else '-', dgst[:40], first[pi][:40]))
    rich = []
    from yldprolog.compiler import compile_prolog_from_string
    for t in case['programs']:
        rich.append(_rich(t, compile_prolog_from_string))
    return {'digests': [sorted(s) for s in results], 'bare': [sorted(s) for s in bare], 'problems': problems, 'rich': rich,
            'observations': len(case['procs']) + 2}

def _rich(text, comp):
    """a clause with >= 2 fresh variables, >= 1 if-then-else and >= 1 anonymous variable?"""
    try:
        out = comp(text)
    except Exception:
        return False
    for fn in out.split('\ndef ')[1:]:
        if len(_DECL.findall(fn)) >= 2 and 'cutIf' in fn and re.search(r'\bV_x\d+\b', fn):
            return True
    return False

# ------------------------------------------------------------------ model side

def model_expr(case):
    """the text (or the kind of rejection) that the Coq model of the compiler, Comp/CompileText.v compile_text, computes
    for every source of the case"""
    if case['kind'] == 'decl':
        return '(OL [%s])' % E.model_text_expr(render_clause(case['clause']) + '\n')
    return '(OL [%s])' % '; '.join(E.model_text_expr(t) for t in case['programs'])

def _digest_verdict(dg):
    """classify a digest of c18_driver.compile_one the way lib/emitcheck.compile_verdict classifies an outcome"""
    if dg.startswith('OK:'):
        return 'text'
    if dg == 'EXC:RecursionError':
        return 'resource'
    _, cls, msg = dg.split(':', 2)
    if cls == 'CompilerError' and 'program too large for Python' in msg:
        return 'too-large'
    if cls == 'ValueError' and 'integer string conversion' in msg:
        return 'reject-numeral'
    return 'reject-front'

def _sha(text):
    return 'OK:' + hashlib.sha256(text.encode('utf8', 'surrogatepass')).hexdigest()

def compare(case, io_, mo):
    if case['kind'] == 'decl':
        if 'error' in io_:
            return 'the clause does not compile: %s' % io_['error']
        return E.compare_verdicts(io_['text'], 'text', io_['out'], mo[0])
    # batch: EVERY observation of every program (each process, hash seed, history, options object) is the model's text
    for i, (t, ds) in enumerate(zip(case['programs'], io_['digests'])):
        mv, mtext = E.model_verdict(mo[i])
        want = _sha(mtext) if mv == 'text' else None
        for dg in ds + io_['bare'][i]:
            iv = _digest_verdict(dg)
            if iv == 'resource' and E.source_depth(t) >= 100:
                continue
            if iv != mv:
                return 'program %d: an observation is %s (%s), the model compiler says %s' % (i, iv, dg[:60], mv)
            if mv == 'text' and dg != want:
                return 'program %d: the bytes of an observation (%s...) are not the bytes of the model text (%s...)' % (i, dg[3:15], want[3:15])
    return None

def _dedupe(vs, bound):
    out = []
    for v in vs:
        if v not in bound and v not in out:
            out.append(v)
    return out

def oracle(case, io_):
    if case['kind'] == 'decl' and isinstance(io_, dict) and 'declared' in io_:
        # the property's own condition for the declarations, computed from the clause syntax alone: the aliased
        # arguments, then the head's remaining variables, then the body's, each once, by first occurrence in the text
        aliased, head, body = clause_variables(case['clause'])
        h = _dedupe(head, aliased)
        want = h + _dedupe(body, aliased + h)
        if io_['declared'] != want:
            return 'declaration order %r, first-occurrence order of the clause text %r' % (io_['declared'], want)
        if io_['aliased'] != aliased:
            return 'aliased head arguments %r, expected %r' % (io_['aliased'], aliased)
        return None
    if case['kind'] == 'batch' and isinstance(io_, dict):
        if io_['problems']:
            return '; '.join(io_['problems'][:3])
        for i, ds in enumerate(io_['digests']):
            if len(ds) != 1:
                return 'program %d has %d different results: %s' % (i, len(ds), ', '.join(x[:30] for x in ds))
    return None

def nontrivial(case, io_):
    if not isinstance(io_, dict):
        return False
    if case['kind'] == 'batch':
        return any(io_['rich'])
    d = io_.get('declared', [])
    _, head, body = clause_variables(case['clause'])
    occ = head + body
    return len(d) >= 2 and any(occ.count(v) > 1 for v in d)

def describe(case):
    if case['kind'] == 'decl':
        return {'clause': render_clause(case['clause'])}
    return {'programs': case['programs'], 'hash_seeds': [p['hashseed'] for p in case['procs']]}

def shrink(case):
    if case['kind'] != 'batch':
        return
    n = len(case['programs'])
    if n > 1:
        # keep one program
        for keep in range(n):
            procs = [{'hashseed': p['hashseed'], 'plan': [[0, e[1], e[2]] for e in p['plan'] if e[0] == keep]} for p in case['procs']]
            yield dict(case, programs=[case['programs'][keep]], procs=procs)
    else:
        # drop the noise
        if any(e[1] for p in case['procs'] for e in p['plan']):
            yield dict(case, procs=[{'hashseed': p['hashseed'], 'plan': [[e[0], [], e[2]] for e in p['plan']]} for p in case['procs']])
        if len(case['procs']) > 2:
            h = len(case['procs']) // 2
            yield dict(case, procs=case['procs'][:h])
            yield dict(case, procs=case['procs'][h:])
        t = case['programs'][0]
        lines = [l for l in t.split('\n') if l]
        if len(lines) > 1:
            for i in range(len(lines)):
                yield dict(case, programs=['\n'.join(lines[:i] + lines[i + 1:]) + '\n'])

def distribution(cases, obs):
    d = {'kinds': {}, 'programs': 0, 'rich_programs': 0, 'failing_programs': 0, 'process_observations': 0,
         'hash_seeds': 0, 'option_modes': {}, 'noise_before_program': {}, 'declared_per_clause': {},
         'variable_occurrences_per_clause': {}, 'programs_over_8kB': 0}
    seeds = set()
    for c, o in zip(cases, obs):
        d['kinds'][c['kind']] = d['kinds'].get(c['kind'], 0) + 1
        if c['kind'] == 'batch' and isinstance(o, dict):
            d['programs'] += len(c['programs'])
            d['programs_over_8kB'] += sum(1 for t in c['programs'] if len(t) >= 8192)
            d['rich_programs'] += sum(1 for x in o['rich'] if x)
            d['failing_programs'] += sum(1 for ds in o['digests'] if ds and ds[0].startswith('EXC'))
            d['process_observations'] += len(c['programs']) * o['observations']
            for p in c['procs']:
                seeds.add(p['hashseed'])
                for e in p['plan']:
                    d['option_modes'][e[2]] = d['option_modes'].get(e[2], 0) + 1
                    k = str(len(e[1]))
                    d['noise_before_program'][k] = d['noise_before_program'].get(k, 0) + 1
        elif c['kind'] == 'decl' and isinstance(o, dict) and 'declared' in o:
            k = str(min(len(o['declared']), 8))
            d['declared_per_clause'][k] = d['declared_per_clause'].get(k, 0) + 1
            _, hv, bv = clause_variables(c['clause'])
            n = len(hv) + len(bv)
            k = '<50' if n < 50 else '50-100' if n <= 100 else '101-200' if n <= 200 else '>200'
            d['variable_occurrences_per_clause'][k] = d['variable_occurrences_per_clause'].get(k, 0) + 1
    d['hash_seeds'] = len(seeds)
    return d
