"""Subprocess side of the C18 check.  Reads one JSON job from stdin:
     {'programs': [text...], 'noise': [text...], 'plan': [[program index, [noise indices...], option mode], ...]}
   compiles, in the order of the plan, first the noise texts (unrelated compilations, many of which fail
   with an exception half way) and then the program, and prints for every plan entry the digest of the
   returned text (or the exception).  Started by harness/props/c18.py with a chosen PYTHONHASHSEED."""
import sys, json, hashlib

def make_options(mode, state):
    from yldprolog.compiler import CompilerContext
    if mode == 'default':
        return None
    if mode == 'fresh-object':
        class O:
            debug_filename = ''
            debug_parser = False
            debug_generator = False
            current_source_file = ''
            outf = None
        return O()
    if mode == 'reused-object':
        if 'obj' not in state:
            class R:
                pass
            o = R()
            o.debug_filename = False; o.debug_parser = False; o.debug_generator = False
            o.current_source_file = ''; o.outf = None
            state['obj'] = o
        return state['obj']
    if mode == 'reused-class':
        if 'cls' not in state:
            class C(CompilerContext):
                pass
            state['cls'] = C
        return state['cls']
    if mode == 'fresh-class':
        class F(CompilerContext):
            pass
        return F
    if mode == 'from-file':            # compile_prolog_from_file on a file holding the text (default options)
        return 'FILE'
    if mode == 'bare-object':          # like the tests' option object: no current_source_file attribute
        class B:
            debug_filename = False
            debug_parser = False
            debug_generator = False
        return B()
    raise ValueError(mode)

def _via_file(text):
    """the text written to a scratch file (UTF-8, no newline translation) and compiled with compile_prolog_from_file;
    texts that UTF-8 cannot carry (lone surrogates) go through compile_prolog_from_string"""
    import os, tempfile
    from yldprolog.compiler import compile_prolog_from_string, compile_prolog_from_file
    try:
        data = text.encode('utf8')
    except UnicodeEncodeError:
        return compile_prolog_from_string(text)
    base = os.environ.get('VERIF_SCRATCH') or None
    fd, path = tempfile.mkstemp(suffix='.pl', dir=base)
    try:
        with os.fdopen(fd, 'wb') as f:
            f.write(data)
        return compile_prolog_from_file(path)
    finally:
        os.remove(path)

def compile_one(text, opts):
    from yldprolog.compiler import compile_prolog_from_string
    try:
        if opts == 'FILE':
            out = _via_file(text)
        else:
            out = compile_prolog_from_string(text) if opts is None else compile_prolog_from_string(text, opts)
    except RecursionError:
        return 'EXC:RecursionError'
    except Exception as e:
        return 'EXC:%s:%s' % (type(e).__name__, str(e)[:200])
    return 'OK:' + hashlib.sha256(out.encode('utf8', 'surrogatepass')).hexdigest()

def run_job(job):
    state = {}
    res = []
    for pi, noise, mode in job['plan']:
        for ni in noise:
            compile_one(job['noise'][ni], make_options(mode, state))
        res.append([pi, compile_one(job['programs'][pi], make_options(mode, state))])
    return res

if __name__ == '__main__':
    job = json.load(sys.stdin)
    json.dump(run_job(job), sys.stdout)
