"""C19 - the yldpc command line equals the library; debug options only add comments."""
import io, os, re, shutil, subprocess, sys, tokenize, itertools
from lib import terms, coqrun
from lib.terms import g_str, g_list, g_pair, g_N
from props.cli_gen import Gen, HEADER, SPECIAL_ATOMS, nocode_program, split_text, open_ended_sources

ID = 'C19'
IMPORTS = ['Cli.Comment', 'Cli.Cli', 'Cli.RunCli']
from lib.pyrepr_check import cps as _cps, g_cps as _g_cps, printable_table as _printable_table
THEOREMS = ['C19_comment_every_line', 'C19_comment_lines_content', 'C19_comment_lines_clean', 'C19_strip_comment_lines',
            'C19_debug_only_comments', 'C19_cli_equals_library', 'C19_sources_as_on_disk',
            'C19_cli_first_failure', 'C19_exit_status', 'C19_missing_source',
            'C19_library_text_clean', 'C19_debug_only_comments_compiler', 'C19_cli_equals_compile_text',
            'C19_cli_equals_compile_text_debug', 'C19_cli_first_failure_compiler', 'C19_exit_status_compiler']
RULE = ('cli cases: the real command line (python -m yldprolog.compiler, one subprocess per run) on 1-3 sources '
        '(files and/or `-`) under all 16 combinations of -d/--debug-parser/--debug-generator/--debug-filename, to stdout '
        'and to -o, compared with the model command line (Cli/Cli.v) running over the model compiler (compile_text) evaluated in Coq '
        'on the same texts: which texts compile, exit status, kind of ending, error message, stdout and output file (exactly, or '
        'after removing comment lines for runs with parser/generator debugging); comment/strip cases: the text functions on generated '
        'messages. Sources include programs with predicates of 1-3 clauses none of which generates code (body starts with fail; '
        'placeholder bodies) next to predicates that never succeed but generate code, and SEQUENCES of sources that are one text cut '
        'into pieces (each source ends inside a comment / quoted atom / clause / bracket / operator that the next would complete). Non-trivial: a cli case in which '
        'some source contains a quoted atom with a line-break character of str.splitlines or non-ASCII text (so that debug '
        'messages carry it), or in which a source fails to compile; a comment case whose message contains at least two '
        'different kinds of line boundary. Distinct by hash of the case.')
TRUSTED_BASE = [
    'Coq 8.16.1 kernel (coqc); vm_compute for the in-Coq evaluation of the model on every case; no native_compute',
    'no axioms: all C19 theorems are closed under the global context',
    'hand-written model Cli/Comment.v (comment_lines, str.splitlines, tokenizer lines, strip) and Cli/Cli.v (main, '
    '_set_debug_options, _open_output_file, _open_input_file, generate header); tied to /repo by this differential run',
    'the debug messages are universally quantified in the theorems; the library compiler is universally quantified in the first '
    'group of theorems and is the model compiler Comp/CompileText.v compile_text (shared with C11/C12/C18) in the second; in the '
    'correspondence the model command line runs over compile_text evaluated in Coq on the texts of the case; from the '
    'implementation\'s library only: with which exception (CompilerError line/column/message, or another one) a refused text is refused',
    'str.isprintable of the non-ASCII code points of a case is read from the host Python (the `printable` parameter of the model)',
    'harness: generators, subprocess driver, parser of printed observations; the harness function that removes comment '
    'lines is itself compared with the model function `strip` on every strip case',
    'modelled, not verified: click option parsing and exit statuses (ClickException 1, usage error 2, uncaught exception 1), '
    'UTF-8 decoding/encoding of the real streams (run under LC_ALL=C.UTF-8), str.splitlines, the universal-newline line '
    'structure of Python source',
]
ASSUMPTIONS = ['the output file is not read back as a later source while output is still buffered (the only generated '
               'overlap is: the output file is also the FIRST source, which open(fn,"w") has emptied before it is read)',
               'debug messages contain object addresses, so runs with parser/generator debugging are compared after '
               'removing comment lines; runs with --debug-filename only are compared exactly',
               'the message of a `program too large` error quotes CPython\'s SyntaxError with the file name given to compile() and a '
               'line number of the generated text; both are dropped before messages are compared',
               'lone surrogates in a source are outside the domain (no UTF-8 file form)']
CASE_TIMEOUT = 300
COQ_CHUNK = 6

PY = sys.executable
FLAGS = ['-d', '--debug-parser', '--debug-generator', '--debug-filename']
BREAKS = ['\n', '\r', '\r\n', '\x0b', '\x0c', '\x1c', '\x1d', '\x1e', '\x85', '\u2028', '\u2029']

# ------------------------------------------------------------------ text helpers (harness side)

def py_plines(t):
    """physical lines as CPython's universal-newline machinery splits them (terminators kept)"""
    return io.StringIO(t, newline='').readlines()

def py_strip(t):
    return ''.join(l for l in py_plines(t) if not l.startswith('#'))

def only_comment_tokens(text):
    """True if Python's tokenizer sees nothing but comments and blank lines"""
    try:
        for tok in tokenize.generate_tokens(io.StringIO(text).readline):
            if tok.type not in (tokenize.COMMENT, tokenize.NL, tokenize.NEWLINE, tokenize.ENDMARKER):
                return False
        return True
    except (tokenize.TokenError, SyntaxError, IndentationError):
        return False

# ------------------------------------------------------------------ generators

def rand_msg(rng):
    parts = []
    for _ in range(rng.choice([0, 1, 1, 2, 3, 4, 6])):
        k = rng.random()
        if k < 0.45:
            parts.append(rng.choice(BREAKS))
        elif k < 0.6:
            parts.append(rng.choice(['import os', 'x = 1', '#', '# c', ' ', '', 'def f():', '  pass', 'é', '日本', '\t', '"""', "'''", '\\',
                                     '\x00', 'a\x00b', '\\0', '\x00\n\x00']))
        elif k < 0.7:
            parts.append(rng.choice(BREAKS) * rng.choice([2, 3]))
        else:
            parts.append(''.join(chr(rng.choice([rng.randrange(32, 127), rng.randrange(1, 32), rng.randrange(127, 0x250),
                                                 rng.choice([0x2027, 0x2028, 0x2029, 0x202a, 0x84, 0x85, 0x86, 0x1b, 0x1f, 0xfeff, 0x1f600])]))
                                 for _ in range(rng.choice([1, 2, 5]))))
    return ''.join(parts)

def rand_pytext(rng):
    """texts shaped like outputs: comment lines, code lines, indented comments, all three terminators"""
    lines = []
    for _ in range(rng.choice([0, 1, 2, 3, 5, 8])):
        body = rng.choice(['#', '# x', '#x', ' # indented', 'def f():', '  pass', '', 'x = "#"', '## y', '\t#', 'é#', '#é'])
        lines.append(body + rng.choice(['\n', '\n', '\n', '\r', '\r\n']))
    t = ''.join(lines)
    if rng.random() < 0.3:
        t += rng.choice(['#', 'x', '# no newline', '\r'])
    return t

FILE_NAMES = ['a.pl', 'b.pl', 'c c.pl', 'é.pl', 'x\ny.pl', 'dir#1.pl', 'lib.prolog', 'UPPER.PL', 'q\rimport os.pl', "it's.pl", '日本.pl']

MAX_OUT = 2500     # the command line does not care about program size; keeps the in-Coq evaluation fast

def _small(fn):
    """a generated source whose library text is short (or that does not compile)"""
    for _ in range(30):
        t = fn()
        r = _library(t)
        if r[0] != 'ok' or len(r[1]) <= MAX_OUT:
            return t
    return 'p(a).\n'

def gen_cli_case(rng, g):
    nsrc = rng.choice([1, 1, 2, 2, 3])
    names = rng.sample(FILE_NAMES, nsrc)
    files = []
    sources = []
    stdin = None
    kinds = []
    # where does a failing source go?  none / first / middle / last
    fail_at = rng.choice([None, None, None, 0, nsrc - 1, rng.randrange(nsrc)])
    for i in range(nsrc):
        if i == fail_at:
            k = rng.choice(['syntax', 'syntax', 'syntax', 'head', 'head', 'visitor', 'visitor', 'badutf8', 'badutf8', 'missing', 'missing',
                            'toolarge', 'bignum'])
        else:
            k = rng.choice(['good', 'good', 'anon', 'anon', 'anon', 'rich', 'never', 'empty', 'nocode', 'nocode', 'nocode'])
        kinds.append(k)
        if k == 'good':
            text = _small(g.program)
        elif k == 'rich':
            text = _small(lambda: g.program(nclauses=2, rich=0.7))
        elif k == 'anon':
            # interleaved clause groups with several `_` each and directives with `_`: the numbering of the anonymous
            # variables must be the same whatever is traced
            text = _small(g.anon_program)
        elif k == 'never':
            text = g.never_succeeds()
        elif k == 'nocode':
            # predicates of 1-3 clauses none of which generates code (placeholder bodies), in every flag combination
            text = _small(lambda: nocode_program(g))
        elif k == 'empty':
            text = rng.choice(['', '\n', '% only a comment\n'])
        elif k == 'syntax':
            text = _small(g.bad_syntax)
        elif k == 'head':
            text = _small(g.bad_head)
        elif k == 'visitor':
            text = _small(g.bad_visitor)
        elif k == 'toolarge':
            # more nested blocks than CPython compiles: CompilerError at 0:0 raised after the code was generated
            text = 'ok(a).\np(X) :- %s.\n' % ', '.join(['q(X)'] * rng.choice([21, 25, 30]))
        elif k == 'bignum':
            # str(int(numeral)) raises ValueError (not a CompilerError) beyond 4300 digits
            text = 'ok(a).\np(%s).\n' % ('7' * rng.choice([4301, 4400]))
        else:
            text = None
        use_stdin = stdin is None and k not in ('missing',) and rng.random() < 0.3
        if use_stdin:
            stdin = ['bad'] if k == 'badutf8' else ['text', text]
            sources.append('-')
        else:
            if k == 'missing':
                sources.append(names[i])
            elif k == 'badutf8':
                files.append([names[i], None])
                sources.append(names[i])
            else:
                files.append([names[i], text])
                sources.append(names[i])
    if nsrc >= 2 and rng.random() < 0.3:
        # a SEQUENCE of sources that is one text cut into pieces: each source ends inside a construct (comment, quoted atom,
        # clause, bracket, operator, name) that the beginning of the next one would complete.  Every source is a text of its own.
        ok = [i for i in range(nsrc) if kinds[i] not in ('missing', 'badutf8')]
        pairs = [(a, b) for a, b in zip(ok, ok[1:]) if b == a + 1]
        if pairs:
            a, b = rng.choice(pairs)
            if rng.random() < 0.5:
                base = _small(lambda: g.program(nclauses=rng.choice([2, 3, 4])))
                pieces, _ = split_text(rng, base, 2) if len(base) > 1 else (['p(a', ').\n'], None)
                if len(pieces) != 2:
                    pieces = ['p(a', ').\n']
            else:
                pieces = list(open_ended_sources(rng, _small(lambda: g.program(nclauses=rng.choice([0, 1, 2]))),
                                                 _small(lambda: g.program(nclauses=rng.choice([0, 1, 2])))))
            for i, t in zip((a, b), pieces):
                kinds[i] = 'piece'
                if sources[i] == '-':
                    stdin = ['text', t]
                else:
                    for f in files:
                        if f[0] == sources[i]:
                            f[1] = t
    if stdin is not None and rng.random() < 0.15:
        sources.append('-')        # a second `-` reads an empty stdin
    if rng.random() < 0.12 and len(files) >= 1 and rng.random() < 0.5:
        sources.append(files[0][0])     # the same file twice
    outfile = rng.choice(['out.py', 'out.py', 'out.py', 'o ut.py', 'é_out.py', 'é_out.py', '-'])      # `-o -` is stdout
    if rng.random() < 0.06 and sources[0] != '-' and kinds[0] != 'missing':
        outfile = sources[0]            # the output file is the first source: truncated before it is read
        if sources.count(outfile) > 1:
            outfile = 'out.py'
    if rng.random() < 0.1:
        files.append([outfile, 'old(contents).\n']) if outfile not in [f[0] for f in files] else None
    return {'kind': 'cli', 'files': files, 'sources': sources, 'stdin': stdin or ['text', ''],
            'outfile': outfile, 'modesalt': rng.randrange(2), 'combos': 'all'}

def gen(rng, tier):
    ncli, ntext = (28, 400) if tier == 'quick' else (240, 4000)
    g = Gen(rng, special=0.3)
    cli = [gen_cli_case(rng, g) for _ in range(ncli)]
    # SIZE CLASS of texts: sources of 8-17 kB made of hundreds of small clauses (generator shared with C10), alone or after a small source
    from props import c10 as _c10
    for i in range(1 if tier == 'quick' else 6):
        big = _c10.g_large(rng, ['facts', 'clauses', 'facts+'][i % 3], rng.choice([8200, 8700] if tier == 'quick' else [8200, 10000, 16400]))[0]
        files, sources = [['table.pl', big]], ['table.pl']
        if i % 2:
            files.insert(0, ['a.pl', _small(g.program)]); sources.insert(0, 'a.pl')
        cli.insert((i * 7 + 3) % len(cli), {'kind': 'cli', 'files': files, 'sources': sources, 'stdin': ['text', ''],
                                             'outfile': 'out.py', 'modesalt': i % 2, 'combos': 'all'})
    if tier == 'quick':
        # all 16 flag combinations over every two consecutive cases (8 + the plain run per case)
        for i, c in enumerate(cli):
            c['combos'] = ['even', 'odd'][i % 2]
    text = []
    for i in range(ntext):
        if i % 3 == 2:
            text.append({'kind': 'strip', 'text': rand_pytext(rng)})
        else:
            text.append({'kind': 'comment', 'msg': rand_msg(rng)})
    # the expensive cli cases are spread evenly so that every worker / every coqc file gets its share
    cases = []
    step = max(1, len(text) // max(1, len(cli)))
    ti = 0
    for c in cli:
        cases.append(c)
        cases.extend(text[ti:ti + step])
        ti += step
    cases.extend(text[ti:])
    return cases

def builtin_corpus():
    L = []
    for m in ['', 'x', '\n', '\r\n', 'a\nb', 'a\n', '\na', 'a\r\nb\rc\x0cd\x0be\x1cf\x1dg\x1eh\x85i\u2028j\u2029k',
              'x\nimport os\nos.system("id")', '\r\r\n\n', 'é\u2028import sys', '# already', 'a\x00b', '\x0c', ' \n ']:
        L.append({'kind': 'comment', 'msg': m})
    for t in ['', '#\n', '# a\nx\n', 'x\r#y\r\n#z', '\n\n', ' #a\n#b', '#\r\nx', 'a\r', '#a\r', HEADER + '\ndef f():\n  pass\n']:
        L.append({'kind': 'strip', 'text': t})
    def cli(files, sources, stdin='', outfile='out.py', combos=None):
        L.append({'kind': 'cli', 'files': files, 'sources': sources, 'stdin': ['text', stdin] if stdin is not None else ['bad'],
                  'outfile': outfile, 'modesalt': len(L) % 2, 'combos': combos or ('all' if len(L) < 27 else ['even', 'odd'][len(L) % 2])})
    good = 'foo(a).\nbar(X) :- foo(X).\n'
    nl = "foo('a\nimport os').\nbar(X) :- 'x\rimport sys'(X), foo('u\u2028v', 'f\x0cg').\n"
    cli([['a.pl', good]], ['a.pl'])
    # (the D19 inputs - debug text with line breaks, UTF-8 on stdin, a syntax error, a line break in the file
    #  name, U+0000 in a debug message - are in corpus/C19/d19.json)
    cli([['a.pl', good], ['b.pl', 'a(X) :- b(X),, c(X).\n'], ['c c.pl', good]], ['a.pl', 'b.pl', 'c c.pl'])
    cli([['a.pl', 'true.\n'], ['b.pl', good]], ['a.pl', 'b.pl'])      # not a CompilerError
    cli([['a.pl', 'p :- q(foo/2).\n']], ['a.pl'])
    cli([['a.pl', 'X :- a.\n']], ['a.pl'])
    cli([['a.pl', "'hello world'(a).\n"]], ['a.pl'])
    cli([['a.pl', 'p :- fail.\nq :- p, fail.\n']], ['a.pl'])
    cli([['a.pl', good]], ['a.pl', 'nope.pl'])                        # a source that does not exist
    cli([['a.pl', None]], ['a.pl'])                                   # not UTF-8
    cli([], ['-', '-'], stdin=good)
    cli([], [])
    cli([['x\ny.pl', 'foo(.\n']], ['x\ny.pl'])
    cli([['a.pl', good], ['b.pl', nl]], ['a.pl', 'b.pl'], outfile='a.pl')   # output file = first source
    cli([['a.pl', ''], ['b.pl', '% c\n']], ['a.pl', 'b.pl', 'a.pl'])
    anon = 'p(_, a).\nq(_).\np(_, b).\n'
    anond = 'p(_, a) :- r(_, _).\n:- d(_, X, _).\nq(_).\np(_, b) :- r(_).\n:- e(_).\nq(_, _).\n'
    cli([['a.pl', anon], ['b.pl', anond]], ['a.pl', 'b.pl'], combos='all')
    cli([['a.pl', anond]], ['a.pl', '-'], stdin=anon, combos='odd')
    cli([['a.pl', good], ['big.pl', 'p :- ' + ', '.join(['q'] * 25) + '.\n']], ['a.pl', 'big.pl'])    # too large: CompilerError at 0:0
    cli([['a.pl', good], ['num.pl', 'p(' + '1' * 4400 + ').\n']], ['a.pl', 'num.pl', 'a.pl'])      # ValueError: traceback
    cli([['a.pl', good]], ['a.pl', '-'], stdin=nl, outfile='-')                                       # -o - is stdout
    # predicates none of whose clauses generates code (one, two, three clauses; with arguments), next to one that does
    cli([['a.pl', 'k(a).\nnone :- fail.\nnone :- true, fail, k(X).\nnone :- fail, !.\ntwo(X, Y) :- fail, k(X).\ntwo(X, Y) :- fail.\none :- fail.\n']], ['a.pl'])
    cli([['a.pl', 'none :- fail.\nk(a) :- fail.\nnone :- ( fail, k ).\nk(b) :- \\+ true.\n']], ['-', 'a.pl'], stdin='z :- fail.\nz :- fail.\n')
    # one text cut into two sources: inside a quoted atom, and before the full stop
    cli([['a.pl', "k(1).\np('ab"], ['b.pl', "cd').\n"]], ['a.pl', 'b.pl'])
    cli([['a.pl', 'k(1) :- k(2)']], ['a.pl', '-'], stdin=', k(3).\nk(4).\n')
    return L

# ------------------------------------------------------------------ implementation side

def _library(text):
    from yldprolog.compiler import compile_prolog_from_string
    from yldprolog.errors import CompilerError
    try:
        out = compile_prolog_from_string(text)
    except CompilerError as e:
        return ['err', e.line, e.column, e.message, type(e).__name__]
    except RecursionError:
        return ['crash', 'RecursionError']
    except Exception as e:
        return ['crash', type(e).__name__]
    return ['ok', out]

def _texts_of(case):
    """every text that the command line may hand to the compiler in this case"""
    ts = ['']
    for _, t in case['files']:
        if t is not None and t not in ts:
            ts.append(t)
    if case['stdin'][0] == 'text' and case['stdin'][1] not in ts:
        ts.append(case['stdin'][1])
    return ts

def _scratch():
    d = os.path.join(coqrun.VERIF, '.work', 'c19-%d' % os.getpid())
    os.makedirs(d, exist_ok=True)
    return d

def _run_cli(case, flags, mode, rundir):
    shutil.rmtree(rundir, ignore_errors=True)
    os.makedirs(rundir)
    for name, text in case['files']:
        with open(os.path.join(rundir.encode(), name.encode('utf8')), 'wb') as f:
            f.write(text.encode('utf8') if text is not None else b'foo(\xff\xfe).\n')
    stdin = case['stdin'][1].encode('utf8') if case['stdin'][0] == 'text' else b"p('\xc3\x28').\n"
    env = {'PATH': os.environ.get('PATH', '/usr/bin:/bin'), 'PYTHONPATH': os.path.join(os.environ.get('VERIF_REPO', '/repo'), 'src'),
           'LC_ALL': 'C.UTF-8', 'LANG': 'C.UTF-8', 'PYTHONHASHSEED': '0', 'PYTHONDONTWRITEBYTECODE': '1', 'HOME': rundir}
    args = [PY, '-m', 'yldprolog.compiler'] + [f for f, on in zip(FLAGS, flags) if on]
    if mode == 'file':
        args += ['-o', case['outfile']]
    args += case['sources']
    r = subprocess.run(args, input=stdin, capture_output=True, cwd=rundir, env=env, timeout=120)
    out = r.stdout.decode('utf8', 'surrogateescape')
    err = r.stderr.decode('utf8', 'surrogateescape')
    fcontent = None
    if mode == 'file':
        p = os.path.join(rundir.encode(), case['outfile'].encode('utf8'))
        if os.path.exists(p):
            fcontent = open(p, 'rb').read().decode('utf8', 'surrogateescape')
    if 'Traceback (most recent call last)' in err:
        ek = ['crash']
    elif err.startswith('Usage:'):
        ek = ['usage']
    elif err.startswith('Error: '):
        ek = ['error', err[len('Error: '):-1] if err.endswith('\n') else err[len('Error: '):]]
    elif err == '':
        ek = ['ok']
    else:
        ek = ['other', err[-300:]]
    before = dict((n, t) for n, t in case['files']).get(case['outfile']) if mode == 'file' else None
    return {'flags': [int(x) for x in flags], 'mode': mode, 'status': r.returncode, 'stdout': out, 'file': fcontent,
            'before': before, 'end': ek}

def impl(case):
    if case['kind'] == 'comment':
        from yldprolog.yp_prolog_visitor import comment_lines
        m = case['msg']
        c = comment_lines(m)
        return {'comment': c, 'splitlines': m.splitlines(), 'plines': py_plines(c),
                'tok_ok': only_comment_tokens(c), 'compiles': _parses(c), 'dump': _dump(c)}
    if case['kind'] == 'strip':
        t = case['text']
        return {'strip': py_strip(t), 'plines': py_plines(t)}
    base = os.path.join(_scratch(), 'case')
    runs = []
    which = case.get('combos', 'all')
    for i, flags in enumerate(itertools.product([False, True], repeat=4)):
        # gray-code-like split: each half contains every single flag on and off, alone and combined
        half = bin(i).count('1') % 2
        if i != 0 and which != 'all' and half != (0 if which == 'even' else 1):
            continue
        modes = ['stdout', 'file'] if i == 0 else [['stdout', 'file'][(i + case['modesalt']) % 2]]
        for mode in modes:
            runs.append(_run_cli(case, flags, mode, base))
    shutil.rmtree(base, ignore_errors=True)
    lib = [[t, _library(t)] for t in _texts_of(case)]
    return {'runs': runs, 'lib': lib}

# ------------------------------------------------------------------ model side

def _g_cres(r):
    if r[0] == 'ok':
        assert r[1].startswith(HEADER + '\n')
        return '(COk %s)' % g_str(r[1][len(HEADER) + 1:])
    if r[0] == 'err':
        return '(CErr %s %s %s)' % (g_N(r[1]), g_N(r[2]), g_str(r[3]))
    return 'CCrash'

def _g_rd(t):
    return 'RBad' if t is None else '(RText %s)' % g_str(t)

def model_expr(case):
    """cli cases: the model command line (Cli/Cli.v) over the MODEL compiler (Comp/CompileText.v compile_text, evaluated in
    Coq on the source texts of the case).  From the implementation's library only: how a refused text is refused."""
    if case['kind'] == 'comment':
        return '(run_comment %s)' % g_str(case['msg'])
    if case['kind'] == 'strip':
        return '(run_strip %s)' % g_str(case['text'])
    fails = []
    texts = _texts_of(case)
    allcps = set()
    for t in texts:
        r = _library(t)
        allcps.update(_cps(t))
        if r[0] == 'ok':
            continue
        if r[0] == 'err' and not (isinstance(r[1], int) and isinstance(r[2], int) and r[1] >= 0 and r[2] >= 0):
            return None
        fails.append(g_pair(_g_cps(_cps(t)), _g_cres(r)))
    ptbl = _printable_table(sorted(allcps))
    files = g_list([g_pair(g_str(n), _g_rd(t)) for n, t in case['files']])
    stdin = _g_rd(case['stdin'][1] if case['stdin'][0] == 'text' else None)
    srcs = g_list([g_str(s) for s in case['sources']])
    return '(run_cli_text [%s] %s %s %s %s %s %s)' % ('; '.join('%d%%N' % x for x in ptbl), g_list(fails),
        g_list([_g_cps(_cps(t)) for t in texts]), g_str(case['outfile']), srcs, files, stdin)

# ------------------------------------------------------------------ judging

def _model_result(mo, mode, dfn):
    mo = mo[1]
    assert mo[0] == 'cli'
    end, status, stdout, f = mo[1 + (0 if mode == 'stdout' else 2) + (1 if dfn else 0)]
    if f and f[1] == ['same']:
        f = [f[0], mo[1 + (1 if dfn else 0)][2]]      # the text of the stdout run
    return {'end': end, 'status': status, 'stdout': stdout, 'file': (f[1] if f else None), 'fname': (f[0] if f else None)}

_TOO_LARGE = re.compile(r'(program too large for Python: .*) \((.*), line \d+\)$', re.S)

def _norm_msg(msg, case):
    """the 'program too large' message quotes CPython's SyntaxError, which names the file given to compile() ('<generated>'
    for the library, the source name for the command line) and a line number of the generated text (which shifts when the
    `# from <file>` lines of --debug-filename are present): both are dropped before comparing"""
    m = _TOO_LARGE.search(msg)
    return msg[:m.start()] + m.group(1) if m else msg

def compare(case, io_, mo):
    if case['kind'] == 'comment':
        if mo[0] != 'comment':
            return 'model output malformed'
        if io_['comment'] != mo[1]:
            return 'comment_lines differs from the model: %r vs %r' % (io_['comment'][:80], mo[1][:80])
        if io_['splitlines'] != mo[2]:
            return 'str.splitlines differs from the model'
        return None
    if case['kind'] == 'strip':
        if io_['strip'] != mo[1]:
            return 'harness strip differs from the model strip'
        if io_['plines'] != mo[2]:
            return 'universal-newline lines differ from the model plines'
        return None
    # the model compiler and the implementation's library must agree on which texts compile
    for (t, r), mv in zip(io_['lib'], mo[0]):
        iv = 'ok' if r[0] == 'ok' else ('err' if r[0] == 'err' else 'crash')
        if iv != mv[0]:
            return 'library: %s (%s), model compiler: %s, for the text %r' % (iv, r[-1] if iv != 'ok' else 'text', mv[0], t[:200])
    for run in io_['runs']:
        d, p, g, f = run['flags']
        dfn = bool(d or f)
        pg = bool(d or p or g)
        m = _model_result(mo, run['mode'], dfn)
        tag = 'flags=%s mode=%s: ' % (''.join(map(str, run['flags'])), run['mode'])
        if run['status'] != m['status']:
            return tag + 'exit status %r, model %r' % (run['status'], m['status'])
        if run['end'][0] != m['end'][0]:
            return tag + 'ends with %r, model %r' % (run['end'][0], m['end'][0])
        if run['end'][0] == 'error' and _norm_msg(run['end'][1], case) != _norm_msg(m['end'][1], case):
            return tag + 'error message %r, model %r' % (run['end'][1], m['end'][1])
        if m['file'] is None:
            if run['file'] is not None and run['file'] != run['before']:
                return tag + 'output file written, model: no file is written'
        elif run['file'] is None:
            return tag + 'no output file, model: written'
        if pg:
            if py_strip(run['stdout']) != py_strip(m['stdout']):
                return tag + 'stdout without comment lines differs from the model'
            if m['file'] is not None and py_strip(run['file']) != py_strip(m['file']):
                return tag + 'output file without comment lines differs from the model'
        else:
            if run['stdout'] != m['stdout']:
                return tag + 'stdout differs from the model'
            if m['file'] is not None and run['file'] != m['file']:
                return tag + 'output file differs from the model'
    return None

def _parses(text):
    try:
        compile(text, '<out>', 'exec')
        return True
    except Exception:
        return False

def _dump(text):
    """ast.dump of the text as a Python module; None if it does not parse"""
    import ast
    try:
        return ast.dump(ast.parse(text))
    except RecursionError:
        return 'too deep to dump'
    except Exception:
        return None

def oracle(case, io_):
    if case['kind'] == 'comment':
        c = io_['comment']
        if not c.endswith('\n'):
            return 'comment_lines result does not end with a newline'
        if not io_['plines'] or not all(l.startswith('#') for l in io_['plines']):
            return 'a line of the commented message does not start with #'
        if not io_['tok_ok']:
            return "Python's tokenizer sees something else than comments in the commented message"
        if '\x00' in c or any(ch in l[:-1] for l in io_['plines'] for ch in '\r\n'):
            return 'the commented message contains a NUL, or a CR / LF inside a line'
        if not io_['compiles'] or io_['dump'] != _dump(''):
            return 'the commented message is not an empty Python module (compile / ast.dump)'
        return None
    if case['kind'] == 'strip':
        return None
    if not isinstance(io_, dict):
        return None
    lib = {t: r for t, r in io_['lib']}
    # hypothesis of C19_debug_only_comments, checked on the library
    for t, r in lib.items():
        if r[0] == 'ok':
            if not r[1].startswith(HEADER + '\n'):
                return 'library text does not start with the header'
            body = r[1][len(HEADER) + 1:]
            if any(l.startswith('#') for l in py_plines(body)):
                return 'generated code contains a line starting with #'
            if body and not body.endswith('\n'):
                return 'generated code does not end with a newline'
            if not _parses(r[1]):
                return 'library text does not parse'
    overlap = case['outfile'] in case['sources']
    runs = io_['runs']
    # expected from the library alone
    fsmap = dict((n, t) for n, t in case['files'])
    missing = any(s != '-' and s not in fsmap for s in case['sources'])
    for run in runs:
        tag = 'flags=%s mode=%s: ' % (''.join(map(str, run['flags'])), run['mode'])
        to_file = run['mode'] == 'file' and case['outfile'] != '-'
        out = run['file'] if to_file else run['stdout']
        if to_file and run['stdout'] != '':
            return tag + 'wrote to stdout although -o was given'
        if missing:
            if run['status'] == 0:
                return tag + 'exit status 0 although a source does not exist'
            if run['stdout'] != '' or run['file'] != run['before']:
                return tag + 'something was written although a source does not exist'
            continue
        if out is None:
            return tag + 'no output file'
        # the texts as the run reads them
        stdin_left = case['stdin']
        expect = []
        failed = None
        for s in case['sources']:
            if s == '-':
                t = stdin_left[1] if stdin_left[0] == 'text' else None
                stdin_left = ['text', '']
            else:
                t = fsmap[s]
                if to_file and s == case['outfile']:
                    t = ''
            if t is None:
                failed = ['crash']
                break
            r = lib[t]
            if r[0] != 'ok':
                failed = r
                break
            expect.append(r[1])
        want = ''.join(expect)
        if py_strip(out) != py_strip(want):
            return tag + 'output without comment lines is not the concatenation of the library texts'
        if not any(run['flags']) and out != want:
            return tag + 'output differs from the concatenation of the library texts'
        if (run['status'] != 0) != (failed is not None):
            return tag + 'exit status %d but %s' % (run['status'], 'a source fails' if failed else 'every source compiles')
        if failed and failed[0] == 'err':
            if run['end'][0] != 'error':
                return tag + 'a CompilerError is not reported as Error: ...'
            pos = ':%d:%d:' % (failed[1], failed[2])
            if pos not in run['end'][1]:
                return tag + 'error message lacks the position %s' % pos
            src_fail = case['sources'][len(expect)]
            if not run['end'][1].startswith(src_fail + pos):
                return tag + 'error message does not start with file:line:column'
        if not _parses(out):
            return tag + 'output does not compile as Python (compile(text, .., "exec"))'
        if '\x00' in out:
            return tag + 'output contains a NUL character'
        if any(run['flags']) and _dump(out) != _dump(want):
            return tag + 'ast.dump of the output differs from ast.dump of the output without debug options'
        # every physical line that is not in the library text is a comment
        extra = [l for l in py_plines(out) if l.startswith('#')]
        if not all(l.startswith('#') for l in extra):
            return tag + 'internal'
    return None

def _has_special(text):
    if text is None:
        return False
    for m in re.finditer(r"'((?:[^'\\]|\\.)*)'", text, re.S):
        s = m.group(1)
        if any(b in s for b in BREAKS) or any(ord(ch) > 127 for ch in s):
            return True
    return False

def nontrivial(case, io_):
    if case['kind'] == 'comment':
        kinds = set()
        m = case['msg'].replace('\r\n', '\x01')
        for b in BREAKS:
            if b != '\r\n' and b in m:
                kinds.add(b)
        if '\x01' in m:
            kinds.add('\r\n')
        return len(kinds) >= 2
    if case['kind'] == 'strip':
        return False
    if not isinstance(io_, dict):
        return False
    texts = [t for _, t in case['files']] + [case['stdin'][1] if case['stdin'][0] == 'text' else None]
    fails = any(r['status'] != 0 for r in io_['runs'])
    return fails or any(_has_special(t) for t in texts)

def describe(case):
    if case['kind'] == 'cli':
        return {'command': 'python -m yldprolog.compiler [16 flag combinations] [-o %r] %s' % (case['outfile'], ' '.join(map(repr, case['sources']))),
                'files': {n: t for n, t in case['files']}, 'stdin': case['stdin']}
    return {k: v for k, v in case.items() if k not in ('id', 'origin')}

def shrink(case):
    if case['kind'] == 'comment':
        m = case['msg']
        for i in range(len(m)):
            yield dict(case, msg=m[:i] + m[i + 1:])
        return
    if case['kind'] == 'strip':
        t = case['text']
        for i in range(len(t)):
            yield dict(case, text=t[:i] + t[i + 1:])
        return
    # cli runs are expensive (subprocesses): few, coarse candidates
    srcs = case['sources']
    for i in range(len(srcs)):
        if len(srcs) > 1:
            yield dict(case, sources=srcs[:i] + srcs[i + 1:])
    used = set(srcs) | {case['outfile']}
    if any(n not in used for n, _ in case['files']):
        yield dict(case, files=[f for f in case['files'] if f[0] in used])
    def halves(t):
        lines = t.split('\n')
        if len(lines) > 1:
            h = len(lines) // 2
            yield '\n'.join(lines[:h])
            yield '\n'.join(lines[h:])
    for k, (n, t) in enumerate(case['files']):
        if t:
            for nt in halves(t):
                yield dict(case, files=case['files'][:k] + [[n, nt]] + case['files'][k + 1:])
    if case['stdin'][0] == 'text' and case['stdin'][1]:
        for nt in halves(case['stdin'][1]):
            yield dict(case, stdin=['text', nt])

def distribution(cases, obs):
    d = {'kinds': {}, 'cli_runs': 0, 'cli_status': {}, 'cli_end': {}, 'sources_per_case': {}, 'stdin_used': 0,
         'special_atoms': 0, 'lib': {}, 'msg_lines': {}}
    for c, o in zip(cases, obs):
        d['kinds'][c['kind']] = d['kinds'].get(c['kind'], 0) + 1
        if c['kind'] == 'cli' and isinstance(o, dict):
            d['cli_runs'] += len(o['runs'])
            for r in o['runs']:
                d['cli_status'][str(r['status'])] = d['cli_status'].get(str(r['status']), 0) + 1
                d['cli_end'][r['end'][0]] = d['cli_end'].get(r['end'][0], 0) + 1
            k = str(len(c['sources']))
            d['sources_per_case'][k] = d['sources_per_case'].get(k, 0) + 1
            d['stdin_used'] += int('-' in c['sources'])
            d['special_atoms'] += int(any(_has_special(t) for _, t in c['files']))
            for _, r in o['lib']:
                key = r[0] if r[0] == 'ok' else '%s:%s' % (r[0], r[-1])
                d['lib'][key] = d['lib'].get(key, 0) + 1
        elif c['kind'] == 'comment' and isinstance(o, dict):
            k = str(min(len(o['splitlines']), 8))
            d['msg_lines'][k] = d['msg_lines'].get(k, 0) + 1
    return d
