"""C20 - Python predicates are interchangeable with compiled ones.

A case is a program, a subset of its fact predicates that is re-implemented by registered Python generator functions
(registration style inferred / explicit arity / variadic; yields False / True / mixed; written with unify_arrays or with
nested unify loops; optionally raising instead of its j-th answer), dynamic facts asserted before the queries (for
predicates of their own and next to compiled / Python predicates), and queries.

Implementation: engine A = the program without the replaced predicates + the registered functions, engine B = the whole
program compiled; both get the dynamic facts; every query is enumerated on both.  Model (in Coq): Sem/Native.v nquery for
both worlds.  All four answer sequences must be equal; a raised exception must reach the consumer as the same object after
exactly the answers the model delivers before its error."""
import sys, time
from lib import progs, ast_io, terms, semcheck, consumers
from lib.terms import g_str, g_list, g_nat, g_term, g_bool
from lib.progs import V, A, F

ID = 'C20'
THEOREMS = ['C20_sem_extensional_body', 'C20_sem_extensional_code', 'C20_sem_extensional_program', 'C20_yield_value_irrelevant_leaf',
            'C20_yield_value_irrelevant', 'C20_native_equals_compiled_facts', 'C20_facts_compile', 'C20_subset_interchangeable', 'C20_program_with_python_predicates', 'C20_program_with_python_predicates_all_styles', 'C20_python_predicates_compute_clause_semantics', 'C20_dynamic_facts_first', 'C20_python_predicate_equals_dynamic_facts',
            'C20_args_in_call_order', 'C20_args_in_call_order_variadic', 'C20_exception_at_the_predicate', 'C20_exception_passthrough',
            'C20_exception_passthrough_variadic', 'C20_engine_with_exceptions_refines', 'C20_exception_provenance',
            'C20_exception_unchanged', 'C20_plain_is_machine', 'C20_rows_related', 'C20_native_equals_compiled_facts_rel',
            'C20_native_equals_compiled_facts_renaming', 'C20_ground_rows_special_case', 'C20_native_equals_compiled_facts_same_answer_refuted',
            'C20_subset_interchangeable_rel', 'C20_subset_interchangeable_renaming',
            'C20_chain_engine_refines', 'C20_chain_is_concatenation', 'C20_chain_of_two', 'C20_chain_members_interchangeable',
            'C20_chain_member_python_vs_compiled', 'C20_mixed_sources_interchangeable', 'C20_mixed_sources_interchangeable_source', 'C20_python_then_script_is_one_definition',
            'C20_chained_python_predicate_is_first_clauses', 'C20_chain_engine_monotone', 'C20_exception_passthrough_chain_member',
            'C20_exception_at_the_chain', 'C20_chain_engine_with_exceptions_refines', 'C20_chain_engine_with_exceptions_built',
            'C20_chain_exception_provenance', 'C20_chain_exception_unchanged', 'C20_consumers_yield_value_irrelevant']
IMPORTS = ['Lang.Ast', 'Sem.Machine', 'Sem.RunSem', 'Sem.Native', 'Sem.RunNative', 'Sem.NativeChain', 'Sem.NativeChainExc', 'Sem.RunNativeChain']
CASE_TIMEOUT = 30
COQ_CHUNK = 12
DEPTH = 30
LIMIT = 120
CAP = 1200
CONSUMER_TIME = 0.5     # seconds: a query whose plain enumeration takes longer is not run again behind the other consumer APIs
RULE = ('random programs with conjunction, disjunction, if-then-else, \\+, cut, call/N, once/1, findall/3, = and \\= whose fact predicates '
        '(arity 0-3; rows with atoms, numbers, compound terms, lists, repeated and anonymous variables; 0-4 rows) are replaced, for '
        'several subsets per program including all, by Python generator functions registered with register_function in the '
        'three styles (arity inferred from the signature, explicit arity, variadic), yielding False / True / mixed, written with '
        'unify_arrays or nested unify loops; dynamic facts asserted next to compiled and Python predicates and for predicates of '
        'their own; a first round of queries before all predicates are registered, or with first versions that are re-registered afterwards; queries on the rules and directly on the replaced predicates with unbound / partially bound / aliased arguments. '
        'Compared: canonical answers, their number and how the enumeration ended between engine with Python predicates, engine with '
        'everything compiled, and the Coq model of both; values yielded at the top level; for a function that raises instead of its '
        'j-th answer: answers delivered before, exception class and object identity, no binding left.  Non-trivial: a replaced '
        'predicate with >= 2 rows is called under cut, \\+, if-then-else or a meta-call and some query has an answer.  '
        'Family "one predicate from mixed sources": the key m/0..3 is defined by a sequence of register_function (three styles, rows ground or '
        'with variables, yielding False / True / None / 0 / 1 / alternating, 0-2 of them raising), load_script_from_string of clauses of m '
        '(facts, sometimes cutting) with overwrite False / True, and assert_fact, in every order (fixed corpus: all orders of length 2 and 3; '
        'random: 3-7 operations), next to a script of rules that call m under conjunction, cut, if-then-else, \\+, once/1, findall/3, call/N; '
        'queries also after a prefix of the sequence.  Compared: the engine, its all-compiled twin built by the same sequence (each '
        'fixed-arity register_function with >= 1 row replaced by load_script(its facts, overwrite=True)) and the Coq engine with chains of '
        'definitions per key (Sem/NativeChainExc.v cqueryE) for both; non-trivial there: >= 3 operations and some query has an answer.  '
        'Round 4: the registered callables are of every kind (def, lambda, bound / class / static method, functools.partial, callable object, '
        'functools.wraps-decorated *args and (*args, **kw) wrappers, parameters with defaults; with explicit arity also keyword-only parameters, '
        'partial with a keyword, *args versions; variadic: the *args versions) and the key the engine stores is compared with the documented one; '
        'Python predicates also re-enter the engine while they are solved (form requery: their rows are facts of a hidden dynamic predicate of the '
        'same engine queried inside the loop; bounded: snapshot through yp.evaluate_bounded; asserting: assert_fact inside the loop); cut-free '
        'conjunctive rules are written in Python too (re-entrant twins; the model keeps them compiled); every query that plain iteration '
        'finishes (no raising predicate) is run again on both engines through evaluate_bounded (limit at / above the one in force: same answers '
        'and flags; default limit: a prefix), list() and next()+close(), after which no variable is bound and the recursion limit is unchanged.')
TRUSTED_BASE = ['inspect.signature arity inference is exercised (callables of every kind; the stored key is checked against the documented one), not modelled: the model takes the resulting key',
                'the interpreter recursion limit and re-entrant Python predicates are not in the model: tied by the twin oracle (engine with Python predicates = all-compiled engine = model)']
ASSUMPTIONS = ['the Python predicate unifies its arguments with each row and yields once per solution (well-behaved)']

class Boom(Exception):
    pass

# classes of the exception objects that the Python predicates raise: the engine's own exception types (engine code may catch
# those for its own purposes), the compiler's, and the ones that common `except` clauses name
EXC_CLASSES = ['Boom', 'YPException', 'YPSub', 'CompilerError', 'KeyError', 'AttributeError', 'TypeError', 'ValueError', 'LookupError',
               'StopIteration', 'RuntimeError', 'GeneratorExit', 'AssertionError', 'OSError']
_YPSUB = []

def make_exc(name, i):
    from yldprolog import engine as E, errors
    msg = 'raised by Python predicate %d' % i
    if name == 'Boom': return Boom(msg)
    if name == 'YPException': return E.YPException(msg)
    if name == 'YPSub':
        if not _YPSUB:
            _YPSUB.append(type('YPSub', (E.YPException,), {}))
        return _YPSUB[0](msg)
    if name == 'CompilerError': return errors.CompilerError.at('predicate.py', 1, 0, msg)
    return {'KeyError': KeyError, 'AttributeError': AttributeError, 'TypeError': TypeError, 'ValueError': ValueError, 'LookupError': LookupError,
            'StopIteration': StopIteration, 'RuntimeError': RuntimeError, 'GeneratorExit': GeneratorExit, 'AssertionError': AssertionError,
            'OSError': OSError}[name](msg)

YIELDS = ['false', 'true', 'mixed', 'none', 'zero', 'one', 'mixed01']

def yield_value(mode, i):
    """what the Python predicate yields for its row number i"""
    return {'false': False, 'true': True, 'mixed': i % 2 == 1, 'none': None, 'zero': 0, 'one': 1, 'mixed01': (i + 1) % 2}[mode]

def expected_end(spec):
    """what the consumer must see: the object itself; a StopIteration that leaves a generator function is turned by CPython
    (PEP 479) into a RuntimeError whose __cause__ is the object"""
    name = spec.get('exc') or 'Boom'
    return 'raised RuntimeError' if name == 'StopIteration' else 'raised ' + name

# ------------------------------------------------------------------ fact predicates of a program

def fact_preds(clauses):
    """{(name, arity): [row args...]} for predicates all of whose clauses are facts (body true)"""
    allc = {}
    for name, args, body in clauses:
        allc.setdefault((name, len(args)), []).append((args, body))
    return {k: [a for a, _ in v] for k, v in allc.items() if all(b == ['true'] for _, b in v)}

def row_terms(args):
    """(JSON terms over row-local variable indices, number of variables)"""
    vs = []
    ts = [semcheck.sterm_to_term(a, vs) for a in args]
    return ts, len(vs)

def numbered(case):
    return progs.number_anons(case['clauses'])

def rest_clauses(case):
    nat = {(n['name'], n['arity']) for n in case['native']}
    return [c for c in case['clauses'] if (c[0], len(c[1])) not in nat]

# ------------------------------------------------------------------ implementation side

FORMS = ['arrays', 'nested', 'requery', 'bounded', 'asserting']
_HIDDEN = [0]

def pick_kind(rng, style):
    """the kind of callable that is registered (lib/consumers.make_callable); with inferred arity only kinds whose signature has
    exactly the predicate's parameters"""
    if style == 'inferred':
        return rng.choice(consumers.KINDS_FIXED)
    if style == 'explicit':
        return rng.choice(consumers.KINDS_FIXED + consumers.KINDS_EXPLICIT_ONLY + ['star:' + k for k in consumers.KINDS_STAR])
    return rng.choice(consumers.KINDS_STAR + ['kwonly'])

def expected_key(spec):
    """the key under which register_function stores the predicate (documented: name_<number of parameters> / name_<arity> / name_n)"""
    return '%s_n' % spec['name'] if spec['style'] == 'variadic' else '%s_%d' % (spec['name'], spec['arity'])

def make_native(yp, E, spec, rows, exc_obj, log):
    """the Python predicate: for row in rows: for _ in unify_arrays(args, row): yield v  - or (forms requery / bounded) the same
    rows kept as facts of a hidden dynamic predicate of the SAME engine, which the predicate queries while it is being solved
    (re-entrant: inside its loop, resp. up front through yp.evaluate_bounded), or (asserting) asserting into a scratch predicate
    of the engine inside its loop"""
    def build(t, fresh):
        k = t[0]
        if k == 'a': return yp.atom(t[1])
        if k in ('i', 's'): return t[1]
        if k == 'v':
            if t[1] not in fresh:
                fresh[t[1]] = yp.variable()
            return fresh[t[1]]
        return yp.functor(t[1], [build(a, fresh) for a in t[2]])
    def nested(args, vals, i):
        if i == len(args):
            yield False
            return
        for _ in E.unify(args[i], vals[i]):
            yield from nested(args, vals, i + 1)
    def value(i):
        return yield_value(spec['yield'], i)
    form = spec['form']
    hidden = None
    if form in ('requery', 'bounded'):
        _HIDDEN[0] += 1
        hidden = '%s__rows%d' % (spec['name'], _HIDDEN[0])
        for i, (ts, nv) in enumerate(rows):
            fresh = {}
            yp.assert_fact(yp.atom(hidden), [i] + [build(t, fresh) for t in ts])
    def answers(args):
        """(row number, iterator over the solutions of args = row)"""
        if form == 'requery':
            I = yp.variable()
            for _ in yp.query(hidden, [I] + list(args)):
                yield E.get_value(I)
            return
        if form == 'bounded':
            I = yp.variable()
            vs = [yp.variable() for _ in args]
            snap = yp.evaluate_bounded(yp.query(hidden, [I] + vs), lambda _: (E.get_value(I), [E.get_value(v) for v in vs]),
                                       recursion_limit=max(sys.getrecursionlimit(), 1000) + 300)
            for i, vals in snap:
                for _ in E.unify_arrays(list(args), vals):
                    yield i
            return
        for i, (ts, nv) in enumerate(rows):
            fresh = {}
            vals = [build(t, fresh) for t in ts]
            if form in ('arrays', 'asserting'):
                it = E.unify_arrays(list(args), vals)
            elif len(args) != len(vals):
                continue
            else:
                it = nested(list(args), vals, 0)
            for _ in it:
                if form == 'asserting':
                    yp.assert_fact(yp.atom(spec['name'] + '__seen'), [yp.atom('x'), len(args)])
                yield i
    def body(args):
        log.append([spec['name'], len(args), [type(a).__name__ for a in args]])
        count = 0
        for i in answers(args):
            if spec.get('raise') is not None and count == spec['raise']:
                raise exc_obj
            count += 1
            yield value(i)
    kind = spec.get('kind') or 'def'
    if spec['style'] == 'inferred':
        return consumers.make_callable(kind, spec['arity'], body), None
    star = kind.startswith('star:') or spec['style'] == 'variadic'
    f = consumers.make_callable(kind.split(':')[-1], spec['arity'], body, star=star)
    return f, (spec['arity'] if spec['style'] == 'explicit' else -1)

def build_fact(yp, ts):
    fresh = {}
    def build(t):
        k = t[0]
        if k == 'a': return yp.atom(t[1])
        if k in ('i', 's'): return t[1]
        if k == 'v':
            if t[1] not in fresh:
                fresh[t[1]] = yp.variable()
            return fresh[t[1]]
        return yp.functor(t[1], [build(a) for a in t[2]])
    return [build(t) for t in ts]

def run_queries(yp, E, case, exc_obj):
    out = []
    for q in case['queries']:
        args, nq = semcheck.query_terms(q)
        T = terms.ImplTerms([yp], nq)
        objs = [T.build(a) for a in args]
        answers, values, truth = [], [], []
        end = 'done'
        same = None
        n = 0
        g = None
        W = E._VERIF_VARIABLES
        before = {id(v) for v in list(W) if v._is_bound} if W is not None else set()
        yp._verif_findall_inner = False
        t_start = time.time()
        try:
            g = yp.query(q[0], objs)
            for x in g:
                n += 1
                if n <= LIMIT:
                    answers.append([terms.term_obs(T.read(T.vars[i])) for i in range(nq)])
                    values.append(repr(x))
                    truth.append(repr(bool(x)))
                if n >= CAP:
                    end = 'cap'
                    break
        except RecursionError:
            end = 'raised RecursionError'
        except BaseException as e:
            end = 'raised %s' % type(e).__name__
            same = next((i for i, o in enumerate(exc_obj) if e is o or (isinstance(o, StopIteration) and e.__cause__ is o)), None)      # which predicate's exception object it is
            # the traceback keeps the frames the exception went through alive, and with them the suspended unify
            # generators of their for loops (CPython): the consumer drops it before looking at the variables
            for x in [e, e.__cause__, e.__context__] + list(exc_obj):
                if x is not None:
                    x.__traceback__ = None
        finally:
            if g is not None and hasattr(g, 'close'):
                try:
                    g.close()
                except BaseException:
                    pass
        for x in exc_obj:       # also when the exception never arrived (swallowed on the way): the harness holds the objects
            x.__traceback__ = None
        leftover = [i for i in range(nq) if T.vars[i]._is_bound]
        leaked = sum(1 for v in list(W) if v._is_bound and id(v) not in before) if W is not None else 0
        o = {'answers': semcheck.canon_answers(answers), 'values': values, 'truth': truth, 'count': n, 'end': end, 'same': same,
             'leftover': leftover, 'leaked': leaked, 'findall_inner': bool(getattr(yp, '_verif_findall_inner', False))}
        # the same query behind the other consumer APIs (evaluate_bounded, list(), next()+close()): lib/consumers.py
        o['cons'] = None
        if consumers.wanted(o) and time.time() - t_start < CONSUMER_TIME and not any(s.get('raise') is not None for s in case['native']):
            o['reclimit'] = sys.getrecursionlimit()
            o['cons'] = consumers.other_consumers(yp, q[0], args, nq, len(out) + len(case['queries']) + len(case['native']), LIMIT)
        out.append(o)
    return out

def consumer_oracle(t, a, what):
    if a.get('cons'):
        r = consumers.mismatch(a, a['cons'], LIMIT)
        if r:
            return '%s (%s): %s' % (t, what, r)
    return None

def keys_oracle(case, io):
    """register_function stores the predicate under name_<number of parameters> (inferred), name_<arity> (explicit), name_n (variadic)"""
    for spec in case['native']:
        if expected_key(spec) not in io.get('keys', []) and spec.get('registered', True):
            return 'Python predicate %s/%d (%s arity, a %s): no key %s in the engine, its keys are %s' % (spec['name'], spec['arity'], spec['style'], spec.get('kind') or 'def', expected_key(spec), io.get('keys'))
    return None

def impl(case):
    if case.get('kind') == 'mixed':
        return impl_mixed(case)
    from yldprolog import compiler, engine as E
    res = {}
    exc_obj = [make_exc(sp.get('exc') or 'Boom', i) for i, sp in enumerate(case['native'])]
    num = numbered(case)
    facts = fact_preds(num)
    for which in ('B', 'A'):
        cl = case['clauses'] if which == 'B' else rest_clauses(case)
        tw = case.get('twins') or []
        if which == 'A' and tw:
            # some cut-free conjunctive RULES are written in Python too: re-entrant twins that query the same engine inside their loops
            cl = [c for c in cl if [c[0], len(c[1])] not in [t[:2] for t in tw]]
        yp = E.YP()
        semcheck.watch_findall(yp)       # notices findall results that collect variables created while the goal ran (see semcheck)
        if cl:
            src = ast_io.program_text(cl)
            try:
                text = compiler.compile_prolog_from_string(src, semcheck.Ctx)
            except Exception as e:
                return {'rejected': type(e).__name__, 'msg': str(e)[:200], 'source': src}
            yp.load_script_from_string(text)
        for name, ts in case['dyn']:
            yp.assert_fact(yp.atom(name), build_fact(yp, ts))
        if which == 'A':
            for name, ar, style in tw:
                yp.register_function(name, consumers.python_twin(yp, E, case['clauses'], (name, ar), style), arity=ar)
        log = []
        def register(i, decoy=False):
            spec = case['native'][i]
            rows = [row_terms(r) for r in facts.get((spec['name'], spec['arity']), [])]
            if decoy:
                rows = rows[:1]      # a first version of the predicate that knows only its first row; replaced later
            f, ar = make_native(yp, E, spec, rows, exc_obj[i], log)
            if ar is None:
                yp.register_function(spec['name'], f)
            else:
                yp.register_function(spec['name'], f, arity=ar)
        if which == 'A':
            pre = case.get('pre')
            if pre is not None:
                # a first round of queries while only some (or none) of the Python predicates are registered
                for i in pre:
                    register(i, decoy=bool(case.get('decoy')))
                res['A0'] = run_queries(yp, E, case, exc_obj)
            for i in range(len(case['native'])):
                if pre is None or i not in pre or case.get('decoy'):
                    register(i)
        res[which] = run_queries(yp, E, case, exc_obj)
        if which == 'A':
            res['calls'] = len(log)
            res['argtypes'] = sorted({t for _, _, ts in log for t in ts})
            res['keys'] = sorted(k for k in yp.eval_context if any(k.startswith(s['name'] + '_') for s in case['native']))
    return res

# ------------------------------------------------------------------ model side

def g_frow(ts, nv):
    return '{| r_vals := %s; r_nv := %s |}' % (g_list([g_term(t) for t in ts]), g_nat(nv))

def model_expr(case):
    if case.get('kind') == 'mixed':
        return model_expr_mixed(case)
    if case.get('pre') is None:
        return '(OL [%s])' % model_expr_phase(case, case['native'])
    return '(OL [%s; %s])' % (model_expr_phase(case, [case['native'][i] for i in case['pre']], bool(case.get('decoy'))), model_expr_phase(case, case['native']))

def g_natives(case, natives, decoy=False):
    facts = fact_preds(numbered(case))
    nats = []
    for spec in natives:
        rows = [row_terms(r) for r in facts.get((spec['name'], spec['arity']), [])]
        if decoy:
            rows = rows[:1]
        nats.append(g_nspec(spec, rows))
    return g_list(nats)

def g_nspec(spec, rows):
    vals = [bool(yield_value(spec['yield'], i)) for i in range(len(rows))]
    style = 'NVariadic' if spec['style'] == 'variadic' else '(NFixed %s)' % g_nat(spec['arity'])
    return '{| n_name := %s; n_style := %s; n_rows := %s; n_vals := %s; n_raise := %s |}' % (
        g_str(spec['name']), style, g_list([g_frow(ts, nv) for ts, nv in rows]), g_list([g_bool(v) for v in vals]),
        'None' if spec.get('raise') is None else '(Some %s)' % g_nat(spec['raise']))

def g_dyn(dynl):
    dyn = {}
    for name, ts in dynl:
        nv = len(terms.term_vars(['f', 'x', ts]))
        dyn.setdefault((name, len(ts)), []).append(g_frow(ts, nv))
    return g_list(['(%s, %s, %s)' % (g_str(k[0]), g_nat(k[1]), g_list(v)) for k, v in dyn.items()])

def model_expr_phase(case, natives, decoy=False):
    num = numbered(case)
    p_full = ast_io.g_program(num)
    p_rest = ast_io.g_program(progs.number_anons(rest_clauses(case)))
    qs = []
    for q in case['queries']:
        args, nq = semcheck.query_terms(q)
        qs.append('(%s, %s, %s)' % (g_str(q[0]), g_list([g_term(a) for a in args]), g_nat(nq)))
    return '(run_native %d %s %s %s %s %s %d)' % (DEPTH, p_rest, p_full, g_natives(case, natives, decoy), g_dyn(case['dyn']), g_list(qs), LIMIT)

def view(m):
    """m[2]: how the model's enumeration ended: ['none'] | ['depth'] | ['unify'] | ['goal'] | ['code'] | ['py', i] (the object raised by Python predicate i)"""
    return {'answers': semcheck.canon_answers(m[0]), 'count': m[1], 'err': m[2][0] != 'none', 'exn': m[2]}

def anon(x):
    """every variable replaced by one anonymous marker"""
    if isinstance(x, list):
        if len(x) == 2 and x[0] == 3 and isinstance(x[1], int):
            return [3, 0]
        return [anon(y) for y in x]
    return x

def findall_sharing(uf, m_py, m_compiled):
    """no tolerance any more: findall/3 collects copies with new variables (engine since the repair D27, model Sem/Machine.collect
    with lo = 0), so the engine with Python predicates and its all-compiled twin agree exactly (answers with unbound variables
    renamed by first occurrence) also where findall is used; before D27 a variable that the goal left unbound was shared between
    the collected instances with compiled clauses and distinct with a Python predicate"""
    return False

def uses_findall(case):
    cs = set()
    for _, _, b in case['clauses']:
        progs.constructs(b, cs)
    return 'call:findall' in cs or any(q[0] == 'findall' for q in case['queries'])

def qtext(q):
    return ast_io.term_text(['fun', q[0], q[1]]) if q[1] else q[0]

def compare(case, io, mo):
    if 'rejected' in io:
        return 'the compiler rejected a generated program: %s %s' % (io['rejected'], io.get('msg'))
    if case.get('kind') == 'mixed':
        return compare_mixed(case, io, mo)
    if any(m and m[0] == 'stuck' for m in mo):
        return 'model compiler stuck'
    if case.get('pre') is not None:
        r = compare_phase(case, io['A0'], None, mo[0], [case['native'][i] for i in case['pre']], case['pre'])
        if r:
            return 'first round (Python predicates %s registered): %s' % ([case['native'][i]['name'] for i in case['pre']], r)
    # the rows given to the model for each Python predicate are NativeRename.row_of_src of the program's facts (computed in Coq)
    for spec, pair in zip(case['native'], mo[-1][-1][0]):
        if pair[0] != pair[1] and not (spec['style'] == 'variadic' and not pair[0]):
            return 'Python predicate %s: the rows of the check %s are not row_of_src of the facts %s' % (spec['name'], pair[0], pair[1])
    return compare_phase(case, io['A'], io['B'], mo[-1], case['native'])

def compare_phase(case, ioA, ioB, mo, natives, tagmap=None):
    raising = any(s.get('raise') is not None for s in natives)
    # identity of variables that findall/3 collects from DIFFERENT answers is outside the model's cell naming (semcheck.watch_findall
    # notices it on the implementation): such a query is compared with the model without variable identity; engine A against B stays exact
    final = ioB is not None
    uf = uses_findall(case)
    for q, a0, b0, m in zip(case['queries'], ioA, ioB if final else ioA, mo):
        mn, mc, mnr = view(m[0]), view(m[1]), view(m[3])
        if tagmap is not None and mn['exn'][0] == 'py':
            mn['exn'] = ['py', tagmap[mn['exn'][1]]]      # position in the registered subset -> position in the case
        a, b = a0, b0
        fa = findall_sharing(uf, mnr, mc)
        if fa:
            mn, mc, mnr = [dict(v, answers=anon(v['answers'])) for v in (mn, mc, mnr)]
            a, b = dict(a0, answers=anon(a0['answers'])), dict(b0, answers=anon(b0['answers']))
        t = qtext(q)
        if not final:
            # only the engine with the Python predicates registered so far against its model
            if mnr['err']:
                k = min(len(a['answers']), len(mn['answers']))
                if a['answers'][:k] != mn['answers'][:k]:
                    return 'query %s: differs from the model before the model\'s depth limit' % t
                continue
            if mn['err']:
                if not a['end'].startswith('raised') or a['answers'] != mn['answers'] or a['count'] != mn['count'] or \
                        mn['exn'][0] != 'py' or a['same'] != mn['exn'][1] or a['end'] != expected_end(case['native'][mn['exn'][1]]):
                    return 'query %s: the model ends with %s after %d answers, the engine %s (object of predicate %s) after %d' % (t, mn['exn'], mn['count'], a['end'], a['same'], a['count'])
                continue
            if a['end'] not in ('done', 'cap') or a['answers'] != mn['answers'] or (a['end'] == 'done' and a['count'] != mn['count']):
                return 'query %s: engine differs from the model (%s after %d answers, model %d)' % (t, a['end'], a['count'], mn['count'])
            continue
        if mc['err'] or mnr['err']:
            # call depth of the model exhausted / cyclic unification: outside the domain; only prefixes are comparable
            for x, y, what in ((a, mn, 'Python-predicate engine'), (b, mc, 'compiled engine')):
                k = min(len(x['answers']), len(y['answers']))
                if x['answers'][:k] != y['answers'][:k]:
                    return 'query %s: %s differs from the model before the model\'s depth limit' % (t, what)
            continue
        if mnr['answers'] != mc['answers'] or mnr['count'] != mc['count']:
            return 'query %s: MODEL: Python-predicate world and compiled world differ (%d vs %d answers)' % (t, mnr['count'], mc['count'])
        if b['end'] not in ('done', 'cap'):
            return 'query %s: all-compiled engine %s after %d answers' % (t, b['end'], b['count'])
        if b['answers'] != mc['answers'] or (b['end'] == 'done' and b['count'] != mc['count']):
            return 'query %s: all-compiled engine differs from the model (%d vs %d answers)' % (t, b['count'], mc['count'])
        if mn['err']:
            # a Python predicate raised: the answers before it, then that predicate's exception object
            if mn['exn'][0] != 'py':
                return 'query %s: MODEL ends with %s although the world without raising predicates ends normally' % (t, mn['exn'])
            if not a['end'].startswith('raised'):
                return 'query %s: the model ends with the exception of Python predicate %d after %d answers, the engine %s after %d' % (t, mn['exn'][1], mn['count'], a['end'], a['count'])
            if a['answers'] != mn['answers'] or a['count'] != mn['count']:
                return 'query %s: answers delivered before the exception differ from the model (%d vs %d)' % (t, a['count'], mn['count'])
            if a['same'] != mn['exn'][1] or a['end'] != expected_end(natives[mn['exn'][1] if tagmap is None else tagmap.index(mn['exn'][1])]):
                return 'query %s: the consumer got %s (object of predicate %s), the model the object raised by predicate %d' % (t, a['end'], a['same'], mn['exn'][1])
            continue
        if a['end'] not in ('done', 'cap'):
            return 'query %s: engine with Python predicates %s after %d answers; the model finishes normally with %d' % (t, a['end'], a['count'], mn['count'])
        if a['answers'] != mn['answers'] or (a['end'] == 'done' and a['count'] != mn['count']):
            return 'query %s: engine with Python predicates differs from the model (%d vs %d answers)' % (t, a['count'], mn['count'])
        if not raising and (a['answers'] != b['answers'] or a['count'] != b['count']):
            return 'query %s: Python predicates and compiled predicates give different answers (%d vs %d)' % (t, a['count'], b['count'])
        if m[2]:
            mv = [repr(bool(x)) for x in m[2][0]]
            if a['values'][len(a['values']) - len(mv):] != mv[:LIMIT] and a['count'] <= LIMIT:
                return 'query %s: values yielded at the top level %s, model %s' % (t, a['values'], mv)
    return None

def same_modulo_findall(a, b):
    """True when the two engines' answers DIFFER (exact comparison; the name is historical, see findall_sharing)"""
    return a['answers'] != b['answers'] or a['count'] != b['count']

def oracle(case, io):
    if not isinstance(io, dict) or 'A' not in io:
        return None
    if case.get('kind') == 'mixed':
        return oracle_mixed(case, io)
    raising = any(s.get('raise') is not None for s in case['native'])
    for q, a, b in zip(case['queries'], io['A'], io['B']):
        t = qtext(q)
        for x, what in ((a, 'Python-predicate engine'), (b, 'compiled engine')):
            if x['leftover'] or x['leaked']:
                return 'query %s (%s): variables still bound after the enumeration ended (%s)' % (t, what, x['end'])
            r = consumer_oracle('query ' + t, x, what)
            if r:
                return r
        if b['end'].startswith('raised') and b['end'] != 'raised RecursionError':
            return 'query %s: the all-compiled engine %s' % (t, b['end'])
        if a['end'].startswith('raised') and a['end'] != 'raised RecursionError':
            if not raising:
                return 'query %s: the engine with Python predicates %s' % (t, a['end'])
            if a['same'] is None or a['end'] != expected_end(case['native'][a['same']]):
                return 'query %s: the exception of the Python predicate did not reach the consumer unchanged (%s, same object: %s)' % (t, a['end'], a['same'])
        if not raising and a['end'] in ('done', 'cap') and b['end'] in ('done', 'cap'):
            if same_modulo_findall(a, b):
                return 'query %s: Python predicates and compiled predicates give different answers (%d vs %d)' % (t, a['count'], b['count'])
    for q, a in zip(case['queries'], io.get('A0') or []):
        if a['leftover'] or a['leaked']:
            return 'query %s (first round): variables still bound after the enumeration ended (%s)' % (qtext(q), a['end'])
        r = consumer_oracle('query ' + qtext(q), a, 'first round')
        if r:
            return r
    bad = [x for x in io.get('argtypes', []) if x not in ('Atom', 'Variable', 'Functor', 'int', 'str')]
    if bad:
        return 'a Python predicate received arguments that are not engine terms: %s' % bad
    return keys_oracle(case, io)

# ------------------------------------------------------------------ generation

ROW_ATOMS = ['a', 'b', 'c', '[]']

def rand_row_term(rng, vars_, depth=2):
    r = rng.random()
    if r < 0.45 or depth <= 0:
        q = rng.random()
        if vars_ and q < 0.25: return V(rng.choice(vars_))
        if q < 0.32: return V('_')
        if q < 0.42: return ['num', rng.choice(['0', '1', '7', '007', '42'])]
        return A(rng.choice(ROW_ATOMS))
    if r < 0.75:
        f, n = rng.choice([('f', 1), ('g', 2), ('f', 2)])
        return ['fun', f, [rand_row_term(rng, vars_, depth - 1) for _ in range(n)]]
    items = [rand_row_term(rng, vars_, depth - 1) for _ in range(rng.randrange(0, 3))]
    if items and vars_ and rng.random() < 0.3:
        t = V(rng.choice(vars_))
        for x in reversed(items):
            t = ['pair', x, t]
        return t
    return ['list', items]

def extra_fact_pred(rng, name):
    ar = rng.choice([0, 1, 2, 2, 3])
    nrows = rng.choice([0, 1, 2, 2, 3, 4]) if ar else rng.choice([0, 1, 2])
    rows = []
    for _ in range(nrows):
        vars_ = ['X', 'Y'][:rng.randrange(0, 3)]
        rows.append([rand_row_term(rng, vars_) for _ in range(ar)])
    return name, ar, rows

def inject(rng, body, name, ar, vars_):
    args = []
    for _ in range(ar):
        if vars_ and rng.random() < 0.75:
            args.append(V(rng.choice(vars_)))
        else:
            args.append(rand_row_term(rng, vars_, 1))
    goal = ['call', name, args]
    r = rng.random()
    if r < 0.12: goal = ['not', goal]
    elif r < 0.22: goal = ['call', 'once', [['fun', name, args] if args else A(name)]]
    elif r < 0.32: goal = ['call', 'findall', [V(vars_[0]) if vars_ else A('x'), ['fun', name, args] if args else A(name), V('L9')]]
    elif r < 0.40 and args: goal = ['call', 'call', [['fun', name, args[:-1]] if args[:-1] else A(name), args[-1]]]
    elif r < 0.50: goal = ['or', ['if', goal, ['true']], ['call', '=', [V(vars_[0]) if vars_ else V('Z9'), A('else')]]]
    elif r < 0.58: goal = ['and', goal, ['cut']]
    if body == ['true']:
        return goal
    return ['and', goal, body] if rng.random() < 0.6 else ['and', body, goal]

def clause_vars(c):
    vs = []
    def t(x):
        if x[0] == 'var' and x[1] != '_' and x[1] not in vs: vs.append(x[1])
        elif x[0] == 'fun': [t(a) for a in x[2]]
        elif x[0] == 'list': [t(a) for a in x[1]]
        elif x[0] == 'pair': t(x[1]); t(x[2])
    def b(x):
        if x[0] == 'call': [t(a) for a in x[2]]
        elif x[0] in ('and', 'or', 'if'): b(x[1]); b(x[2])
        elif x[0] == 'not': b(x[1])
    [t(a) for a in c[1]]
    b(c[2])
    return vs

def gen_base(rng):
    o = progs.Opts(control=rng.random() < 0.75, cut=rng.random() < 0.5, opaque_cut=rng.random() < 0.3, builtins=rng.random() < 0.6, max_preds=4)
    p = progs.gen_program(rng, o)
    clauses = [list(c) for c in p['clauses']]
    extras = [extra_fact_pred(rng, 'r%d' % i) for i in range(rng.randrange(1, 3))]
    dyn = []
    for name, ar, rows in extras:
        mode = rng.choice(['clauses', 'clauses', 'clauses', 'both', 'dynamic'])
        rule_idx = [i for i, c in enumerate(clauses) if c[0].startswith('p')]
        for i in rng.sample(rule_idx, min(len(rule_idx), rng.randrange(1, 4))):
            c = clauses[i]
            clauses[i] = [c[0], c[1], inject(rng, c[2], name, ar, clause_vars(c))]
        for k, row in enumerate(rows):
            if mode == 'clauses' or (mode == 'both' and k % 2 == 0):
                clauses.append([name, row, ['true']])
            else:
                dyn.append([name, row])
    # dynamic facts next to a leaf predicate of the program
    leaves = sorted({c[0] for c in clauses if c[0].startswith('q')})
    if leaves and rng.random() < 0.4:
        for _ in range(rng.randrange(1, 3)):
            dyn.append([rng.choice(leaves), [rng.choice([A('dyn'), F('f', V('X')), V('X')])]])
    queries = list(p['queries'])
    fp = fact_preds(clauses)
    for (name, ar) in list(fp)[:4]:
        for _ in range(rng.randrange(1, 3)):
            args = []
            for j in range(ar):
                q = rng.random()
                args.append(V('Q%d' % rng.randrange(0, max(1, ar))) if q < 0.65 else rand_row_term(rng, ['Q0', 'Q1'], 1))
            args = [a if a != V('_') else V('Q0') for a in args]
            queries.append([name, args])
    return clauses, queries, dyn

def dyn_terms(dyn):
    out = []
    for name, row in dyn:
        ts, _ = row_terms(progs.number_anons([['x', row, ['true']]])[0][1])
        out.append([name, ts])
    return out

def pick_twins(rng, clauses, extra_defined, exclude):
    keys = []
    for c in clauses:
        k = (c[0], len(c[1]))
        if k not in keys:
            keys.append(k)
    defined = set(keys) | set(extra_defined)
    elig = [k for k in keys if k not in exclude and any(c[2] != ['true'] for c in clauses if (c[0], len(c[1])) == k) and consumers.twin_eligible(clauses, k, defined)]
    return [[k[0], k[1], rng.choice([0, 1, 2, 2])] for k in elig if rng.random() < 0.6]

def native_spec(rng, name, ar, raise_=None):
    style = rng.choice(['inferred', 'explicit', 'variadic'])
    return {'name': name, 'arity': ar, 'style': style, 'kind': pick_kind(rng, style),
            'yield': rng.choice(['false', 'true', 'mixed']), 'form': rng.choice(FORMS), 'raise': raise_}

# ------------------------------------------------------------------ one predicate defined from MIXED SOURCES
#
# case['kind'] == 'mixed': the engine is built by a sequence case['ops'] of
#     ['load', clauses, overwrite]   compile the clauses as a script of their own, load_script_from_string(text, overwrite=..)
#     ['reg', i]                     register_function(Python predicate case['native'][i]); its rows are spec['rows'] (source terms)
#     ['assert', name, row]          assert_fact(name, row)
# Queries are asked after the prefixes case['rounds'] of the sequence (the last one is the whole sequence).  The all-compiled
# twin is built by the same sequence with every ['reg', i] of a fixed-arity predicate with >= 1 row replaced by
# ['load', its rows as facts, True] (register_function is an assignment to the key, just as overwrite=True).

def spec_fact_clauses(spec):
    return [[spec['name'], row, ['true']] for row in spec['rows']]

def spec_rows(spec):
    return [row_terms(c[1]) for c in progs.number_anons(spec_fact_clauses(spec))]

def has_twin(spec):
    return spec['style'] != 'variadic' and len(spec['rows']) >= 1

def twin_ops(case):
    out = []
    for op in case['ops']:
        if op[0] == 'reg' and has_twin(case['native'][op[1]]):
            out.append(['load', spec_fact_clauses(case['native'][op[1]]), True])
        else:
            out.append(op)
    return out

def mixed_clauses(case):
    return [c for op in case['ops'] if op[0] == 'load' for c in op[1]]

def impl_mixed(case):
    from yldprolog import compiler, engine as E
    res = {'Ar': [], 'Br': []}
    exc_obj = [make_exc(sp.get('exc') or 'Boom', i) for i, sp in enumerate(case['native'])]
    for which in ('B', 'A'):
        ops = case['ops'] if which == 'A' else twin_ops(case)
        yp = E.YP()
        semcheck.watch_findall(yp)
        log = []
        for n, op in enumerate(ops):
            if op[0] == 'load':
                tw = [t for t in (case.get('twins') or []) if which == 'A' and any([c[0], len(c[1])] == t[:2] for c in op[1])]
                cl = [c for c in op[1] if [c[0], len(c[1])] not in [t[:2] for t in tw]]
                if cl:
                    src = ast_io.program_text(cl)
                    try:
                        text = compiler.compile_prolog_from_string(src, semcheck.Ctx)
                    except Exception as e:
                        return {'rejected': type(e).__name__, 'msg': str(e)[:200], 'source': src}
                    yp.load_script_from_string(text, overwrite=bool(op[2]))
                for name, ar, style in tw:
                    # rules of this script written in Python: re-entrant twins (their keys are defined by this script only)
                    yp.register_function(name, consumers.python_twin(yp, E, op[1], (name, ar), style), arity=ar)
            elif op[0] == 'reg':
                spec = case['native'][op[1]]
                if which == 'B':
                    spec = dict(spec, **{'raise': None})     # a Python predicate that stays in the twin (variadic, no rows) does not raise there
                f, ar = make_native(yp, E, spec, spec_rows(spec), exc_obj[op[1]], log)
                if ar is None:
                    yp.register_function(spec['name'], f)
                else:
                    yp.register_function(spec['name'], f, arity=ar)
            else:
                ts = row_terms(progs.number_anons([[op[1], op[2], ['true']]])[0][1])[0]
                yp.assert_fact(yp.atom(op[1]), build_fact(yp, ts))
            if n + 1 in case['rounds']:
                res[which + 'r'].append(run_queries(yp, E, case, exc_obj))
        res[which] = res[which + 'r'][-1]
        if which == 'A':
            res['calls'] = len(log)
            res['argtypes'] = sorted({t for _, _, ts in log for t in ts})
            res['keys'] = sorted(k for k in yp.eval_context if any(k.startswith(s['name'] + '_') for s in case['native']))
    return res

def g_mop(case, op):
    if op[0] == 'load':
        return '(MLoad %s %s)' % (ast_io.g_program(progs.number_anons(op[1])), g_bool(bool(op[2])))
    if op[0] == 'reg':
        spec = case['native'][op[1]]
        return '(MReg %d %s)' % (op[1], g_nspec(spec, spec_rows(spec)))      # raises the object XPy <index of the predicate>
    ts, nv = row_terms(progs.number_anons([[op[1], op[2], ['true']]])[0][1])
    return '(MAssert %s %s)' % (g_str(op[1]), g_frow(ts, nv))

def model_expr_mixed(case):
    qs = []
    for q in case['queries']:
        args, nq = semcheck.query_terms(q)
        qs.append('(%s, %s, %s)' % (g_str(q[0]), g_list([g_term(a) for a in args]), g_nat(nq)))
    py = [g_mop(case, op) for op in case['ops']]
    tw = [g_mop(case, op) for op in twin_ops(case)]
    return '(OL [%s])' % '; '.join('(run_mixed %d %s %s %s %d)' % (DEPTH, g_list(py[:k]), g_list(tw[:k]), g_list(qs), LIMIT) for k in case['rounds'])

def compare_mixed(case, io, mo):
    if any(m and m[0] == 'stuck' for m in mo):
        return 'model compiler stuck'
    raisers = [i for i, s in enumerate(case['native']) if s.get('raise') is not None]
    uf = uses_findall(dict(case, clauses=mixed_clauses(case)))
    for rnd, k in enumerate(case['rounds']):
        where = 'after %d of %d operations, ' % (k, len(case['ops']))
        for pair in mo[rnd][-1]:
            if pair[0] != pair[1]:
                return where + 'the rows of a Python predicate %s are not row_of_src of the facts its twin loads %s' % (pair[0], pair[1])
        for q, a0, b0, m in zip(case['queries'], io['Ar'][rnd], io['Br'][rnd], mo[rnd]):
            mn, mt, mnr = view(m[0]), view(m[1]), view(m[3])
            a, b = a0, b0
            if findall_sharing(uf, mnr, mt):
                mn, mt, mnr = [dict(v, answers=anon(v['answers'])) for v in (mn, mt, mnr)]
                a, b = dict(a0, answers=anon(a0['answers'])), dict(b0, answers=anon(b0['answers']))
            t = where + 'query ' + qtext(q)
            if mt['err'] or mnr['err']:
                for x, y, what in ((a, mn, 'engine with Python predicates'), (b, mt, 'all-compiled twin')):
                    n = min(len(x['answers']), len(y['answers']))
                    if x['answers'][:n] != y['answers'][:n]:
                        return '%s: %s differs from the model before the model\'s depth limit' % (t, what)
                continue
            if mnr['answers'] != mt['answers'] or mnr['count'] != mt['count']:
                return '%s: MODEL: engine with Python predicates and all-compiled twin differ (%d vs %d answers)' % (t, mnr['count'], mt['count'])
            if b['end'] not in ('done', 'cap'):
                return '%s: all-compiled twin %s after %d answers' % (t, b['end'], b['count'])
            if b['answers'] != mt['answers'] or (b['end'] == 'done' and b['count'] != mt['count']):
                return '%s: all-compiled twin differs from the model (%d vs %d answers)' % (t, b['count'], mt['count'])
            if mn['err']:
                # the world without raising predicates ends normally: the model ends with the object XPy i of Python predicate i
                if mn['exn'][0] != 'py' or mn['exn'][1] not in raisers:
                    return '%s: MODEL ends with %s although the world without raising predicates ends normally' % (t, mn['exn'])
                if not a['end'].startswith('raised'):
                    return '%s: the model ends with the exception of Python predicate %d after %d answers, the engine %s after %d' % (t, mn['exn'][1], mn['count'], a['end'], a['count'])
                if a['answers'] != mn['answers'] or a['count'] != mn['count']:
                    return '%s: answers delivered before the exception differ from the model (%d vs %d)' % (t, a['count'], mn['count'])
                if a['same'] != mn['exn'][1] or a['end'] != expected_end(case['native'][mn['exn'][1]]):
                    return '%s: the consumer got %s (object of predicate %s), the model the object raised by predicate %d' % (t, a['end'], a['same'], mn['exn'][1])
                continue
            if a['end'] not in ('done', 'cap'):
                return '%s: engine with Python predicates %s after %d answers; the model finishes normally with %d' % (t, a['end'], a['count'], mn['count'])
            if a['answers'] != mn['answers'] or (a['end'] == 'done' and a['count'] != mn['count']):
                return '%s: engine with Python predicates differs from the model (%d vs %d answers)' % (t, a['count'], mn['count'])
            if a['answers'] != b['answers'] or a['count'] != b['count']:
                return '%s: Python predicates and compiled predicates give different answers (%d vs %d)' % (t, a['count'], b['count'])
            if m[2] and a['count'] <= LIMIT:
                mv = [repr(bool(x)) for x in m[2][0]]
                if a['truth'] != mv:
                    return '%s: truth values yielded at the top level %s, model %s' % (t, a['values'], mv)
    return None

def oracle_mixed(case, io):
    raising = any(s.get('raise') is not None for s in case['native'])
    for rnd, k in enumerate(case['rounds']):
        for q, a, b in zip(case['queries'], io['Ar'][rnd], io['Br'][rnd]):
            t = 'after %d of %d operations, query %s' % (k, len(case['ops']), qtext(q))
            for x, what in ((a, 'Python-predicate engine'), (b, 'all-compiled twin')):
                if x['leftover'] or x['leaked']:
                    return '%s (%s): variables still bound after the enumeration ended (%s)' % (t, what, x['end'])
                r = consumer_oracle(t, x, what)
                if r:
                    return r
            if b['end'].startswith('raised') and b['end'] != 'raised RecursionError':
                return '%s: the all-compiled twin %s' % (t, b['end'])
            if a['end'].startswith('raised') and a['end'] != 'raised RecursionError':
                if not raising:
                    return '%s: the engine with Python predicates %s' % (t, a['end'])
                if a['same'] is None or a['end'] != expected_end(case['native'][a['same']]):
                    return '%s: the exception of the Python predicate did not reach the consumer unchanged (%s, same object: %s)' % (t, a['end'], a['same'])
            if not raising and a['end'] in ('done', 'cap') and b['end'] in ('done', 'cap'):
                if same_modulo_findall(a, b):
                    return '%s: Python predicates and compiled predicates give different answers (%d vs %d)' % (t, a['count'], b['count'])
    bad = [x for x in io.get('argtypes', []) if x not in ('Atom', 'Variable', 'Functor', 'int', 'str')]
    if bad:
        return 'a Python predicate received arguments that are not engine terms: %s' % bad
    return keys_oracle(case, io)

def mixed_rows(rng, ar, lo, hi):
    rows = []
    for _ in range(rng.randrange(lo, hi + 1)):
        vars_ = ['X', 'Y'][:rng.randrange(0, 3)] if rng.random() < 0.35 else []
        rows.append([rand_row_term(rng, vars_) if rng.random() < 0.5 else A(rng.choice(ROW_ATOMS + ['d', 'e'])) for _ in range(ar)])
    return rows

def context_rules(name, ar):
    """the predicate under conjunction, cut, if-then-else, \\+, findall/3, once/1, call/N"""
    call = lambda f, *a: ['call', f, list(a)]
    xs = [V('X%d' % i) for i in range(ar)]
    goal = ['call', name, xs]
    gterm = ['fun', name, xs] if ar else A(name)
    return [['c1', xs, goal],
            ['c2', xs, ['and', goal, ['cut']]],
            ['c3', xs + [V('R')], ['or', ['if', goal, call('=', V('R'), A('then'))], call('=', V('R'), A('else'))]],
            ['c4', [V('R')], ['and', ['not', ['call', name, [V('_') for _ in range(ar)]]], call('=', V('R'), A('none'))]],
            ['c5', [V('L')], call('findall', ['fun', 't', xs] if ar else A('t'), gterm, V('L'))],
            ['c6', xs, call('once', gterm)],
            ['c7', xs, ['call', 'call', ([['fun', name, xs[:-1]]] if ar > 1 else [A(name)]) + xs[-1:]] if ar else call('call', A(name))],
            ['c8', xs, ['and', goal, goal]]]

def context_queries(ar):
    xs = [V('Q%d' % i) for i in range(ar)]
    return [['c1', xs], ['c2', xs], ['c3', xs + [V('Q9')]], ['c4', [V('Q0')]], ['c5', [V('Q0')]], ['c6', xs], ['c7', xs], ['c8', xs]]

def gen_mixed(rng):
    ar = rng.choice([0, 1, 1, 1, 2, 2, 3])
    name = 'm'
    # the rules: a random program whose rules call m/ar in random contexts, and some of the fixed context rules
    o = progs.Opts(control=rng.random() < 0.75, cut=rng.random() < 0.5, opaque_cut=rng.random() < 0.3, builtins=rng.random() < 0.6, max_preds=3)
    p = progs.gen_program(rng, o)
    rules = [list(c) for c in p['clauses']]
    rule_idx = [i for i, c in enumerate(rules) if c[0].startswith('p')]
    for i in rng.sample(rule_idx, min(len(rule_idx), rng.randrange(1, 3))):
        c = rules[i]
        rules[i] = [c[0], c[1], inject(rng, c[2], name, ar, clause_vars(c))]
    ctx = context_rules(name, ar)
    pick = sorted(rng.sample(range(len(ctx)), rng.randrange(2, 5)))
    rules += [ctx[i] for i in pick]
    queries = list(p['queries'])[:4] + [context_queries(ar)[i] for i in pick]
    if rng.random() < 0.25:
        rules += [[name, row, ['true']] for row in mixed_rows(rng, ar, 1, 1)]      # the rules' script defines the key too
    native, ops = [], []
    raiser = rng.choice([0, 0, 0, 0, 0, 1, 1, 2])      # how many of the Python predicates raise
    for _ in range(rng.randrange(2, 6)):
        r = rng.random()
        if r < 0.4:
            style = rng.choice(['inferred', 'explicit', 'inferred', 'explicit', 'variadic'])
            spec = {'name': name, 'arity': ar, 'style': style, 'kind': pick_kind(rng, style),
                    'yield': rng.choice(YIELDS), 'form': rng.choice(FORMS), 'raise': None,
                    'rows': mixed_rows(rng, ar, 0 if rng.random() < 0.1 else 1, 3 if ar else 2)}
            if raiser and spec['rows']:
                raiser -= 1
                spec['raise'] = rng.choice([0, 1, 1, 2])
                spec['exc'] = rng.choice(EXC_CLASSES)
            native.append(spec)
            ops.append(['reg', len(native) - 1])
        elif r < 0.75:
            cl = []
            for row in mixed_rows(rng, ar, 1, 3 if ar else 2):
                cl.append([name, row, ['cut'] if rng.random() < 0.1 else ['true']])
            ops.append(['load', cl, rng.random() < 0.3])
        else:
            for row in mixed_rows(rng, ar, 1, 2):
                ops.append(['assert', name, row])
    if not native:
        style = rng.choice(['inferred', 'explicit'])
        spec = {'name': name, 'arity': ar, 'style': style, 'kind': pick_kind(rng, style), 'yield': rng.choice(YIELDS),
                'form': rng.choice(FORMS), 'raise': None, 'rows': mixed_rows(rng, ar, 1, 3 if ar else 2)}
        native.append(spec)
        ops.insert(rng.randrange(0, len(ops) + 1), ['reg', 0])
    ops.insert(rng.randrange(0, len(ops) + 1) if rng.random() < 0.5 else 0, ['load', rules, rng.random() < 0.5])
    for _ in range(rng.randrange(1, 4)):
        args = []
        for j in range(ar):
            q = rng.random()
            args.append(V('Q%d' % rng.randrange(0, max(1, ar))) if q < 0.65 else rand_row_term(rng, ['Q0', 'Q1'], 1))
        queries.append([name, [a if a != V('_') else V('Q0') for a in args]])
    rounds = [len(ops)]
    if len(ops) > 1 and rng.random() < 0.35:
        rounds = [rng.randrange(1, len(ops)), len(ops)]
    case = {'kind': 'mixed', 'ops': ops, 'native': native, 'queries': queries, 'rounds': rounds, 'clauses': [], 'dyn': []}
    if rng.random() < 0.5:
        # keys that only the rules' script defines (never m itself, whose definition comes from several sources)
        elsewhere = {(c[0], len(c[1])) for op in ops if op[0] == 'load' and op[1] is not rules for c in op[1]} | {(name, ar)}
        case['twins'] = pick_twins(rng, rules, {(name, ar)}, elsewhere)
    return case

def mixed_corpus():
    """every order of {register_function, load overwrite=False, load overwrite=True, assert_fact} of length 2 and 3 for one key,
    the rules (all contexts) loaded first; the Python predicate's yield / style / form cycle through all values"""
    import itertools
    L = []
    n = 0
    for ar in (1, 2):
        rules = context_rules('m', ar)
        queries = context_queries(ar) + [['m', [V('Q%d' % i) for i in range(ar)]], ['m', [A('a')] * ar], ['m', [V('Q0')] * ar]]
        pad = lambda x: [A(x)] * ar
        for length in (2, 3):
            for seq in itertools.product('RFTD', repeat=length):
                if ar == 2 and (n % 3 or 'R' not in seq):
                    n += 1
                    continue
                native, ops = [], [['load', rules, True]]
                for j, k in enumerate(seq):
                    if k == 'R':
                        native.append({'name': 'm', 'arity': ar, 'style': ['inferred', 'explicit'][(n + j) % 2], 'yield': YIELDS[(n + j) % len(YIELDS)],
                                       'form': ['arrays', 'nested'][(n // 2 + j) % 2], 'raise': None,
                                       'rows': [pad('a'), pad('r%d' % j)] + ([[V('X')] * ar] if (n + j) % 5 == 0 else [])})
                        ops.append(['reg', len(native) - 1])
                    elif k in 'FT':
                        ops.append(['load', [['m', pad('b'), ['true']], ['m', pad('s%d' % j), ['true']]], k == 'T'])
                    else:
                        ops.append(['assert', 'm', pad('d%d' % j)])
                n += 1
                if not native:
                    continue
                L.append({'kind': 'mixed', 'ops': ops, 'native': native, 'queries': queries, 'rounds': [len(ops)], 'clauses': [], 'dyn': []})
    return L


def gen(rng, tier):
    import random
    n = 78 if tier == 'quick' else 1400
    rng_mixed = random.Random(rng.getrandbits(64))      # the two families draw from streams of their own (both determined by the seed)
    cases = []
    for _ in range(n):
        clauses, queries, dyn = gen_base(rng)
        fp = sorted(fact_preds(clauses))
        if not fp:
            continue
        dt = dyn_terms(dyn)
        subsets = [list(fp)]
        for _ in range(2):
            s = [k for k in fp if rng.random() < 0.5]
            if s and s not in subsets:
                subsets.append(s)
        for s in subsets:
            c = {'clauses': clauses, 'queries': queries, 'dyn': dt, 'native': [native_spec(rng, k[0], k[1]) for k in s]}
            if rng.random() < 0.4:
                c['twins'] = pick_twins(rng, clauses, {(d[0], len(d[1])) for d in dt}, set())
            if rng.random() < 0.45:
                # queries are also asked before all Python predicates are registered (none, or some of them)
                c['pre'] = [i for i in range(len(s)) if rng.random() < 0.35]
                # ... or some are first registered in a version that knows only its first row and are replaced afterwards
                c['decoy'] = rng.random() < 0.4
            cases.append(c)
        if rng.random() < 0.6:
            s = subsets[-1]
            specs = [native_spec(rng, k[0], k[1]) for k in s]
            i = rng.randrange(len(specs))
            specs[i]['raise'] = rng.choice([0, 0, 1, 1, 2, 3])
            specs[i]['exc'] = rng.choice(EXC_CLASSES)
            if len(specs) > 1 and rng.random() < 0.4:      # two raising predicates: which object arrives?
                specs[(i + 1) % len(specs)]['raise'] = rng.choice([0, 1, 2])
                specs[(i + 1) % len(specs)]['exc'] = rng.choice(EXC_CLASSES)
            cases.append({'clauses': clauses, 'queries': queries, 'dyn': dt, 'native': specs})
    # one predicate defined from mixed sources (register_function / load_script overwrite or not / assert_fact in every order)
    for _ in range(60 if tier == 'quick' else 1000):
        cases.append(gen_mixed(rng_mixed))
    return cases

def builtin_corpus():
    L = []
    call = lambda f, *a: ['call', f, list(a)]
    q3 = [['q', [A('a')], ['true']], ['q', [A('b')], ['true']], ['q', [A('c')], ['true']]]
    e2 = [['e', [A('a'), A('b')], ['true']], ['e', [A('b'), A('c')], ['true']], ['e', [V('X'), F('f', V('X'))], ['true']]]
    rules = [['t1', [V('X'), V('Y')], ['and', call('q', V('X')), call('e', V('X'), V('Y'))]],
             ['t2', [V('X')], ['and', call('q', V('X')), ['cut']]],
             ['t3', [V('X')], ['or', ['if', call('q', V('X')), call('e', V('X'), V('_'))], call('=', V('X'), A('none'))]],
             ['t4', [V('X')], ['and', call('q', V('X')), ['not', call('e', V('X'), A('c'))]]],
             ['t5', [V('L')], call('findall', F('p', V('X'), V('Y')), F('e', V('X'), V('Y')), V('L'))],
             ['t6', [V('X')], call('once', F('q', V('X')))],
             ['t7', [V('X'), V('Y')], ['and', call('=', V('G'), F('e', V('X'))), call('call', V('G'), V('Y'))]],
             ['t8', [V('X')], ['and', call('q', V('X')), call('\\=', V('X'), A('b'))]]]
    queries = [['t1', [V('Q0'), V('Q1')]], ['t2', [V('Q0')]], ['t3', [V('Q0')]], ['t4', [V('Q0')]], ['t5', [V('Q0')]], ['t6', [V('Q0')]],
               ['t7', [V('Q0'), V('Q1')]], ['t7', [A('b'), V('Q0')]], ['t8', [V('Q0')]], ['q', [V('Q0')]], ['q', [A('b')]],
               ['e', [V('Q0'), V('Q1')]], ['e', [V('Q0'), V('Q0')]], ['e', [F('g', V('Q0')), V('Q1')]]]
    prog = rules + q3 + e2
    dyn0 = dyn_terms([['q', [A('dyn')]], ['e', [A('a'), A('dynamic')]], ['e', [V('X'), V('X')]]])
    for style in ('inferred', 'explicit', 'variadic'):
        for y in ('false', 'true', 'mixed'):
            for form in ('arrays', 'nested'):
                for sub in ([('q', 1)], [('e', 2)], [('q', 1), ('e', 2)]):
                    if (style, y, form) in (('inferred', 'false', 'arrays'), ('variadic', 'mixed', 'nested'), ('explicit', 'true', 'arrays')) or len(sub) == 2:
                        L.append({'clauses': prog, 'queries': queries, 'dyn': dyn0 if y == 'mixed' else [],
                                  'native': [{'name': n, 'arity': k, 'style': style, 'yield': y, 'form': form, 'raise': None} for n, k in sub]})
    for j in (0, 1, 2, 3):
        for style in ('inferred', 'variadic'):
            L.append({'clauses': prog, 'queries': queries, 'dyn': dyn0 if j % 2 else [],
                      'native': [{'name': 'q', 'arity': 1, 'style': style, 'yield': 'false', 'form': 'arrays', 'raise': j}]})
            L.append({'clauses': prog, 'queries': queries, 'dyn': dyn0 if j % 2 else [], 'pre': [] if j < 2 else [1],
                      'native': [{'name': 'q', 'arity': 1, 'style': style, 'yield': 'true', 'form': 'nested', 'raise': None},
                                 {'name': 'e', 'arity': 2, 'style': ['explicit', 'variadic'][j % 2], 'yield': 'mixed', 'form': 'arrays', 'raise': None}]})
            L.append({'clauses': prog, 'queries': queries, 'dyn': [],
                      'native': [{'name': 'e', 'arity': 2, 'style': style, 'yield': 'true', 'form': 'nested', 'raise': j},
                                 {'name': 'q', 'arity': 1, 'style': 'explicit', 'yield': 'mixed', 'form': 'arrays', 'raise': None}]})
    # every exception class below every kind of caller: conjunction, cut, condition and branches of if-then-else, \+, call/N,
    # once/1, findall/3 and meta-calls nested in each other; the consumer must get the object itself
    rules2 = rules + [['t9', [V('X')], call('once', F('call', A('q'), V('X')))],
                      ['t10', [V('L')], call('findall', V('X'), F('once', F('q', V('X'))), V('L'))],
                      ['t11', [V('X')], ['and', ['not', ['not', call('q', V('_'))]], call('=', V('X'), A('yes'))]],
                      ['t12', [V('X')], ['or', ['if', call('e', V('X'), V('_')), ['true']], call('=', V('X'), A('none'))]],
                      ['t13', [V('X')], ['or', ['if', call('=', V('X'), A('a')), call('q', V('X'))], call('e', V('X'), V('_'))]],
                      ['t14', [V('L')], call('findall', V('Y'), F('call', F('e', A('a')), V('Y')), V('L'))],
                      ['t15', [V('X')], ['and', call('call', F('once', F('q', V('X')))), ['cut']]]]
    queries2 = queries + [['t%d' % i, [V('Q0')]] for i in range(9, 16)]
    prog2 = rules2 + q3 + e2
    k = 0
    for cls in EXC_CLASSES:
        for name, ar in (('q', 1), ('e', 2)):
            for j in (0, 1):
                k += 1
                L.append({'clauses': prog2, 'queries': queries2, 'dyn': dyn0 if k % 5 == 0 else [],
                          'native': [{'name': name, 'arity': ar, 'style': ['inferred', 'explicit', 'variadic'][k % 3], 'yield': ['false', 'true', 'mixed'][k % 3],
                                      'form': ['arrays', 'nested'][k % 2], 'raise': j, 'exc': cls}]})
    # round 4: every kind of callable x every registration style that fits it, for q/1, e/2 and both (forms and yields cycle), with
    # the conjunctive rules t1 / t8 written in Python too in every other case
    k = 0
    combos = [('inferred', kd) for kd in consumers.KINDS_FIXED] + \
             [('explicit', kd) for kd in consumers.KINDS_FIXED + consumers.KINDS_EXPLICIT_ONLY + ['star:' + x for x in consumers.KINDS_STAR]] + \
             [('variadic', kd) for kd in consumers.KINDS_STAR + ['kwonly']]
    for style, kd in combos:
        for sub in ([('q', 1), ('e', 2)],):
            k += 1
            c = {'clauses': prog, 'queries': queries, 'dyn': dyn0 if k % 4 == 0 else [],
                 'native': [{'name': n, 'arity': a, 'style': style, 'kind': kd, 'yield': ['false', 'true', 'mixed'][(k + a) % 3], 'form': FORMS[(k + a) % len(FORMS)], 'raise': None}
                            for n, a in sub]}
            if k % 2:
                c['twins'] = [['t1', 2, k % 3], ['t8', 1, (k + 1) % 3]]
            L.append(c)
    return L + mixed_corpus()

def nontrivial(case, io):
    if not isinstance(io, dict) or 'A' not in io or not io.get('calls'):
        return False
    if not any(q['count'] >= 1 for q in io['A']):
        return False
    if case.get('kind') == 'mixed':
        # the key has a Python predicate and another source (script, dynamic facts or a second registration)
        return len(case['ops']) >= 3
    fp = fact_preds(case['clauses'])
    big = [s for s in case['native'] if len(fp.get((s['name'], s['arity']), [])) >= 2]
    cs = set()
    for _, _, b in case['clauses']:
        progs.constructs(b, cs)
    return bool(big) and bool(cs & {'cut', 'not', 'if', 'call:call', 'call:once', 'call:findall'})

def distribution(cases, obs):
    d = {'style': {}, 'yield': {}, 'form': {}, 'kind': {}, 'cases_with_rules_written_in_python': 0, 'queries_run_behind_all_consumer_apis': 0, 'natives_per_case': {}, 'queried_before_registration': sum(1 for c in cases if c.get('pre') is not None), 're_registered': sum(1 for c in cases if c.get('decoy') and c.get('pre')), 'raising': 0, 'with_dynamic_facts': 0, 'ends_A': {},
         'python_predicate_calls': 0, 'constructs': {}, 'replaced_rows': {}, 'mixed_sources': {'cases': 0, 'sequences': {}, 'chained_keys': 0}}
    for c, o in zip(cases, obs):
        if c.get('kind') == 'mixed':
            ms = d['mixed_sources']
            ms['cases'] += 1
            sig = ' '.join({'reg': 'R', 'assert': 'D'}.get(op[0]) or ('T' if op[2] else 'F') for op in c['ops'] if op[0] != 'load' or any(x[0] == 'm' for x in op[1]))
            sig = sig if len(sig) <= 9 else sig[:9] + '..'
            ms['sequences'][sig] = ms['sequences'].get(sig, 0) + 1
            seen = False
            for op in c['ops']:
                if op[0] == 'reg' and c['native'][op[1]]['style'] != 'variadic':
                    seen = True
                elif op[0] == 'load' and op[2]:
                    seen = seen and not any(x[0] == 'm' for x in op[1])
                elif op[0] == 'load' and seen and any(x[0] == 'm' for x in op[1]):
                    ms['chained_keys'] += 1      # a Python predicate wrapped in a chain
                    break
        c = dict(c, clauses=mixed_clauses(c)) if c.get('kind') == 'mixed' else c
        for s in c['native']:
            for k in ('style', 'yield', 'form'):
                d[k][s[k]] = d[k].get(s[k], 0) + 1
            kd = '%s %s' % (s['style'], s.get('kind') or 'def')
            d['kind'][kd] = d['kind'].get(kd, 0) + 1
        d['cases_with_rules_written_in_python'] += bool(c.get('twins'))
        if isinstance(o, dict) and 'A' in o:
            d['queries_run_behind_all_consumer_apis'] += sum(1 for q in o['A'] if q.get('cons'))
        n = str(len(c['native']))
        d['natives_per_case'][n] = d['natives_per_case'].get(n, 0) + 1
        d['raising'] += any(s.get('raise') is not None for s in c['native'])
        # rows of the replaced predicates by the class the theorems for rows with variables distinguish (Sem/NativeRename.v)
        facts = fact_preds(numbered(c))
        for s in c['native']:
            for row in (facts.get((s['name'], s['arity']), []) if c.get('kind') != 'mixed' else [x[1] for x in progs.number_anons(spec_fact_clauses(s))]):
                tops = [a[1] for a in row if a[0] == 'var']
                nv = row_terms(row)[1]
                k = 'ground' if nv == 0 else ('aliased argument (checked only)' if any(tops.count(v) == 1 for v in tops) else 'variables, no aliased argument (proved)')
                d['replaced_rows'][k] = d['replaced_rows'].get(k, 0) + 1
        d['with_dynamic_facts'] += bool(c['dyn'])
        cs = set()
        for _, _, b in c['clauses']:
            progs.constructs(b, cs)
        for x in cs:
            d['constructs'][x] = d['constructs'].get(x, 0) + 1
        if isinstance(o, dict) and 'A' in o:
            d['python_predicate_calls'] += o.get('calls', 0)
            for q in o['A']:
                d['ends_A'][q['end']] = d['ends_A'].get(q['end'], 0) + 1
    return d

def describe(case):
    if case.get('kind') == 'mixed':
        ops = []
        for op in case['ops']:
            if op[0] == 'load':
                ops.append({'load_script_from_string': ast_io.program_text(op[1]), 'overwrite': bool(op[2])})
            elif op[0] == 'reg':
                sp = case['native'][op[1]]
                ops.append({'register_function': dict({k: v for k, v in sp.items() if k != 'rows'}, rows=ast_io.program_text(spec_fact_clauses(sp)))})
            else:
                ops.append({'assert_fact': ast_io.program_text([[op[1], op[2], ['true']]])})
        return {'operations': ops, 'queries_asked_after_operations': case['rounds'], 'queries': [qtext(q) for q in case['queries']], 'rules_written_in_python_too': case.get('twins')}
    return {'program': ast_io.program_text(case['clauses']), 'python_predicates': case['native'], 'rules_written_in_python_too': case.get('twins'),
            'dynamic_facts': [[n, [terms.show_term(t) for t in ts]] for n, ts in case['dyn']],
            'queries': [qtext(q) for q in case['queries']]}

def shrink(case):
    if case.get('kind') == 'mixed':
        if len(case['queries']) > 1:
            for i in range(len(case['queries'])):
                yield dict(case, queries=[case['queries'][i]])
        if len(case['rounds']) > 1:
            for k in case['rounds']:
                yield dict(case, ops=case['ops'][:k], rounds=[k])
        for i, op in enumerate(case['ops']):
            if len(case['ops']) > 1:
                yield dict(case, ops=case['ops'][:i] + case['ops'][i + 1:], rounds=[len(case['ops']) - 1])
            if op[0] == 'load':
                for j in range(len(op[1])):
                    yield dict(case, ops=case['ops'][:i] + [['load', op[1][:j] + op[1][j + 1:], op[2]]] + case['ops'][i + 1:])
            if op[0] == 'reg' and len(case['native'][op[1]]['rows']) > 1:
                sp = case['native'][op[1]]
                for j in range(len(sp['rows'])):
                    nat = list(case['native'])
                    nat[op[1]] = dict(sp, rows=sp['rows'][:j] + sp['rows'][j + 1:])
                    yield dict(case, native=nat)
        return
    if len(case['queries']) > 1:
        for i in range(len(case['queries'])):
            yield dict(case, queries=[case['queries'][i]])
    if len(case['native']) > 1 and case.get('pre') is None:
        for i in range(len(case['native'])):
            yield dict(case, native=case['native'][:i] + case['native'][i + 1:])
    for i in range(len(case['dyn'])):
        yield dict(case, dyn=case['dyn'][:i] + case['dyn'][i + 1:])
    nat = {(n['name'], n['arity']) for n in case['native']}
    cl = case['clauses']
    for i in range(len(cl)):
        if (cl[i][0], len(cl[i][1])) not in nat or sum(1 for c in cl if (c[0], len(c[1])) == (cl[i][0], len(cl[i][1]))) > 1:
            yield dict(case, clauses=cl[:i] + cl[i + 1:])
    for i, (name, args, body) in enumerate(cl):
        if body[0] in ('and', 'or', 'if'):
            for sub in (body[1], body[2]):
                yield dict(case, clauses=cl[:i] + [[name, args, sub]] + cl[i + 1:])
        elif body[0] == 'not':
            yield dict(case, clauses=cl[:i] + [[name, args, body[1]]] + cl[i + 1:])
